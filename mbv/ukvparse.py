"""Independent decoder of the UKV byte format (does not import molli)."""
import struct


def parse(data: bytes):
    """-> dict(h1,h2,b0, recs=[(key,value)], junk=bytes after the last complete record, bof)"""
    if len(data) < 32:
        return {"h1": None, "h2": None, "b0": None, "recs": [], "junk": len(data), "bof": None}
    h1, h2len, b0len = struct.unpack(">16sHI10x", data[:32])
    pos = 32
    h2 = data[pos:pos + h2len]; pos += h2len
    b0 = data[pos:pos + b0len]; pos += b0len
    bof = pos
    recs = []
    while True:
        if pos + 5 > len(data):
            break
        kl, vl = struct.unpack(">BI", data[pos:pos + 5])
        if pos + 5 + kl + vl > len(data):
            break
        recs.append((data[pos + 5:pos + 5 + kl], data[pos + 5 + kl:pos + 5 + kl + vl]))
        pos += 5 + kl + vl
    return {"h1": h1, "h2": h2, "b0": b0, "recs": recs, "junk": len(data) - pos, "bof": bof, "end": pos}
