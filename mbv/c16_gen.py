"""Input generators for C16: seeded random organic-like 3-D molecules and the bundled CDXML fragments.
Only inputs are produced here; nothing in this module judges an outcome."""
from __future__ import annotations
import glob, math, os, random, warnings
import numpy as np
from .adapters.hadd import RCOV, rot_to, build, TEMPLATE

CENTRES = ["C"] * 8 + ["N"] * 3 + ["O"] * 3 + ["B", "Si", "Si", "P", "P", "S", "S"]
BYSTANDERS = ["F", "Cl", "Br", "I", "H", "H", "Li", "Na", "Pd", "Cu", "Zn", "Fe"]
BTYPES = ["Single"] * 13 + ["Double"] * 4 + ["Triple"] * 2 + ["Aromatic"]
TET = np.array([[0.0, 0.0, 1.0], [0.94280904, 0.0, -0.33333333], [-0.47140452, 0.81649658, -0.33333333],
                [-0.47140452, -0.81649658, -0.33333333]])


def rand_rot(rnd):
    v = np.array([rnd.gauss(0, 1) for _ in range(3)])
    w = np.array([rnd.gauss(0, 1) for _ in range(3)])
    return rot_to(np.array([0, 0, 1.0]), v) @ rot_to(np.array([1.0, 0, 0]), w)


def axis_rot(ax, ang):
    ax = ax / np.linalg.norm(ax)
    K = np.array([[0, -ax[2], ax[1]], [ax[2], 0, -ax[0]], [-ax[1], ax[0], 0]])
    return np.eye(3) + math.sin(ang) * K + (1 - math.cos(ang)) * K @ K


def random_molecule(seed, idx, tier):
    """-> dict(atoms [(el, fc, sp)], bonds [(a, b, bt)] 1-based, coords, charges, cls).
    Every centre atom ends up with 0..3 neighbours in pyramidal / bent / terminal (never flat or collinear)
    geometry; ring atoms of the optional aromatic ring carry their substituent in the ring plane (three
    coplanar neighbours, which saturates them: no hydrogens are due there)."""
    rnd = random.Random(f"c16-{seed}-{idx}")
    nheavy = rnd.randint(1, 12 if tier == "quick" else 26)
    atoms, bonds, X, free = [], [], [], []          # free: (atom index 0-based, [unit directions still available])

    def centre_atom():
        el = rnd.choice(CENTRES)
        fc = rnd.choice([-1, 1]) if rnd.random() < 0.25 else 0
        sp = rnd.choice([1, 1, -1, 2]) if rnd.random() < 0.15 else 0
        return (el, fc, sp)

    def clash(p, skip):
        return any(np.linalg.norm(p - x) < 0.85 for j, x in enumerate(X) if j != skip)

    def dirs_after(parent_dir, rnd):
        """two more tetrahedral directions around an atom whose first neighbour lies along parent_dir"""
        R = rot_to(TET[0], parent_dir) @ axis_rot(TET[0], rnd.uniform(0, 2 * math.pi))
        out = [R @ TET[k] for k in (1, 2)]
        return [d + np.array([rnd.uniform(-0.06, 0.06) for _ in range(3)]) for d in out]

    # optional aromatic ring
    if nheavy >= 6 and rnd.random() < 0.35:
        R = rand_rot(rnd)
        c0 = np.array([rnd.uniform(-1, 1) for _ in range(3)])
        for k in range(6):
            a = math.pi / 3 * k
            el = rnd.choice(["C"] * 8 + ["N", "N", "B", "P", "S", "O", "Si"])
            atoms.append((el, rnd.choice([0] * 8 + [1, -1]), 0))
            X.append(c0 + R @ (1.39 * np.array([math.cos(a), math.sin(a), 0.0])))
        for k in range(6):
            bonds.append((k + 1, (k + 1) % 6 + 1, "Aromatic"))
            out = X[k] - c0
            free.append((k, [out / np.linalg.norm(out)]))
    else:
        atoms.append(centre_atom())
        X.append(np.array([rnd.uniform(-1, 1) for _ in range(3)]))
        R = rand_rot(rnd)
        free.append((0, [R @ (TEMPLATE[k] / np.linalg.norm(TEMPLATE[k])) for k in range(3)]))

    def attach(spec, bt):
        rnd.shuffle(free)
        for fi, (p, ds) in enumerate(free):
            if not ds:
                continue
            d = ds.pop(rnd.randrange(len(ds)))
            d = d / np.linalg.norm(d)
            L = RCOV.get(atoms[p][0], 0.8) + RCOV.get(spec[0], 0.8) + rnd.uniform(-0.05, 0.08)
            pos = X[p] + d * L
            if clash(pos, p):
                continue
            atoms.append(spec)
            X.append(pos)
            bonds.append((p + 1, len(atoms), bt) if rnd.random() < 0.7 else (len(atoms), p + 1, bt))
            return len(atoms) - 1, -d
        return None, None

    tries = 0
    while len(atoms) < nheavy and tries < 4 * nheavy:
        tries += 1
        i, back = attach(centre_atom(), rnd.choice(BTYPES))
        if i is not None:
            free.append((i, dirs_after(back, rnd)))
    for _ in range(rnd.randint(0, 1 + len(atoms) // 2)):
        attach((rnd.choice(BYSTANDERS), 0, 0), "Single")
    # isolated atoms (no neighbours): ions, water oxygens, ...
    if rnd.random() < 0.3:
        for _ in range(rnd.randint(1, 2)):
            far = np.array(X).max(axis=0) + np.array([rnd.uniform(3, 5) for _ in range(3)])
            atoms.append(centre_atom() if rnd.random() < 0.8 else (rnd.choice(BYSTANDERS), 0, 0))
            X.append(far)
    X = np.array(X)
    # global orientation: generic, or one bond exactly along +-z (as in hand-built / z-matrix geometries)
    mode = rnd.random()
    if bonds and mode < 0.2:
        a, b, _ = rnd.choice(bonds)
        R = rot_to(X[b - 1] - X[a - 1], np.array([0, 0, rnd.choice([1.0, -1.0])]))
        X = (X - X[a - 1]) @ R.T
        X[a - 1] = 0.0
        X[b - 1][:2] = 0.0                      # exactly on the axis, not within 1e-16 of it
    else:
        X = X @ rand_rot(rnd).T
    # shuffle atom order so that new hydrogens of different centres interleave with nothing in particular
    perm = list(range(len(atoms)))
    rnd.shuffle(perm)
    inv = {old: new for new, old in enumerate(perm)}
    atoms = [atoms[o] for o in perm]
    X = X[perm]
    bonds = [(inv[a - 1] + 1, inv[b - 1] + 1, bt) for a, b, bt in bonds]
    charges = [round(rnd.uniform(-0.8, 0.8), 3) for _ in atoms]
    return {"atoms": atoms, "bonds": bonds, "coords": X.tolist(), "charges": charges,
            "cls": rnd.choice(["Molecule", "Structure"])}


def make_random(seed, idx, tier):
    d = random_molecule(seed, idx, tier)
    return build(d["atoms"], d["bonds"], d["coords"], d["charges"], d["cls"]), d


def cdxml_sources():
    """(file name, kind, key-or-index) for every bundled fragment: labelled ones through the public
    CDXMLFile[key], every fragment element (labelled or not) through the fragment parser."""
    import molli as ml
    base = os.path.join(os.path.dirname(ml.__file__), "files")
    out = []
    for f in sorted(glob.glob(os.path.join(base, "*.cdxml"))):
        with warnings.catch_warnings():
            warnings.simplefilter("ignore")
            cf = ml.CDXMLFile(f)
        for k in cf.keys():
            out.append((os.path.basename(f), "key", k))
        for i in range(len(cf.xfrags)):
            out.append((os.path.basename(f), "frag", i))
    return out


_CF = {}


def make_cdxml(fname, kind, key):
    import molli as ml
    base = os.path.join(os.path.dirname(ml.__file__), "files")
    with warnings.catch_warnings():
        warnings.simplefilter("ignore")
        cf = _CF.get(fname) or _CF.setdefault(fname, ml.CDXMLFile(os.path.join(base, fname)))
        if kind == "key":
            return cf[key]
        return cf._parse_fragment(cf.xfrags[int(key)], name=f"frag{key}")


# ------------------------------------------------------------------------------------------------
# histories: a molecule that was inspected and edited through public calls before hydrogens are added

EDITS = ["rewire", "rewire", "repoint", "repoint", "reappend", "replace", "replace", "remove_substituent",
         "del_bond", "connect", "del_atom"]


def _degree(m, a):
    return sum(1 for b in m.bonds if a is b.a1 or a is b.a2)


def _bonded(m, a, b):
    return any((x.a1 is a and x.a2 is b) or (x.a1 is b and x.a2 is a) for x in m.bonds)


def random_edit(m, rnd):
    """One random public edit; returns its description or None when not applicable.  Edits that keep the NUMBER
    of bonds (rewire, repoint, reappend, replace, remove_substituent of a one-atom substituent) are favoured."""
    import molli.chem as mc
    kind = rnd.choice(EDITS)
    atoms, bonds = list(m.atoms), list(m.bonds)
    if kind in ("rewire", "repoint", "reappend", "del_bond") and bonds:
        b = rnd.choice(bonds)
        if kind == "del_bond":
            m.del_bond(b)
            return kind
        if kind == "reappend":
            m.del_bond(b)
            m.append_bond(b)
            return kind
        end = rnd.choice(["a1", "a2"])
        keep = b.a2 if end == "a1" else b.a1
        cand = [x for x in atoms if x is not b.a1 and x is not b.a2 and _degree(m, x) < 3 and not _bonded(m, x, keep)]
        if not cand:
            return None
        j = rnd.choice(cand)
        if kind == "repoint":
            setattr(b, end, j)                       # a bond's endpoint re-pointed in place
        else:
            bt = b.btype
            m.del_bond(b)
            m.connect(j, keep, btype=bt)
        return f"{kind}"
    leaves = [x for x in atoms if _degree(m, x) == 1]
    if kind in ("replace", "remove_substituent") and leaves:
        x = rnd.choice(leaves)
        bx = next(b for b in bonds if x is b.a1 or x is b.a2)
        p = bx.a2 if bx.a1 is x else bx.a1
        if kind == "remove_substituent":
            m.remove_substituent(p, x, ap_label="AP")
            return kind
        pos = np.array(m.get_atom_coord(x), dtype=float)
        m.del_atom(x)
        y = m.new_atom(rnd.choice(["C", "C", "N", "O", "F", "Si"]), coord=pos)
        m.connect(p, y, btype=mc.BondType[rnd.choice(["Single", "Single", "Double"])])
        return kind
    if kind == "connect" and len(atoms) >= 2:
        a, b = rnd.sample(atoms, 2)
        if _degree(m, a) < 3 and _degree(m, b) < 3 and not _bonded(m, a, b):
            m.connect(a, b)
            return kind
        return None
    if kind == "del_atom" and len(atoms) > 1:
        m.del_atom(rnd.choice(atoms))
        return kind
    return None


def replace_hydrogen(m, rnd, n_before):
    """One of the hydrogens a previous call added is replaced by a carbon 1.5 A away (chain extension)."""
    atoms = list(m.atoms)
    hs = [x for x in atoms[n_before:] if x.element.symbol == "H" and _degree(m, x) == 1]
    if not hs:
        return None
    h = rnd.choice(hs)
    bh = next(b for b in m.bonds if h is b.a1 or h is b.a2)
    c = bh.a2 if bh.a1 is h else bh.a1
    if _degree(m, c) > 3:
        return None
    v = np.array(m.get_atom_coord(h), dtype=float) - np.array(m.get_atom_coord(c), dtype=float)
    if not np.isfinite(v).all() or np.linalg.norm(v) < 1e-6:
        return None
    pos = np.array(m.get_atom_coord(c), dtype=float) + v / np.linalg.norm(v) * 1.5
    m.del_atom(h)
    y = m.new_atom("C", coord=pos)
    m.connect(c, y)
    return "hydrogen->carbon"
