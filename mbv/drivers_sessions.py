"""C04 direction B: real processes running reading()/writing() sessions on one library, with random
delays, long-lived handles and injected failures.  Events are emitted at linearization points (inside
the library lock) with a sequence number from a counter file updated under flock."""
from __future__ import annotations
import fcntl, hashlib, json, multiprocessing as mp, os, random, subprocess, sys, time
from pathlib import Path


def value_of(key: str) -> bytes:
    h = hashlib.sha1(key.encode()).digest()
    return h * (1 + h[0] % 7)


def vd(b: bytes) -> str:
    return hashlib.sha1(bytes(b)).hexdigest()[:8]


class Injected(Exception):
    pass


class Emitter:
    """Sequence numbers come from a counter file updated under flock with ONE fixed-width pwrite (a process that is
    killed while it holds the flock leaves either the old or the new number, never an empty file)."""
    def __init__(self, d: Path, pid: str):
        self.fd = os.open(d / "seq", os.O_RDWR)
        self.log = open(d / f"{pid}.ndjson", "a")
        self.pid = pid

    def __call__(self, ev, **kw):
        fcntl.flock(self.fd, fcntl.LOCK_EX)
        try:
            n = int(os.pread(self.fd, 20, 0) or b"0") + 1
            os.pwrite(self.fd, b"%020d" % n, 0)
            self.log.write(json.dumps({"seq": n, "pid": self.pid, "ev": ev, **kw}) + "\n")
            self.log.flush()
        finally:
            fcntl.flock(self.fd, fcntl.LOCK_UN)


def encoder(v):
    if v is None:
        raise Injected("encoder failure")
    return v


PROBE = r'''
import sys
from fasteners import InterProcessReaderWriterLock
from molli._aux.lock import rwlock
lk = InterProcessReaderWriterLock(rwlock(sys.argv[1]))
print("ready", flush=True)
try:
    for line in sys.stdin:
        ok = lk.acquire_write_lock(timeout=float(line))
        if ok:
            lk.release_write_lock()
        print("acquired" if ok else "timeout", flush=True)
except (BrokenPipeError, KeyboardInterrupt):
    pass                                  # the worker this prober belongs to is gone
'''


class Prober:
    """A separate process that tries to take the library's write lock (a leaked lock is only visible
    from another process: fcntl locks are per process)."""
    def __init__(self, lib_path):
        self.p = subprocess.Popen([sys.executable, "-c", PROBE, str(lib_path)], stdin=subprocess.PIPE,
                                  stdout=subprocess.PIPE, text=True)
        assert self.p.stdout.readline().strip() == "ready"

    def probe(self, timeout=10.0):
        self.p.stdin.write(f"{timeout}\n"); self.p.stdin.flush()
        return self.p.stdout.readline().strip() or "died"

    def close(self):
        try:
            self.p.stdin.close(); self.p.wait(5)
        except Exception:
            self.p.kill()


class TornStream:
    """Stands in for the file object of a UKVFile: the n-th write() of the session writes only the first part of its
    data and the process kills itself (what a crash in the middle of an append leaves on disk)."""
    def __init__(self, real, call, frac):
        self.__dict__.update(_real=real, _call=call, _frac=frac, _n=0)

    def write(self, data):
        self.__dict__["_n"] += 1
        if self._n == self._call:
            self._real.write(bytes(data)[:int(len(data) * self._frac)])
            self._real.flush()
            os.kill(os.getpid(), 9)
        return self._real.write(data)

    def __getattr__(self, name):
        return getattr(self._real, name)


def worker(d, lib_path, pid, nsess, seed, bufsize, barrier, faults, fresh=False, die=None):
    from molli.storage import Collection, UkvCollectionBackend
    rnd = random.Random(seed)
    emit = Emitter(Path(d), pid)
    prober = Prober(lib_path) if faults else None
    if fresh:
        # the library does not exist yet: every worker constructs its handle at the same moment, and a random delay in
        # front of each acquisition of the write lock spreads the constructors over the first sessions of the others
        import fasteners
        cj = random.Random(seed ^ 0xC70)
        orig_acq = fasteners.InterProcessReaderWriterLock.acquire_write_lock
        budget = [3]

        def late_acquire(self, *a, **kw):
            if budget[0] > 0:
                budget[0] -= 1
                time.sleep(cj.random() * 0.05)
            return orig_acq(self, *a, **kw)
        fasteners.InterProcessReaderWriterLock.acquire_write_lock = late_acquire
        barrier.wait()
    lib = Collection(lib_path, UkvCollectionBackend, readonly=False, bufsize=bufsize, value_encoder=encoder)
    if fresh:
        emit("Make")
    mine = []
    # random delays at the boundaries of the protocol steps (begin / flush / end / lock release) widen the
    # windows in which a mis-ordered step (e.g. lock released before the file is closed) becomes visible
    jit = random.Random(seed ^ 0x5EED)

    def delayed(obj, name):
        orig = getattr(obj, name)

        def wrapper(*a, **kw):
            if jit.random() < 0.5:
                time.sleep(jit.random() * 0.003)
            return orig(*a, **kw)
        setattr(obj, name, wrapper)
    for name in ("begin_read", "begin_write", "end_read", "end_write", "flush"):
        delayed(lib._backend, name)
    for name in ("release_write_lock", "release_read_lock"):
        delayed(lib._backend._lock, name)
    if not fresh:
        barrier.wait()
    TO = 20
    for s in range(nsess):
        time.sleep(rnd.random() * 0.002)
        writer = rnd.random() < 0.55
        fault = rnd.choice(["body", "encoder", "flush"]) if (faults and rnd.random() < 0.2) else None
        try:
            if writer:
                nput = rnd.randint(1, 3)
                orig_write = lib._backend._write
                with lib.writing(timeout=TO):
                    emit("WBegin", nkeys=len(lib.keys()))
                    if die is not None and s >= die[0]:
                        uk = lib._backend._ukvfile
                        uk._stream = TornStream(uk._stream, die[1], die[2])
                    endfault = "none"
                    try:
                        calls = [0]
                        if fault == "flush":
                            at = rnd.randint(1, nput)

                            def bad_write(k, v, at=at):
                                calls[0] += 1
                                if calls[0] == at:
                                    raise Injected("backend write failure")
                                return orig_write(k, v)
                            lib._backend._write = bad_write
                            if bufsize > 1000:
                                endfault = "flush"
                        for j in range(nput):
                            if rnd.random() < 0.5:
                                time.sleep(rnd.random() * 0.002)
                            k = f"{pid}-{s}-{j}"
                            if mine and rnd.random() < 0.1:
                                k = rnd.choice(mine)            # deliberate duplicate
                            v = None if (fault == "encoder" and j == nput - 1) else value_of(k)
                            emit("WTry", k=k, vd=vd(v) if v is not None else "")
                            try:
                                lib[k] = v
                                out = "ok"
                                mine.append(k)
                            except KeyError:
                                out = "KeyError"
                            except Injected:
                                out = "Injected"
                            emit("WPut", k=k, vd=vd(v) if v is not None else "", out=out)
                            if out == "Injected":
                                raise Injected("propagate")
                            if rnd.random() < 0.3:
                                try:
                                    got = lib[k]
                                    emit("WGet", k=k, vd=vd(got), out="ok")
                                except KeyError:
                                    emit("WGet", k=k, vd="", out="KeyError")
                        if fault == "body":
                            raise Injected("user code failure")
                    finally:
                        emit("WEnd", fault=endfault)
            else:
                with lib.reading(timeout=TO):
                    keys = sorted(lib.keys())
                    emit("RBegin", nkeys=len(keys))
                    for k in rnd.sample(keys, min(len(keys), 2)) + [f"missing-{pid}-{s}"]:
                        if rnd.random() < 0.3:
                            time.sleep(rnd.random() * 0.002)
                        try:
                            got = lib[k]
                            ok = got == value_of(k)
                            emit("RGet", k=k, vd=vd(got), out="ok" if ok else "CORRUPT")
                        except KeyError:
                            emit("RGet", k=k, vd="", out="KeyError")
                    emit("REnd")
                    if fault == "body":
                        raise Injected("user code failure in reader")
        except Injected:
            # the session ended with an exception: another process must be able to take the lock now
            res = prober.probe()
            emit("Probe", lock=res, after=fault or "refused-put")
            if res != "acquired":
                break
        except TimeoutError:
            emit("Timeout", session=s)
            break
        finally:
            if writer:
                emit("WDone")          # the `with` block has been left: the session is over for this process
                lib._backend._write = orig_write
                # items left in the queue by a failed flush would be written by a later session; the
                # session protocol (C04) says nothing about them, so they are dropped here
                lib._backend._write_queue.clear()
    import atexit
    atexit.unregister(lib._backend.flush)
    if prober:
        prober.close()


FINAL = r'''
import sys, json, hashlib
from molli.storage import Collection, UkvCollectionBackend
import atexit
lib = Collection(sys.argv[1], UkvCollectionBackend, readonly=False)
try:
    with lib.writing(timeout=15):
        content = {k: hashlib.sha1(lib[k]).hexdigest()[:8] for k in lib.keys()}
    print(json.dumps({"lock": "acquired", "content": content}))
except TimeoutError:
    print(json.dumps({"lock": "timeout", "content": {}}))
atexit.unregister(lib._backend.flush)
'''


def run_schedule(workdir: Path, nproc, nsess, seed, faults=True, timeout=300, fresh=False, kills=0, torn=0):
    """-> merged event list (ordered by seq) incl. the Final event from a fresh process."""
    from molli.storage import Collection, UkvCollectionBackend
    d = Path(workdir)
    d.mkdir(parents=True, exist_ok=True)
    (d / "seq").write_bytes(b"%020d" % 0)
    # the library is reached through several spellings of its path (real, through a symlinked directory, with a
    # `..` component): the lock must be the same for all of them
    (d / "real").mkdir(exist_ok=True)
    if not (d / "alias").exists():
        os.symlink(d / "real", d / "alias")
    lib_path = d / "real" / "lib.ukv"
    spellings = [d / "real" / "lib.ukv", d / "alias" / "lib.ukv", d / "real" / ".." / "real" / "lib.ukv"]
    ctx = mp.get_context("fork")
    # the library is created by a child so that this process never holds the lock
    if not fresh:
        p0 = ctx.Process(target=_create, args=(str(lib_path),))
        p0.start(); p0.join(60)
    mortal = bool(kills or torn)
    barrier = ctx.Barrier(nproc + (1 if mortal else 0))
    prnd = random.Random(seed ^ 0xDEAD)
    # planned deaths: the worker writes only the first part of one write() of one of its sessions and kills itself
    # (the process dies at a byte of an append session - C03 - while other processes carry on - C04)
    torn_ids = prnd.sample(range(nproc), min(torn, nproc - 1))
    plans = {i: (prnd.randint(2, max(2, nsess // 2)), prnd.randint(1, 6), prnd.choice([0.0, 0.3, 0.5, 0.9, 1.0])) for i in torn_ids}
    procs = []
    for i in range(nproc):
        buf = -1 if i % 2 == 0 else 100000
        p = ctx.Process(target=worker, args=(str(d), str(spellings[i % 3]), f"p{i}", nsess, seed * 1000 + i, buf, barrier, faults, fresh,
                                             plans.get(i)))
        p.start(); procs.append(p)
    t0 = time.time()
    hung = False
    victims = []
    if mortal:
        # SIGKILL some other workers at random moments of their run: the operating system releases their locks; the
        # harness logs a Kill event as soon as it sees that a process is gone
        from multiprocessing.connection import wait as mpwait
        hemit = Emitter(d, "harness")
        barrier.wait(120)              # the workers have built their handles and start their sessions now
        others = [i for i in range(nproc) if i not in plans]
        at, plan = 0.0, []
        for i in prnd.sample(others, min(kills, max(0, len(others) - 1))):
            at += prnd.uniform(0.03, 0.25)
            plan.append((at, i))
        t1 = time.time()
        pending = {p.sentinel: (i, p) for i, p in enumerate(procs)}
        while pending and time.time() - t0 < timeout:
            wait_s = 0.5 if not plan else max(0.0, min(0.5, plan[0][0] - (time.time() - t1)))
            for s in mpwait(list(pending), timeout=wait_s):
                i, p = pending.pop(s)
                p.join(5)
                if p.exitcode == -9:
                    victims.append(f"p{i}")
                    hemit("Kill", victim=f"p{i}")
            if plan and time.time() - t1 >= plan[0][0]:
                _, i = plan.pop(0)
                if procs[i].is_alive():
                    os.kill(procs[i].pid, 9)
    for p in procs:
        p.join(max(1, timeout - (time.time() - t0)))
        if p.is_alive():
            hung = True
            p.kill()
    events = []
    for f in list(d.glob("p*.ndjson")) + list(d.glob("harness.ndjson")):
        for x in f.read_text().splitlines():
            try:
                events.append(json.loads(x))
            except ValueError:
                pass           # the last line of a killed process may be cut short
    events.sort(key=lambda e: e["seq"])
    env = dict(os.environ)
    try:
        out = subprocess.run([sys.executable, "-c", FINAL, str(lib_path)], capture_output=True, text=True, timeout=60, env=env)
        fin = json.loads(out.stdout.strip().splitlines()[-1])
    except Exception as e:
        fin = {"lock": "error:" + type(e).__name__, "content": {}}
    events.append({"seq": (events[-1]["seq"] + 1) if events else 1, "pid": "final", "ev": "Final", **fin})
    if hung:
        events.append({"seq": events[-1]["seq"] + 1, "pid": "harness", "ev": "Hung"})
    if mortal:
        return events, victims
    return events


def _create(path):
    from molli.storage import Collection, UkvCollectionBackend
    import atexit
    c = Collection(path, UkvCollectionBackend, readonly=False)
    atexit.unregister(c._backend.flush)
