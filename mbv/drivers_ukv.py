"""C02 direction B: seeded random long histories on real UKVFile objects, recorded as event traces."""
from __future__ import annotations
import pickle, random, shutil, tempfile
from pathlib import Path
from .tlc import WORK
from .interp import HDRS
from .adapters.ukv import exc_name


def universe(rnd, nkeys, nvals):
    lens = [1, 2, 3, 7, 16, 64, 200, 255, 256]
    keys = {}
    for i in range(nkeys):
        n = lens[i] if i < len(lens) else rnd.randint(2, 255)
        if i % 3 == 2:      # binary keys: first byte is the index (distinct), the rest random
            body = bytes([i]) + bytes(rnd.randrange(256) for _ in range(n - 1))
        else:               # text keys: start with the index in hex (distinct)
            body = (f"{i:x}" + "k-" * 200).encode()[:n]
        keys[f"K{i}"] = body
    vlens = [0, 1, 3, 100, 4096, 70000]
    vals = {}
    for i in range(nvals):
        n = vlens[i] if i < len(vlens) else rnd.randint(0, 3000)
        vals[f"V{i}"] = bytes(rnd.getrandbits(8) for _ in range(n))
    return keys, vals


def history(seed, length, nhandles=3, nkeys=12, nvals=6):
    from molli.storage.ukvfile import UKVFile
    rnd = random.Random(seed)
    keys, vals = universe(rnd, nkeys, nvals)
    # distinct byte strings are needed so that tokens identify keys
    assert len(set(keys.values())) == len(keys), "key universe collision"
    rk = {v: k for k, v in keys.items()}
    rv = {v: k for k, v in vals.items()}
    WORK.mkdir(exist_ok=True)
    d = Path(tempfile.mkdtemp(prefix="ukvb-", dir=WORK))
    path = d / "f.ukv"
    hs = {f"h{i+1}": None for i in range(nhandles)}
    ev = []

    def mode(h):
        o = hs[h]
        return "none" if o is None else ("closed" if o.closed else ("a" if o.writable else "r"))

    def log(e, h, out, **kw):
        o = hs[h]
        ks = sorted(rk.get(bytes(k), "?" + bytes(k)[:6].hex()) for k in o.keys()) if o is not None else []
        writer = any(mode(x) == "a" for x in hs)
        size = -1 if writer else (path.stat().st_size if path.exists() else 0)
        ev.append({"ev": e, "h": h, "out": out, "keys": ks, "size": size, **kw})

    broken = False
    try:
        for _ in range(length):
            h = rnd.choice(list(hs))
            m = mode(h)
            open_modes = [mode(x) for x in hs]
            writer_open = "a" in open_modes
            any_open = writer_open or "r" in open_modes
            choices = []
            if m == "none":
                if not any_open:
                    choices += ["newx", "new_a"]
                if not writer_open:
                    choices += ["new_r"]
            elif m == "closed":
                choices += ["pickle", "put", "get"]
                if not any_open:
                    choices += ["reopen_a"] * 3
                if not writer_open:
                    choices += ["reopen_r"] * 2
            else:
                choices += ["put"] * (6 if m == "a" else 1) + ["get"] * 3 + ["close"] * 2
            if not choices:
                continue
            c = rnd.choice(choices)
            try:
                if c == "newx":
                    hd = rnd.choice(["hdDef", "hdFull"])
                    h1, h2, b0 = HDRS[hd]
                    try:
                        hs[h] = UKVFile(path, "x", h1=h1, h2=h2, b0=b0)
                        log("newx", h, "ok", hdr=hd)
                    except Exception as e:
                        log("newx", h, exc_name(e), hdr=hd)
                elif c in ("new_a", "new_r"):
                    md = c[-1]
                    try:
                        hs[h] = UKVFile(path, md)
                        log("new", h, "ok", mode=md)
                    except Exception as e:
                        log("new", h, exc_name(e), mode=md)
                elif c in ("reopen_a", "reopen_r", "close", "pickle"):
                    # these calls have no failure mode in the specification: an exception is logged as the outcome
                    # (the trace is rejected at this event) and the history ends here
                    name, kw = ("reopen", {"mode": c[-1]}) if c.startswith("reopen") else (c, {})
                    try:
                        if c.startswith("reopen"):
                            hs[h].open(c[-1])
                        elif c == "close":
                            hs[h].close()
                        else:
                            hs[h] = pickle.loads(pickle.dumps(hs[h]))
                    except Exception as e:
                        ev.append({"ev": name, "h": h, "out": exc_name(e), "keys": [], "size": -1, **kw})
                        broken = True
                        break
                    log(name, h, "ok", **kw)
                elif c == "put":
                    k, v = rnd.choice(list(keys)), rnd.choice(list(vals))
                    try:
                        hs[h].put(keys[k], vals[v])
                        log("put", h, "ok", k=k, v=v)
                    except Exception as e:
                        log("put", h, exc_name(e), k=k, v=v)
                elif c == "get":
                    k = rnd.choice(list(keys))
                    try:
                        got = hs[h].get(keys[k])
                        log("get", h, "ok", k=k, val=rv.get(bytes(got), "?" + str(len(got))))
                    except Exception as e:
                        log("get", h, exc_name(e), k=k, val="")
            except Exception as e:   # pragma: no cover  (driver bug)
                raise
        for h, o in hs.items():
            if not broken and o is not None and not o.closed:
                o.close()
                log("close", h, "ok")
    finally:
        for o in hs.values():
            try:
                o and o.close()
            except Exception:
                pass
        shutil.rmtree(d, ignore_errors=True)
    return {"tid": f"hist-{seed}", "klen": {k: len(v) for k, v in keys.items()}, "vlen": {k: len(v) for k, v in vals.items()},
            "handles": list(hs), "ev": ev}
