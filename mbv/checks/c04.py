"""C04 — concurrent library sessions are serialised and survive failing sessions.

M: TLC checks Sessions.tla (fine-grained protocol, 2-3 processes, failures at every step) for the
   exclusion / durability / lock-release invariants and progress under fairness; deviations must be caught.
A: every (state, session) pair of SessionSeq.tla (whole sessions of one process over long-lived handles,
   failure injected at each step) is replayed on real Collection objects; after each session a separate
   process must obtain the write lock and the independently parsed file must hold exactly the modelled records.
B: real multi-process schedules (random delays, long-lived handles, injected failures) emit lock-ordered
   traces that TLC validates against SessionsTrace.tla."""
from __future__ import annotations
import json, shutil
from pathlib import Path
from ..common import Reporter, model_check, emit_graph, expect_violation
from ..evidence import Evidence
from .. import replay, trace as T, tlc
from ..drivers_sessions import run_schedule

PROP = "C04"
INV = ("WriterExclusive", "LockFreeWhenIdle", "HandleClosedWhenIdle", "AckedPresent", "ReaderSeesOnlyComplete",
       "WriterSeesAll", "NoDuplicate", "SessionsNeedTheFile")
ACTIONS = ("Request", "Acquire", "Begin", "BodyPut", "FlushOne", "BodyDone", "RaiseInBody", "FlushDone", "RaiseInFlush",
           "End", "RaiseInEnd", "Release", "CtorTest", "CtorAcquire", "CtorCreate", "CtorRelease")


def mc_cfg(procs="P2", dev="DevNone", fair=True, maxsess=2):
    return dict(spec="FairSpec" if fair else "Spec",
                constants={"Proc": f"<- {procs}", "Key": "<- K2", "MaxSess": maxsess, "MaxPuts": 2, "Deviations": f"<- {dev}"},
                invariants=INV, properties=("NoLostOrAltered",) + (("Progresses",) if fair else ()))


def seq_cfg(tier, dev="DevNone"):
    return dict(spec="Spec", constants={"Hnd": "<- H3" if tier == "thorough" else "<- H2", "Buffered": "<- Buf",
                                        "MaxSess": 4 if tier == "thorough" else 3, "MaxPuts": 2, "Deviations": f"<- {dev}"},
                invariants=("LockAlwaysFree",), properties=("Monotone",), view="View")


def norm(o):
    if isinstance(o, dict) and isinstance(o.get("file"), list):
        o = dict(o); o["file"] = sorted(o["file"])
    return o


def part_a(tier, seed, ev, rep):
    from ..adapters.sessions import SessionSeqAdapter
    cfg = seq_cfg(tier)
    model_check(ev, "MCSessionSeq", cfg, role="SessionSeq invariants", tag="c04seq", require_actions=("RSess", "WSess"))
    expect_violation("MCSessionSeq", seq_cfg("quick", "DevLeak"), ("LockAlwaysFree",), tag="c04dev")
    edges = emit_graph(ev, "MCSessionSeq", cfg, role="SessionSeq edges", tag="c04emit")
    for e in edges:
        e["obs"] = norm(e["obs"])
    g = replay.Graph(edges)
    hs = ("h1", "h2", "h3") if tier == "thorough" else ("h1", "h2")
    stats, viol, _, _, samples = replay.cover(g, lambda: SessionSeqAdapter(hs), seed=seed, max_path=6,
                                              budget_s=90 if tier == "quick" else 900)
    ev.count(evaluations=stats["steps"], distinct_nontrivial=stats["pairs_exercised"], traces=stats["paths"])
    ev.set(session_replay=stats)
    ev.add_samples([{"direction": "A", "path": s} for s in samples], 1)
    for v in viol:
        rep.violation("replay-sessions", {**v, "handles": list(hs)}, what="; ".join(v["differences"][:3]))
    rep.note(f"A: {stats}")


def part_b(tier, seed, ev, rep):
    # (processes, sessions each, injected failures, library created by the workers themselves - racing constructors)
    # (processes, sessions each, injected failures, library created by the workers themselves - racing constructors,
    #  (workers killed with SIGKILL at random moments, workers that die in the middle of one of their own write() calls))
    runs = ([(8, 40, True, False, 0), (6, 30, False, False, 0)] + [(8, 4, False, True, 0)] * 4 + [(8, 60, False, False, (2, 2))] * 2
            if tier == "quick" else
            [(16, 300, True, False, 0), (12, 200, True, False, 0), (8, 400, False, False, 0)] + [(12, 5, True, True, 0)] * 20
            + [(10, 80, True, False, (3, 3))] * 12)
    traces = []
    wd = tlc.workdir("c04mp")
    try:
        for i, (nproc, nsess, faults, fresh, kills) in enumerate(runs):
            evs = run_schedule(wd / f"run{i}", nproc, nsess, seed * 10 + i, faults=faults, fresh=fresh,
                               kills=kills[0] if kills else 0, torn=kills[1] if kills else 0,
                               timeout=300 if tier == "quick" else 1200)
            victims = []
            if kills:
                evs, victims = evs
            traces.append({"tid": f"mp{i}-n{nproc}-s{nsess}" + ("-fresh" if fresh else "") + (f"-kill{len(victims)}" if kills else ""),
                           "victims": victims, "ev": evs})
    finally:
        shutil.rmtree(wd, ignore_errors=True)
    verdicts, results = T.validate("SessionsTrace", traces, dict(spec="TraceSpec", invariants=("WriterExclusive",)),
                                   chunk=1, par=4, tag="c04tr", timeout=1800)
    for r in results:
        ev.add_tlc(r, "SessionsTrace validation")
    nsessions = 0
    for t in traces:
        v, l = verdicts[t["tid"]]
        nsessions += sum(1 for e in t["ev"] if e["ev"] in ("WBegin", "RBegin"))
        if v != "ACCEPT":
            e = t["ev"][l - 1]
            rep.violation("mp-trace", {"tid": t["tid"], "stuck_at": l, "event": e, "context": t["ev"][max(0, l - 8):l + 2]},
                          what=f"{t['tid']}: event {l} is not a step of the session protocol: {json.dumps(e)[:300]}")
    ev.count(evaluations=sum(len(t["ev"]) for t in traces), distinct_nontrivial=nsessions, traces=len(traces))
    ev.add_samples([{"direction": "B", "events": traces[0]["ev"][10:16]}], 1)
    ev.set(mp_runs=[{"tid": t["tid"], "events": len(t["ev"]), "verdict": verdicts[t["tid"]][0]} for t in traces])
    rep.note(f"B: {[(t['tid'], len(t['ev']), verdicts[t['tid']]) for t in traces]}")


def apalache_inductive(ev, rep):
    """WriterExclusive /\\ LockFreeWhenIdle as an INDUCTIVE invariant of the lock discipline (LockProto.tla, 4 processes),
    discharged by Apalache: Init => IndInv (length 0) and IndInv /\\ Next => IndInv' (length 1).  Optional: a tool failure
    or time-out is reported in the evidence, a counterexample is a machinery error (the TLC runs would disagree)."""
    import subprocess, time
    wd = tlc.workdir("c04apa")
    out = []
    try:
        for init, length in (("Init", 0), ("IndInit", 1)):
            t0 = time.time()
            try:
                p = subprocess.run(["apalache-mc", "check", "--cinit=ConstInit", f"--init={init}", "--inv=IndInv", f"--length={length}",
                                    f"--out-dir={wd}", str(tlc.SPEC / "MC_LockProto.tla")], capture_output=True, text=True,
                                   timeout=300, cwd=str(tlc.SPEC))
            except (subprocess.TimeoutExpired, FileNotFoundError) as e:
                out.append({"obligation": f"{init}/length {length}", "result": f"not run: {type(e).__name__}"})
                continue
            ok = "EXITCODE: OK" in p.stdout
            out.append({"obligation": f"{init}/length {length}", "result": "discharged" if ok else "FAILED", "wall_s": round(time.time() - t0, 1)})
            if not ok and "violat" in p.stdout.lower():
                raise tlc.MachineryError("Apalache found a counterexample to the inductive invariant of LockProto:\n" + p.stdout[-1500:])
    finally:
        shutil.rmtree(wd, ignore_errors=True)
    ev.set(apalache_inductive_invariant={"module": "LockProto", "processes": 4, "obligations": out})
    rep.note(f"Apalache: {out}")


def run(tier, seed, replay_path):
    ev = Evidence(PROP, tier, seed)
    rep = Reporter(PROP, ev)
    if replay_path:
        return do_replay(replay_path)
    model_check(ev, "MCSessions", mc_cfg("P2"), role="Sessions: 2 processes, invariants + progress under fairness",
                tag="c04mc", require_actions=ACTIONS, timeout=900)
    if tier == "thorough":
        model_check(ev, "MCSessions", mc_cfg("P3", fair=False), role="Sessions: 3 processes, invariants", tag="c04mc3",
                    coverage=False, timeout=3000)
    expect_violation("MCSessions", mc_cfg("P2", "DevLeak", fair=False), ("LockFreeWhenIdle",), tag="c04dev")
    expect_violation("MCSessions", mc_cfg("P2", "DevStale", fair=False), ("ReaderSeesOnlyComplete",), tag="c04dev")
    expect_violation("MCSessions", mc_cfg("P2", "DevToctou", fair=False), ("AckedPresent", "NoLostOrAltered"), tag="c04dev")
    apalache_inductive(ev, rep)
    part_a(tier, seed, ev, rep)
    part_b(tier, seed, ev, rep)
    ev.set(rule="A: one case = one (model state, whole session with failure point) pair replayed on real collections with "
                "a lock probe from another process; B: one case = one session of a real multi-process schedule inside a "
                "TLC-validated trace; distinct_nontrivial counts pairs (A) + sessions (B)")
    ev.assumptions += ["fasteners' fcntl reader-writer lock is a correct lock",
                       "threads sharing a handle and nested sessions in one process are outside the claim",
                       "B: items left in the write queue by an injected flush failure are dropped by the driver"]
    return rep.finish()


def do_replay(path):
    doc = json.loads(open(path).read())
    if doc["kind"] == "replay-sessions":
        from ..adapters.sessions import SessionSeqAdapter
        ad = SessionSeqAdapter(tuple(doc["handles"]))
        try:
            res = replay.run_path(ad, doc["path"])
        finally:
            ad.cleanup()
        last = res[-1]
        print(json.dumps({"last": last, "allowed": doc.get("allowed")}, indent=1, default=str))
        for a in doc.get("allowed") or []:
            if not replay._match({"act": a["act"], "obs": a["obs"]}, last["outcome"], last["obs"]):
                print("replay: behaviour now matches the specification")
                return 0
        print(f"VIOLATION property={PROP} replay={path}")
        return 1
    print(json.dumps(doc, indent=1)[:3000])
    print("multi-process schedules are not deterministic; re-run the check to re-sample")
    return 1
