"""C12 - joining fragments at attachment points builds exactly the intended molecule.

M: TLC checks Join.tla: an implementation-shaped reference model of Structure.join on the integer lattice
   (atom filter, atom_map, index look-ups, rotation v2 -> -v1, translation along v1, rotamer scan) and of
   the iterated join of `molli combine` against the clauses of C12 (ProductConstitution, ChargeMultRule,
   KeepsShape, NotMirrored, BondLength, Direction, BackAligned, Functional, InputsUntouched,
   IndexShiftCorrect); every named deviation must be caught.
A: every join / assembly TLC enumerates (fragment pair x pose x attachment atoms x options) is emitted,
   built as real molli objects and executed; constitution, charge and multiplicity of the real product
   are compared with the product TLC computed.
B: every execution (the TLC-enumerated ones, seeded random 3-D tree/ring fragments in general, aligned,
   opposite and near-opposite poses, and real combine._ml_assemble runs) is recorded as a trace
   make/perturb/join/check/asm-begin/asm-end and validated by TLC against the contract (JoinTrace.tla).
"""
from __future__ import annotations
import hashlib, json, os, random, re, time
from concurrent.futures import ThreadPoolExecutor
from collections import Counter
from ..common import Reporter, model_check, expect_violation, emit_graph
from ..evidence import Evidence
from .. import trace as T, tlc
from ..adapters import c12_join as J

PROP = "C12"
WORKERS = 4

# Defects of the pinned tree that would need a redesign are listed here and reported as KNOWN-FINDING for
# exactly their signature (flow kind + set of failing clauses [+ source class]); everything else is a violation.
# The three defects found on the pinned tree (charge=0 / mult=0 overrides ignored, opposite attachment
# vectors turned about an axis drawn from numpy.random, `ap_i - i` wrong for attachment labels given in
# non-ascending order) all have small repairs (.work/fixes/C12-*.patch), so nothing is listed.
# Entry format: "<id>": {"id": "<id>", "signature": {"kind": "pair"|"asm", "clauses": [...], "src": "<prefix, optional>"},
#                        "what": "<text printed after KNOWN-FINDING: property=C12>"}
KNOWN: dict = {}

INV = ("ProductConstitution", "ChargeMultRule", "KeepsShape", "NotMirrored", "BondLength", "Direction", "BackAligned",
       "Functional", "IndexShiftCorrect")
INV_ALL = ("ProductConstitution", "ChargeMultRule", "GeometryClauses", "Functional", "IndexShiftCorrect")   # same clauses,
#          the five geometric ones evaluated together (GeometryClauses = KeepsShape /\ ... /\ BackAligned)
PROPS = ("InputsUntouched",)
# deviation -> (constant in MCJoin, the clause it must violate, needs the assembly configuration)
DEVIATIONS = {
    "KeepsAttachmentPoint": ("DevKeepsAP", "ProductConstitution", False),
    "NeighbourIndexNotShifted": ("DevNbrIdx", "ProductConstitution", False),
    "OverrideZeroIgnored": ("DevOverride0", "ChargeMultRule", False),          # pinned tree: `charge or ...`
    "MutatesInput": ("DevMutates", "InputsUntouched", False),
    "ImproperRotation": ("DevImproper", "NotMirrored", False),
    "RotationTransposed": ("DevTransposed", "BackAligned", False),
    "TranslateBackwards": ("DevBackwards", "Direction", False),
    "LengthIgnored": ("DevLength", "BondLength", False),
    "RngInAntiparallel": ("DevRng", "Functional", False),                       # pinned tree: np.random in rotation.py
    "NoIndexShift": ("DevNoShift", "IndexShiftCorrect", True),
    "ShiftByPosition": ("DevShiftPos", "IndexShiftCorrect", True),              # pinned tree: ap_i - i
}
LMAP = {1: 1.1, 2: 1.54, 3: 2.3}       # lattice bond length -> requested distance in Angstrom
SCALE = 1.25                            # lattice unit in Angstrom


def mc_cfg(tier, mode, dev="DevNone", inv=INV_ALL, props=PROPS, asm=None):
    big = tier == "thorough"
    if mode == "pair":
        c = {"FragPool": "<- FragsT" if big else "<- FragsQ", "Poses": "<- PosesT" if big else "<- PosesQ",
             "ArgPool": "<- ArgsT" if big else "<- ArgsQ", "AsmPool": "<- AsmNone"}
    else:
        c = {"FragPool": "<- FragsA", "Poses": "<- PosesNone", "ArgPool": "<- ArgsNone", "AsmPool": f"<- {asm or 'AsmAny'}"}
    return dict(spec="Spec", constants={"Deviations": f"<- {dev}", "Tol": 0, "One": 1, **c},
                invariants=inv, properties=props, view="View")


TRACE_CFG = dict(spec="TraceSpec", constants={"Deviations": "<- Empty", "Tol": 5, "One": 1000, "FragPool": "<- NoFrags",
                                              "Poses": "<- Empty", "ArgPool": "<- Empty", "AsmPool": "<- Empty"})


# --------------------------------------------------------------------------------------- cases
def lattice_pair_case(e, k, have_xt=True):
    g = e["act"]["g"]
    cls = ("Structure", "Molecule")[k % 2]
    return {"kind": "pair", "src": "tlc-lattice",
            "A": J.desc_from_model(e["a"], cls, "A", SCALE, prefix="a_"), "B": J.desc_from_model(e["b"], cls, "B", SCALE, prefix="b_"),
            "apA": g["apA"] - 1, "apB": g["apB"] - 1,
            "args": {"dist": LMAP[g["L"]], "opt": bool(g["opt"]) and have_xt, "charge": g["qo"]["v"] if g["qo"]["g"] else None,
                     "mult": g["mo"]["v"] if g["mo"]["g"] else None, "btype": None if g["bt"] == "Single" else g["bt"]},
            "seeds": [11 + k, 977 + 3 * k], "by": ("index", "atom")[(k // 2) % 2],
            "model_p": {"atoms": _prefixed(e, g), "bonds": e["p"]["bonds"], "q": e["p"]["q"], "m": e["p"]["m"]}}


def _prefixed(e, g):
    """The product's atom tokens with the label prefixes the real fragments were built with."""
    na = len(e["a"]["atoms"]) - 1
    out = []
    for i, t in enumerate(e["p"]["atoms"]):
        el, lab = t.split(".", 1)
        out.append(f"{el}.{'a_' if i < na else 'b_'}{lab}")
    return out


def lattice_asm_case(e, k):
    unk = lambda rec: [i + 1 for i, t in enumerate(rec["atoms"]) if t.startswith("Unknown.")]
    core = J.desc_from_model(e["core"], "Molecule", "core", SCALE, aps=unk(e["core"]), prefix="k_")
    subs = [J.desc_from_model(s, "Molecule", f"sub{i + 1}", SCALE, aps=(e["saps"][i],), prefix=f"s{i + 1}_")
            for i, s in enumerate(e["subs"])]
    pre = ["k_"] * (len(e["core"]["atoms"]) - len(e["aps"]))
    for i, s in enumerate(e["subs"]):
        pre += [f"s{i + 1}_"] * (len(s["atoms"]) - 1)
    mp = None
    if not e["failed"] and len(pre) == len(e["p"]["atoms"]):
        mp = {"atoms": [t.split(".", 1)[0] + "." + pre[i] + t.split(".", 1)[1] for i, t in enumerate(e["p"]["atoms"])],
              "bonds": e["p"]["bonds"], "q": e["p"]["q"], "m": e["p"]["m"]}
    return {"kind": "asm", "src": "tlc-lattice", "core": core, "subs": subs, "labels": None,
            "aps": [a - 1 for a in e["aps"]], "seed": 5 + k, "model_p": mp}


def run_case(case):
    return J.run_pair(case) if case["kind"] == "pair" else J.run_asm(case)


def case_digest(case):
    c = {k: v for k, v in case.items() if k not in ("seeds", "seed", "model_p")}
    return hashlib.sha1(json.dumps(c, sort_keys=True).encode()).hexdigest()[:16]


def direct_compare(case, lab):
    """Binding A: the real product against the product TLC computed for this very call."""
    mp = case.get("model_p")
    if mp is None:
        return []
    joins = [ev for ev in lab.ev if ev["ev"] == "join"]
    if case["kind"] == "asm":                       # the assembled molecule is the product of the last join
        end = [ev for ev in lab.ev if ev["ev"] == "asm-end"]
        if not end or end[0].get("out") != "ok":
            return [f"assembly raised {end[0].get('err') if end else '?'}"]
        joins = joins[-1:]
    diffs = []
    for ev in joins:
        if ev.get("out") != "ok":
            diffs.append(f"{ev['o']}: join raised {ev.get('err')}")
            continue
        p = ev["p"]
        atoms = [t.replace("@AttachmentPoint", "") for t in p["atoms"]]      # the lattice model has no atom types
        if atoms != mp["atoms"]:
            diffs.append(f"{ev['o']}.atoms: spec {mp['atoms']} != code {atoms}")
        sb = sorted((b["a"], b["b"], b["t"]) for b in mp["bonds"])
        cb = sorted((b["a"], b["b"], b["t"]) for b in p["bonds"])
        if sb != cb:
            diffs.append(f"{ev['o']}.bonds: spec {sb} != code {cb}")
        if p["q"] != mp["q"] * J.MILLI:
            diffs.append(f"{ev['o']}.charge: spec {mp['q']} != code {p['q'] / J.MILLI:g}")
        if p["m"] != mp["m"] * J.MILLI:
            diffs.append(f"{ev['o']}.mult: spec {mp['m']} != code {p['m'] / J.MILLI:g}")
    return diffs


_RE_DIAG = re.compile(r'^<<"DIAG", (\d+), (\d+), "([^"]*)">>')
CHUNK = 250


def validate(traces, tag, par=WORKERS):
    """TLC trace validation; returns the verdicts and, per rejected trace, (event index, failing clauses)."""
    os.environ.setdefault("JAVA_TOOL_OPTIONS", "-Xss8m")     # head-room for ENABLED over big quantified formulas
    verdicts, results = T.validate("JoinTrace", traces, TRACE_CFG, chunk=CHUNK, par=par, tag=tag, timeout=1500)
    diag = {}
    for ci, r in enumerate(results):
        for line in r.stdout.splitlines():
            m = _RE_DIAG.match(line.strip())
            if m:
                tid = traces[ci * CHUNK + int(m.group(1)) - 1]["tid"]
                l = int(m.group(2))
                if tid not in diag or l > diag[tid][0]:
                    diag[tid] = (l, [])
                if l == diag[tid][0] and m.group(3) not in diag[tid][1]:
                    diag[tid][1].append(m.group(3))
    return verdicts, results, {k: (l, sorted(c)) for k, (l, c) in diag.items()}


def known_id(case, clauses):
    for fid, k in KNOWN.items():
        s = k["signature"]
        if s.get("kind") == case["kind"] and sorted(s.get("clauses", [])) == sorted(clauses) \
                and (not s.get("src") or case["src"].startswith(s["src"])):
            return fid
    return None


def slim(ev):
    return {k: v for k, v in ev.items() if k not in ("gA", "gB", "gP")}


# --------------------------------------------------------------------------------------- the check
def run(tier, seed, replay_path):
    ev = Evidence(PROP, tier, seed)
    rep = Reporter(PROP, ev)
    if replay_path:
        return do_replay(replay_path)
    big = tier == "thorough"
    xt = J.ensure_xt()
    import molli as ml
    have_xt = bool(ml.MOLLI_USING_EXTENSIONS) and xt is not None

    # ---- M: the model and its deviations; the emitters for A (independent TLC runs, a few at a time)
    jobs = [
        ("mc", "pair", lambda e: model_check(e, "MCJoin", mc_cfg(tier, "pair"), tag="c12mc", workers=4 if big else 2,
                                             role="Join: pairs x poses x attachment atoms x options, each call made twice",
                                             require_actions=("Make", "ModelJoin", "Perturb"))),
        ("mc", "asm", lambda e: model_check(e, "MCJoin", mc_cfg(tier, "asm"), tag="c12mca", workers=2,
                                            role="Join: iterated joins, every order of 1-3 attachment indices",
                                            require_actions=("AsmBegin", "AsmStep", "AsmEnd"))),
        ("mc", "asc", lambda e: model_check(e, "MCJoin", mc_cfg(tier, "asm", dev="DevShiftPos", asm="AsmAsc"), tag="c12mcb",
                                            workers=2, role="Join: `ap_i - i` is right for ASCENDING attachment indices",
                                            require_actions=("AsmBegin", "AsmStep", "AsmEnd"))),
        ("emit", "pair", lambda e: emit_graph(e, "MCJoin", mc_cfg(tier, "pair"), tag="c12em", timeout=1500,
                                              role="emit every first join of the pair model")),
        ("emit", "asm", lambda e: emit_graph(e, "MCJoin", mc_cfg(tier, "asm"), tag="c12ema",
                                             role="emit every finished assembly")),
    ]
    for name, (const, clause, is_asm) in DEVIATIONS.items():
        def dev_job(e, name=name, const=const, clause=clause, is_asm=is_asm):
            inv = (clause,) if clause in INV else ()
            props = (clause,) if clause in PROPS else ()
            r = expect_violation("MCJoin", mc_cfg("quick", "asm" if is_asm else "pair", dev=const, inv=inv, props=props),
                                 (clause,), tag="c12dev", workers=2)
            e.cov["tlc_runs"].append({"role": f"deviation {name} violates {clause}", "violated": r.violated, **r.stats()})
        jobs.append(("dev", name, dev_job))
    out = {}
    t_phase = time.time()

    def one(job):
        kind, name, fn = job
        e = Evidence(PROP, tier, seed)
        return kind, name, fn(e), e
    with ThreadPoolExecutor(4) as ex:
        for kind, name, res, e in ex.map(one, jobs):
            out[(kind, name)] = res
            ev.cov["tlc_runs"] += e.cov["tlc_runs"]
            ev.cov["states"] += e.cov["states"]
            ev.cov["transitions"] += e.cov["transitions"]

    phases = {"model_runs": round(time.time() - t_phase, 1)}
    # ---- A: cases enumerated by TLC
    cases = []
    edges = out[("emit", "pair")]
    firsts = [e for e in edges if e["act"].get("act") == "join" and e["act"].get("o") == "P1"]
    rnd = random.Random(seed)
    n_enum = len(firsts)
    cap = 6000 if big else 800
    if len(firsts) > cap:
        # TLC checks every enumerated call on the model; a seeded sample of them is executed on the real code
        firsts.sort(key=lambda e: json.dumps([e["act"], e["a"], e["b"]], sort_keys=True))
        firsts = rnd.sample(firsts, cap)
    for k, e in enumerate(firsts):
        cases.append(lattice_pair_case(e, k, have_xt))
    edges = out[("emit", "asm")]
    seen = set()
    for e in edges:
        if e["act"].get("act") == "asm-end" and have_xt:
            key = json.dumps([e["core"]["atoms"], e["aps"]])
            if key not in seen:
                seen.add(key)
                cases.append(lattice_asm_case(e, len(seen)))
    n_lattice = len(cases)

    # ---- B: seeded random inputs
    n_rand = 2600 if big else 360
    modes = ["general"] * 5 + ["opposite"] * 2 + ["aligned", "near-opposite"]
    for i in range(n_rand):
        cases.append(J.rand_pair_case(rnd, modes[i % len(modes)], have_xt))
    n_asm = (500 if big else 80) if have_xt else 0       # _ml_assemble always asks for optimize_rotation=True
    for i in range(n_asm):
        cases.append(J.rand_asm_case(rnd, labelled=(i % 2 == 1)))

    # ---- execute everything on the real code
    t0 = time.time()
    traces, direct, klass = [], {}, Counter()
    calls = 0
    for i, c in enumerate(cases):
        c["tid"] = f"{i:05d}-{c['kind']}-{c['src']}"
        lab = run_case(c)
        calls += lab.calls
        traces.append({"tid": c["tid"], "ev": lab.ev})
        d = direct_compare(c, lab)
        if d:
            direct[c["tid"]] = d
        if c["kind"] == "pair":
            klass[(c["src"].split("-")[0], J.pose_class(c["A"], c["apA"], c["B"], c["apB"]))] += 1
        else:
            asc = [e for e in lab.ev if e["ev"] == "asm-begin"][0]["aps"]
            klass[(c["src"].split("-")[0], "asm-ascending" if asc == sorted(asc) else "asm-unordered")] += 1
    t_exec = time.time() - t0
    for need in (("tlc", "opposite"), ("tlc", "aligned"), ("tlc", "general"), ("random", "opposite"), ("random", "aligned"),
                 ("random", "near-opposite"), ("random", "general"), ("tlc", "asm-unordered"), ("random", "asm-unordered"),
                 ("random", "asm-ascending")):
        if not klass[need] and (have_xt or not need[1].startswith("asm")):
            raise tlc.MachineryError(f"input class {need} was not generated")

    phases["real_calls"] = round(t_exec, 1)
    t_phase = time.time()
    verdicts, results, diag = validate(traces, "c12tr")
    phases["trace_validation"] = round(time.time() - t_phase, 1)
    ev.cov["tlc_runs"].append({"role": "trace validation (JoinTrace)", "batches": len(results),
                               "generated": sum(r.generated for r in results),
                               "wall_s": round(sum(r.wall_s for r in results), 1)})

    # ---- verdicts
    by_tid = {c["tid"]: c for c in cases}
    tmap = {t["tid"]: t for t in traces}
    groups = {}
    for tid, (v, l) in sorted(verdicts.items()):
        if v == "ACCEPT":
            continue
        c = by_tid[tid]
        l2, clauses = diag.get(tid, (l, ["?"]))
        groups.setdefault((c["kind"], tuple(clauses)), []).append((tid, l2))
    for tid, d in sorted(direct.items()):
        if verdicts[tid][0] == "ACCEPT":            # the two bindings must agree; a lone direct mismatch is reported too
            groups.setdefault((by_tid[tid]["kind"], ("DirectCompare",)), []).append((tid, 0))
    n_rej = sum(len(v) for v in groups.values())
    for (kind, clauses), members in sorted(groups.items()):
        # smallest case of the group as the reproducer
        tid, l = min(members, key=lambda m: len(json.dumps(by_tid[m[0]])))
        c = by_tid[tid]
        evs = tmap[tid]["ev"]
        bad = slim(evs[l - 1]) if 0 < l <= len(evs) else None
        what = (f"{len(members)} traces rejected with clauses {list(clauses)}; e.g. {tid}: event {l} "
                f"{json.dumps(bad)[:300] if bad else ''}; direct: {direct.get(tid, [])[:2]}")
        fid = known_id(c, clauses)
        if fid:
            rep.known(fid, KNOWN[fid]["what"])
            continue
        rep.violation("join-trace", {"case": {k: v for k, v in c.items() if k != "tid"}, "tier": tier, "seed": seed,
                                     "stuck_at": l, "clauses": list(clauses), "event": bad,
                                     "direct": direct.get(tid, []), "members": len(members)}, what=what[:700])
    accepted = [t for t in traces if verdicts[t["tid"]][0] == "ACCEPT"]
    n_join_ok = sum(1 for t in traces for e in t["ev"] if e["ev"] == "join" and e.get("out") == "ok")
    nontrivial = {case_digest(c) for c in cases
                  if (c["kind"] == "asm") or (len(c["A"]["atoms"]) + len(c["B"]["atoms"]) - 2 >= 3)}
    ev.count(evaluations=n_join_ok, distinct_nontrivial=len(nontrivial), traces=len(traces))
    ev.set(rule="one case = one (fragment pair, poses, attachment atoms, options) joined twice under different numpy/random "
                "states, or one real combine._ml_assemble run; every call is an event of a trace that TLC validates "
                "against the contract of Join.tla (product atoms/bonds, charge/mult rule, rigid + same handedness, bond "
                "length, direction, same result on the second call, inputs re-observed unchanged, assembled molecule = "
                "intended one); evaluations = real join calls observed and validated; distinct_nontrivial = distinct "
                "input cases (seeds excluded) whose product has >= 3 atoms",
           input_classes={f"{a}/{b}": n for (a, b), n in sorted(klass.items())},
           cases={"tlc_enumerated_joins": n_enum, "tlc_enumerated_executed": n_lattice, "random_pairs": n_rand, "random_assemblies": n_asm},
           real_join_calls=calls, phase_wall_s=phases, rejected_traces=n_rej,
           direct_mismatches=len(direct), exhaustive=False, have_molli_xt=have_xt, molli_xt=xt,
           tolerance="5 micro-Angstrom on distances and coordinates; orientation signs required where |volume| >= 0.01 A^3")
    if accepted:
        ev.add_samples([{"tid": t["tid"], "events": [slim(e) for e in t["ev"]][:6]}
                        for t in (accepted[0], accepted[len(accepted) // 2], accepted[-1])])
    ev.assumptions += [
        "atom order of the product (A's atoms then B's, attachment points dropped) is part of the contract, because "
        "molli combine addresses atoms of an intermediate product by index",
        "B's former attachment direction must point back at A's anchor (clause BackAligned): read as part of "
        "'the intended molecule'; the torsion about the new bond is left free",
        "when no length is requested the extended inputs use the length found in the product (bond length then unconstrained)",
        "geometry enters the specification as integers (micro-Angstrom distances, orientation signs) computed by the harness "
        "with numpy from public coordinates; near-planar quadruples (|volume| < 0.01 A^3) are unconstrained",
        "molli.scripts.combine is imported with a stand-in for the (absent) openbabel package; only --obopt would use it",
    ]
    if not have_xt:
        ev.assumptions.append("molli_xt not importable: optimize_rotation=True and combine._ml_assemble not exercised")
    rep.note(f"{len(cases)} cases ({n_lattice} enumerated by TLC, {n_rand} random pairs, {n_asm} assemblies), {calls} real join "
             f"calls in {t_exec:.1f}s, {len(traces)} traces validated, {n_rej} rejected, classes {dict(ev.cov['input_classes'])}")
    return rep.finish()


def do_replay(path):
    J.ensure_xt()
    doc = json.loads(open(path).read())
    case = doc["case"]
    lab = run_case(case)
    d = direct_compare(case, lab)
    verdicts, results, diag = validate([{"tid": "replay", "ev": lab.ev}], "c12rp", par=1)
    v = verdicts["replay"]
    print(json.dumps({"verdict": v, "clauses": diag.get("replay", (None, []))[1], "direct": d,
                      "events": [slim(e) for e in lab.ev]}, indent=1)[:6000])
    if v[0] != "ACCEPT" or d:
        print(f"VIOLATION property={PROP} replay={path}")
        return 1
    print("replay: behaviour now matches the specification")
    return 0
