"""C06 — copies are faithful and independent; derived molecules never alter their sources.

M: TLC exhausts MolHeap.tla (7 kinds x copy routes x one or two mutations on either side, <= 3 objects) for NoSharedCell,
   Independent, CopyEqual, ViewWritesThrough.  A: every (state, action) pair is replayed on real objects; mutations bump a
   counter stored in the real cell, counters of ALL live objects are compared with the model after every step, full deep
   snapshots decide `equal` (copy time) and `others unchanged` (mutation time)."""
from __future__ import annotations
import json
from ..common import Reporter, model_check, emit_graph, expect_violation
from ..evidence import Evidence
from .. import replay

PROP = "C06"
INV = ("NoSharedCell",)
PROPS = ("Independent", "CopyEqual", "ViewWritesThrough")


def cfg(maxobj, maxmut, dev="DevNone"):
    return dict(spec="Spec", constants={"Kinds": "<- KAll", "CellsOf": "<- CellsM", "Cell": "<- AllCells", "CellIndex": "<- CIdx",
                                        "Routes": "<- RoutesM", "MaxObj": maxobj, "MaxMut": maxmut, "Deviations": f"<- {dev}"},
                invariants=INV, properties=PROPS, view="View")


def run(tier, seed, replay_path):
    from ..adapters.molheap import MolHeapAdapter
    ev = Evidence(PROP, tier, seed)
    rep = Reporter(PROP, ev)
    if replay_path:
        return do_replay(replay_path)
    for dev in ("DevShared", "DevDrop"):
        expect_violation("MCMolHeap", cfg(3, 1, dev), INV + PROPS, tag="c06dev")
    c = cfg(3, 1) if tier == "quick" else cfg(3, 2)
    model_check(ev, "MCMolHeap", c, role="MolHeap invariants", tag="c06mc", require_actions=("Make", "Copy", "ViewOf", "Mutate"),
                timeout=1800)
    edges = emit_graph(ev, "MCMolHeap", c, role="MolHeap edges", tag="c06emit", timeout=1800)
    for e in edges:
        e["obs"] = [dict(o) if isinstance(o, dict) else o for o in e["obs"]]
    g = replay.Graph(edges, key_fields_drop=("equal", "others"))
    stats, viol, _, _, samples = replay.cover_parallel(g, MolHeapAdapter, seed=seed, nproc=6 if tier == "quick" else (12 if g.nedges < 150000 else 6 if g.nedges < 400000 else 4), max_path=8,
                                                       budget_s=35 if tier == "quick" else 600)
    ev.count(evaluations=stats["steps"], distinct_nontrivial=stats["pairs_exercised"], traces=stats["paths"])
    ev.set(replay=stats)
    ev.add_samples([{"path": s} for s in samples], 2)
    seen = set()
    for v in viol:
        sig = (v["action"].get("route"), v["action"].get("cell"), v["action"].get("to"), v["differences"][0][:40])
        if sig in seen:
            continue
        seen.add(sig)
        rep.violation("replay-molheap", v, what=f"{v['action']}: " + "; ".join(v["differences"][:2])[:500])
    rep.note(str(stats))
    ev.set(rule="one case = one (heap state, make/copy/view/mutate) pair replayed on real objects of all seven structure classes; "
                "distinct_nontrivial = distinct pairs exercised")
    ev.assumptions += ["copy.copy (shallow by definition) is not a copy route", "the first atom / first bond / element [0,0] stand for "
                       "their cell kind; full deep snapshots of all other objects are compared before/after every mutation"]
    return rep.finish()


def do_replay(path):
    from ..adapters.molheap import MolHeapAdapter
    doc = json.loads(open(path).read())
    ad = MolHeapAdapter()
    res = replay.run_path(ad, doc["path"])
    last = res[-1]
    print(json.dumps({"last": last, "allowed": doc.get("allowed")}, indent=1, default=str))
    for a in doc.get("allowed") or []:
        if not replay._match({"act": a["act"], "obs": a["obs"]}, last["outcome"], last["obs"]):
            print("replay: behaviour now matches the specification")
            return 0
    print(f"VIOLATION property={PROP} replay={path}")
    return 1
