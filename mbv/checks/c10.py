"""C10 — damaged or truncated mol2 / xyz text is rejected, never returned as a partial molecule.

M: TLC checks spec/Readers.tla (line-level machines of read_mol2 + yield_from_mol2 and read_xyz + yield_from_xyz,
   required design) over EVERY damage of every generated file (1..3 molecules, 0..2 atoms, 0..1 bonds, header
   styles): ErrorOrComplete, GoodAccepted, Terminates; each named deviation must violate.  The same run with the
   deviations of the pinned tree lists the damages for which the modelled as-found reader breaks the contract.
B: every TLC-enumerated (file, damage) pair is rendered as real text, and every bundled / seeded / molli-written
   text is damaged (all line-boundary truncations, all byte offsets of the last record, line deletions and
   duplications, every constrained token corrupted, declared counts +-1, seeded combinations); the real
   Molecule.loads_all_mol2 / loads_all_xyz runs on each under a wall-clock limit and TLC validates the outcome
   against the contract of Readers.tla (ReadersTrace.tla): the model reader is run on the lexical lines of the
   undamaged text and must agree with the real parse (binding), the declared counts of the damaged text and the
   verdict are computed by TLC.
"""
from __future__ import annotations
import glob, json, os, random, time
from collections import Counter, defaultdict
from concurrent.futures import ThreadPoolExecutor
from ..common import Reporter, model_check, expect_violation, emit_graph
from ..evidence import Evidence
from .. import trace as T, tlc
from .. import c10_text as X
from ..adapters import readers as R

PROP = "C10"
WORKERS = 4
# the Next relation of Readers / ReadersTrace is a deep nest of disjuncts and IFs: TLC's successor computation needs a
# little more than the default 1 MB thread stack (a StackOverflowError would be a machinery failure, never a verdict)
os.environ["JAVA_TOOL_OPTIONS"] = (os.environ.get("JAVA_TOOL_OPTIONS", "") + " -Xss64m").strip()

# Genuine departures from the property that cannot be repaired inside the readers (a redesign of the input
# contract would be needed).  Only a violation with exactly this signature is downgraded to KNOWN-FINDING.
from .. import findings as _findings
# Known findings live in /verif/known_findings.json (status "known"); nothing is added at run time.
KNOWN = {f["id"]: f for f in _findings.known_for("C10")}

# One FIXED reproducer per known finding: run in every tier and with every seed before the sampled catalogue and judged
# exactly like the sampled cases (contract by TLC, then the well-formedness pass).  Still there -> KNOWN-FINDING line;
# gone -> a note, no line.
_XYZ3 = ("1\nframe 1\nCl        11.12500       -5.50000        1.01100\n"
         "1\nframe 2\nH         21.12500      -10.50000        1.02100\n"
         "3\nframe 3\nN         31.12500      -15.50000        1.03100\nO         32.12500      -16.00000        1.03200\n"
         "H         33.12500      -16.50000        1.03300\n")
_MOL2U = ("@<TRIPOS>MOLECULE\nion\n 1 0 0 0 0\nSMALL\nUSER_CHARGES\n\n@<TRIPOS>ATOM\n"
          "      1 N1          0.1250    -0.5000     1.0010 N.4     1  UNL1       0.2500\n"
          "@<TRIPOS>UNITY_ATOM_ATTR\n1 1\ncharge 1\n@<TRIPOS>BOND\n")
_XYZ1 = "2\nfixed reproducer\nH          0.00000        0.00000        0.12345\nC          1.00000        2.00000        3.98765\n"
FIXED = (
    {"id": "C10-last-numeric-token-cut", "fmt": "xyz", "text": _XYZ1, "recipe": [["cutbyte", len(_XYZ1) - 4]]},   # '... 3.98'
    {"id": "C10-optional-block-cut", "fmt": "mol2", "text": _MOL2U, "recipe": [["cut", 8]]},                    # before the UNITY tag
    {"id": "C10-edits-compose-wellformed-text", "fmt": "xyz", "text": _XYZ3, "recipe": [["del", 2], ["del", 4], ["del", 3]]},
)


def fixed_sources():
    return [{"sid": "fixed:" + f["id"], "kind": "fixed", "fmt": f["fmt"], "text": f["text"], "desc": {"known": f["id"]},
             "classes": ("Molecule",), "recipes": [f["recipe"]], "known": f["id"]} for f in FIXED]


INV = ("ErrorOrComplete", "GoodAccepted", "Terminates")
ACT_MAIN = ("M2Eof", "M2Skip", "M2Molecule", "M2HdrLine", "M2HdrCounts", "M2HdrStatus", "M2HdrPutBack", "M2AtomTag",
            "M2AtomLine", "M2BondTag", "M2BondLine", "M2OtherTag", "M2Unexpected", "XEof", "XCount", "XComment",
            "XAtomLine")
ACT_STYLES = ("M2HdrComment", "M2UnityTag", "M2UnityItem", "M2UnityPutBack", "M2UnityAttr", "M2OtherTag", "M2Unexpected")
# (deviation, formats, MaxMols, MaxAtoms): the smallest family in which TLC must find the violation
DEVIATIONS = (("DevStale", "FmtMol2", 2, 1, "StylesQ"), ("DevRepeat", "FmtMol2", 2, 1, "StylesQ"),
              ("DevNoCount", "FmtMol2", 1, 1, "StylesQ"), ("DevAsFound", "FmtMol2", 2, 2, "StylesQ"),
              ("DevSpin", "FmtMol2", 1, 1, "StylesQ"), ("DevXyzCount", "FmtXyz", 1, 1, "StylesQ"),
              ("DevXyzEof", "FmtXyz", 1, 1, "StylesQ"), ("DevCut", "FmtBoth", 1, 1, "StylesQ"),
              ("DevOptCut", "FmtMol2", 1, 1, "StylesUnity"), ("DevNoQ", "FmtMol2", 1, 1, "StylesQ"),
              ("DevSlot", "FmtMol2", 1, 2, "StylesQ"), ("DevWrap", "FmtMol2", 1, 2, "StylesQ"))
TRACE_CFG = dict(spec="TraceSpec", constants={"Deviations": "<- DevNone", "Src": "<- TraceSrc"})


def mc_cfg(dev="DevNone", fmts="FmtBoth", styles="StylesQ", mols=2, atoms=2, skip="SkipNone", classes="ClsMol"):
    return dict(spec="MCSpec", constants={"Deviations": f"<- {dev}", "Src": "<- Ident", "Fmts": f"<- {fmts}", "Styles": f"<- {styles}",
                                          "MaxMols": mols, "MaxAtoms": atoms, "SkipShapes": f"<- {skip}", "Classes": f"<- {classes}"},
                invariants=INV, view="View")


# --------------------------------------------------------------------------------------------------------------
# sources of undamaged texts
# --------------------------------------------------------------------------------------------------------------
def bundled():
    import molli
    d = os.path.join(os.path.dirname(molli.__file__), "files")
    out = []
    for p in sorted(glob.glob(d + "/*.mol2") + glob.glob(d + "/*.xyz")):
        if os.path.getsize(p) == 0:
            continue
        out.append({"sid": "file:" + os.path.basename(p), "kind": "bundled", "fmt": p.rsplit(".", 1)[1],
                    "text": open(p).read(), "desc": {"path": p}})
    return out


def molli_written():
    """texts produced by molli's own writers, several different molecules in one text"""
    import molli as ml, warnings
    out = []
    try:
        with warnings.catch_warnings():
            warnings.simplefilter("ignore")
            names = ["benzene", "dmf", "dummy", "fxyl", "hadd_test"]
            mols = [ml.Molecule.load_mol2(getattr(ml.files, n + "_mol2")) for n in names]
            t2 = "".join(m.dumps_mol2() for m in mols)
            out.append({"sid": "written:mol2", "kind": "written", "fmt": "mol2", "text": t2, "desc": {"molecules": names}})
            tx = "".join(m.dumps_xyz() for m in mols)
            out.append({"sid": "written:xyz", "kind": "written", "fmt": "xyz", "text": tx, "desc": {"molecules": names}})
    except Exception as e:                                       # writers are not the subject of C10
        out.append({"skip": f"molli writers unusable here: {type(e).__name__}: {e}"})
    return out


def seeded(tier, seed):
    rnd = random.Random(seed * 7919 + 10)
    out = []
    for fmt in ("mol2", "xyz"):
        for k in range(4 if tier == "quick" else 120):
            desc, text = X.random_file(fmt, rnd)
            out.append({"sid": f"rand:{fmt}:{k}", "kind": "seeded", "fmt": fmt, "text": text, "desc": desc})
    return out


def mc_family(edges):
    """TLC-enumerated (file, damage) pairs -> one source per file with the recipes of its damages"""
    files = {}
    for e in edges:
        shapes = e["shapes"] if isinstance(e["shapes"], list) else []
        key = (e["fmt"], e["style"], json.dumps(shapes), e.get("cls", "Molecule"))
        f = files.setdefault(key, {"fmt": e["fmt"], "style": e["style"], "shapes": shapes, "dam": [], "cls": key[3]})
        f["dam"].append(e)
    out = []
    for (fmt, style, shs, cls), f in sorted(files.items()):
        text = X.render(fmt, style, f["shapes"])
        sid = f"mc:{fmt}:{style}:" + ",".join(f"{s['na']}.{s['nb']}" for s in f["shapes"]) + ("" if cls == "Molecule" else ":" + cls)
        src = {"sid": sid, "kind": "tlc", "fmt": fmt, "text": text, "desc": {"style": style, "shapes": f["shapes"]}, "classes": (cls,),
               "recipes": [], "predicted": {}}
        dm = X.Damager(fmt, text)
        for e in f["dam"]:
            op, i, v = e["op"], e["i"], e["v"]
            if op == "none":
                continue
            if op in ("cut", "del", "dup"):
                rec = [[op, i]]
            else:
                lx, toks = dm.L[i - 1], dm.lines[i - 1].split()
                if v == "junk":
                    j = X.constrained_tokens(fmt, lx)[0]
                    rec = [["tok", i, j, "?!" + toks[j]]]
                elif v == "other":
                    rec = [["set", i, "@<TRIPOS>" + lx["t"] + "X"]]
                elif v == "noq":
                    rec = [["trunc", i, 6]]
                elif v in ("n+1", "n-1"):
                    rec = [["tok", i, 0, str(int(toks[0]) + (1 if v == "n+1" else -1))]]
                elif v in ("a1-1", "a2+1"):
                    j = 1 if v == "a1-1" else 2
                    rec = [["tok", i, j, str(int(toks[j]) + (-1 if v == "a1-1" else 1))]]
                elif v in ("na+1", "na-1", "nb+1", "nb-1"):
                    j = 0 if v[:2] == "na" else 1
                    rec = [["tok", i, j, str(lx["c"][j] + (1 if v[2] == "+" else -1))]]
                else:
                    raise tlc.MachineryError(f"unknown damage variant from the spec: {v}")
                _, ops = dm.apply(rec)
                want, got = e["line"], ops[-1]["line"]
                k = got["k"]
                if v == "junk":
                    same = k == "text" or got.get("ok") is False
                elif v == "noq":
                    same = k == "atom" and got["ok"] and not got["hq"]
                elif v == "other":
                    same = k == "tag" and want["k"] == "tag" and got["t"] not in ("MOLECULE", "ATOM", "BOND")
                elif v in ("n+1", "n-1", "a1-1", "a2+1"):
                    view = lambda x: ((x["n"], x.get("a1"), x.get("a2")) if x["k"] in ("atom", "bond") else
                                      tuple(x["c"][:3]) if x["k"] == "ints" and 4 <= x["nt"] <= 6 else None)
                    same = view(got) is not None and view(got) == (want["n"], want.get("a1"), want.get("a2"))
                else:
                    same = k == "ints" and got.get("c") == want.get("c")
                if not same:
                    raise tlc.MachineryError(f"rendering disagrees with the spec's damaged line: {sid} {rec} {got} {want}")
            src["recipes"].append(rec)
            src["predicted"][json.dumps(rec)] = bool(e["ok"])
        out.append(src)
    return out


def recipes_for(src, tier, rnd):
    dm = X.Damager(src["fmt"], src["text"])
    n = len(dm.lines)
    big = n > 400
    rec = list(src.get("recipes", []))
    if src["kind"] == "tlc":
        return dm, rec + dm.byte_cuts()
    if not big:
        idx = list(range(1, n + 1))
        didx = idx if tier == "thorough" or n <= 50 else sorted(set(idx[:25]) | set(rnd.sample(idx[25:], 25)))
        rec += dm.line_cuts() + dm.byte_cuts() + dm.del_dup(didx) + dm.count_changes()
        rec += dm.tok_corruptions(idx, rnd, per_line=None if tier == "thorough" else 1)
        rec += [dm.random_combo(rnd) for _ in range(12 if tier == "quick" else 400)]
    else:
        heavy = n > 3000
        if tier == "quick":
            ncut, nl, nc = 30, 12, 5
        else:
            ncut, nl, nc = (250, 40, 20) if heavy else (n, 300, 60)
        idx = sorted(rnd.sample(range(1, n + 1), nl))
        rec += dm.line_cuts(sample=ncut, rnd=rnd) + dm.byte_cuts() + dm.del_dup(idx) + dm.count_changes()
        rec += dm.tok_corruptions(idx, rnd, per_line=1)
        rec += [dm.random_combo(rnd) for _ in range(nc)]
    return dm, rec


# --------------------------------------------------------------------------------------------------------------
# trace construction and validation
# --------------------------------------------------------------------------------------------------------------
def good_event(src, outcome):
    return {"ev": "good", "fmt": src["fmt"], "cls": src.get("cls", "Molecule"), "lines": X.lex_text(src["fmt"], src["text"]),
            "out": outcome["out"], "mols": outcome["mols"]}


def dam_event(ops, outcome, via="loads_all"):
    return {"ev": "dam", "via": via, "d": ops, "out": outcome["out"], "mols": outcome["mols"]}


def validate_all(items_by_src, goods, *, par=WORKERS, tag="c10tr"):
    """items_by_src: {sid: [(key, dam event)]} -> {key: "ACCEPT" | "STUCK"}.  One trace = the good event of a text + a
    slice of its damage events; ReadersTrace prints a verdict "<tid>#<l>" STUCK for every event that breaks the contract
    and ACCEPT for the trace when all events have been consumed.  The traces are spread over `par` TLC runs by weight."""
    traces, index = [], {}
    for sid, items in items_by_src.items():
        nl = len(goods[sid]["lines"])
        per = 100000 if nl > 1000 else max(40, min(400, 30000 // max(nl, 1)))
        for n, i in enumerate(range(0, len(items), per)):
            tid = f"T{len(traces)}"
            part = items[i:i + per]
            traces.append(({"tid": tid, "ev": [goods[sid]] + [e for _, e in part]}, nl * 3 + sum(20 + nl // 8 for _ in part)))
            index[tid] = (sid, part)
    nb = max(1, min(par, len(traces)))
    bins = [[0, []] for _ in range(nb)]
    for t, w in sorted(traces, key=lambda x: -x[1]):
        b = min(bins, key=lambda b: b[0])
        b[0] += w
        b[1].append(t)

    def one(b):
        return T.validate("ReadersTrace", b[1], TRACE_CFG, chunk=len(b[1]) + 1, par=1, tag=tag, timeout=1500)
    verdict, results = {}, []
    with ThreadPoolExecutor(par) as ex:
        outs = list(ex.map(one, [b for b in bins if b[1]]))
    for verdicts, res in outs:
        results += res
        for tid, (sid, part) in index.items():
            if tid not in verdicts:
                continue
            v, l = verdicts[tid]
            if v != "ACCEPT":
                raise tlc.MachineryError(
                    f"the model reader of Readers.tla and the real reader disagree on the UNDAMAGED text {sid} (trace stuck at "
                    f"event {l}, the good event): the model does not describe the code on well-formed input")
            for n, (k, _) in enumerate(part):
                verdict[k] = "STUCK" if f"{tid}#{n + 2}" in verdicts else "ACCEPT"
    return verdict, results, len(traces)


def wellformed_pass(cands):
    """cands: {key: (fmt, damaged text, class)} -> set of keys whose damaged text is, by itself, a well-formed text that the real
    reader read exactly as the required-design model of Readers.tla reads it (the text is submitted as the 'good' event of
    its own trace: model run + agreement decided by TLC)."""
    if not cands:
        return set()
    keys = list(cands)
    res = R.run_cases([(i, cands[k][0], cands[k][1], True, cands[k][2], R.PRIMARY[cands[k][2]]) for i, k in enumerate(keys)],
                      workers=WORKERS)
    traces = []
    for i, k in enumerate(keys):
        o = res[i]
        blank = any(not isinstance(a.get(f), int) for m in o["mols"] for a in m.get("atoms", ()) for f in ("x", "y", "z", "q"))
        if o["out"] == "ret" and o["mols"] and not blank:      # (an atom without coordinates: certainly not a reading of the text)
            traces.append({"tid": f"W{i}", "ev": [{"ev": "good", "fmt": cands[k][0], "cls": cands[k][2],
                                                   "lines": X.lex_text(cands[k][0], cands[k][1]), "out": "ret", "mols": o["mols"]}]})
    if not traces:
        return set()
    verdicts, _ = T.validate("ReadersTrace", traces, TRACE_CFG, chunk=max(1, (len(traces) + WORKERS - 1) // WORKERS),
                             par=WORKERS, tag="c10wf", timeout=900)
    return {keys[int(tid[1:])] for tid, (v, _) in verdicts.items() if v == "ACCEPT"}


def known_id(src, dm, rec, ops, g, o, wf):
    if not wf:
        return None
    if is_known_cut(src, dm, rec, ops, g, o):
        return "C10-last-numeric-token-cut"
    if is_known_optcut(src, dm, rec, ops, g, o):
        return "C10-optional-block-cut"
    if len(rec) > 1 and o["out"] == "ret":
        return "C10-edits-compose-wellformed-text"
    return None


def diagnose(src, good, dam_out, ops):
    """words for the report only (the verdict is TLC's)"""
    if dam_out["out"] == "timeout":
        return "the reader did not return within the wall-clock limit"
    ms, rf = dam_out["mols"], good["mols"]
    if len(ms) > len(rf):
        return f"{len(ms)} molecules returned, the undamaged text has {len(rf)}"
    for i, (m, r) in enumerate(zip(ms, rf)):
        if m["dig"] != r["dig"]:
            return (f"molecule {i + 1} of {len(ms)} returned with content different from molecule {i + 1} of the undamaged "
                    f"text (atoms {m['na']}/{r['na']}, coordinate rows {m['nc']}, bonds {m['nb']}/{r['nb']})")
    return "returned molecules equal the undamaged ones but their counts differ from what the damaged text's headers declare"


def is_known_cut(src, dm, recipe, ops, good, dam_out):
    """signature of KNOWN['C10-last-numeric-token-cut']"""
    if len(recipe) != 1 or recipe[0][0] != "cutbyte" or dam_out["out"] != "ret":
        return False
    new, old = ops[-1]["line"], dm.L[dm.nlast - 1]
    if new["k"] != old["k"] or new["k"] not in ("atom", "bond") or not new.get("ok") or new == old or new["nt"] != old["nt"]:
        return False
    if dm.fmt == "mol2" and old["k"] == "atom" and new.get("hq") != old.get("hq"):
        return False
    frag = dm.text[dm.last_start:recipe[0][1]]
    if not dm.lines[dm.nlast - 1].startswith(frag) or frag.split()[:-1] != dm.lines[dm.nlast - 1].split()[:len(frag.split()) - 1]:
        return False
    ms, rf = dam_out["mols"], good["mols"]
    return len(ms) == len(rf) and all(m["dig"] == r["dig"] for m, r in zip(ms[:-1], rf[:-1])) \
        and (ms[-1]["na"], ms[-1]["nc"], ms[-1]["nb"]) == (rf[-1]["na"], rf[-1]["nc"], rf[-1]["nb"])


def is_known_optcut(src, dm, recipe, ops, good, dam_out):
    """signature of KNOWN['C10-optional-block-cut']"""
    # (the cut may also fall inside the last kept record, behind the columns the consuming class reads: "cutmid")
    if dm.fmt != "mol2" or len(recipe) != 1 or recipe[0][0] not in ("cut", "cutmid") or dam_out["out"] != "ret":
        return False
    n, L = recipe[0][1], dm.L
    if not (0 < n < len(L)) or L[n]["k"] != "tag" or L[n]["t"] not in ("UNITY_ATOM_ATTR", "UNITY_BOND_ATTR"):
        return False
    lost = []
    for l in L[n:]:
        if l["k"] == "tag" and l["t"] == "MOLECULE":
            break
        lost.append(l)
    if any(l["k"] == "tag" and l["t"] == "ATOM" for l in lost) or any(l["k"] in ("atom", "bond") for l in lost):
        return False                                 # declared records are lost too: a reader must notice
    ms, rf = dam_out["mols"], good["mols"]
    return 0 < len(ms) <= len(rf) and all(m["dig"] == r["dig"] for m, r in zip(ms[:-1], rf[:-1])) \
        and (ms[-1]["na"], ms[-1]["nc"], ms[-1]["nb"]) == (rf[len(ms) - 1]["na"], rf[len(ms) - 1]["nc"], rf[len(ms) - 1]["nb"]) \
        and ms[-1]["nb"] == 0


def damage_class(dm, recipe, ops):
    r = recipe[0]
    if len(recipe) > 1:
        return "combo"
    if r[0] == "cut":
        k = dm.L[r[1] - 1]["k"] if r[1] >= 1 else "start"
        nxt = dm.L[r[1]]["k"] if r[1] < len(dm.L) else "eof"
        return f"cut after {k}" + (f"({dm.L[r[1] - 1].get('t')})" if k == "tag" else "") + f" before {nxt}"
    if r[0] == "cutbyte":
        return f"cutbyte in {dm.L[dm.nlast - 1]['k']} -> {ops[-1]['line']['k']}"
    if r[0] in ("droptok", "trunc", "cutmid", "bset", "bins"):
        i, new = ops[-1]["i"], ops[-1]["line"]
        k = dm.L[i - 1]["k"]
        res = new["k"] + ("(no charge column)" if new["k"] == "atom" and k == "atom" and dm.L[i - 1].get("hq") and not new.get("hq") else "")
        kind = {"bset": "byte overwritten in", "bins": "byte inserted in", "droptok": "token lost in", "trunc": "line cut short in",
                "cutmid": "text cut inside"}[r[0]]
        return f"{kind} {k} -> {res}"
    k = dm.L[r[1] - 1]["k"]
    if r[0] in ("tok", "set"):
        return f"{r[0]} {k}" + (f"({dm.L[r[1] - 1].get('t')})" if k == "tag" else "") + f" -> {ops[-1]['line']['k']}"
    return f"{r[0]} {k}" + (f"({dm.L[r[1] - 1].get('t')})" if k == "tag" else "")


# --------------------------------------------------------------------------------------------------------------
def model_part(ev, tier):
    """All TLC jobs of the model side, run side by side (each JVM with 1-2 workers)."""
    big = tier == "thorough"
    nm = 3 if big else 2
    skip = "SkipNone"                      # ("SkipQ" drops the (2 atoms, 0 bonds) mol2 shape if the quick tier must shrink)
    jobs = {
        "mc": lambda: model_check(ev, "MCReaders", mc_cfg(mols=nm, styles="StylesQ", skip=skip, classes="ClsBoth" if big else "ClsMol"),
                                  role=f"Readers: every damage of every generated mol2/xyz file with <= {nm} molecules, <= 2 atoms, <= 1 bond, "
                                       + ("consumed as Molecule and as Structure" if big else "consumed as Molecule (Structure: second run)"),
                                  tag="c10mc", workers=2, require_actions=ACT_MAIN),
        "mcs": lambda: model_check(ev, "MCReaders", mc_cfg(fmts="FmtMol2", styles="StylesU", mols=2 if big else 1, classes="ClsBoth"),
                                   role="Readers: header styles '****'+comment, UNITY_ATOM_ATTR block, unknown SUBSTRUCTURE block",
                                   tag="c10mcs", workers=1, require_actions=ACT_STYLES),
        "emit": lambda: emit_graph(ev, "MCReaders", mc_cfg(dev="DevAsFound", mols=nm, styles="StylesQ", skip=skip),
                                   role="Readers with the deviations of the pinned tree: one line per (file, damage)", tag="c10emit"),
        "emits": lambda: emit_graph(ev, "MCReaders", mc_cfg(dev="DevAsFound", fmts="FmtMol2", styles="StylesU", mols=2 if big else 1,
                                                            classes="ClsBoth"),
                                    role="same, header styles", tag="c10emits"),
    }
    for name, fmts, mols, atoms, styles in DEVIATIONS:
        jobs["dev:" + name] = (lambda name=name, fmts=fmts, mols=mols, atoms=atoms, styles=styles:
                               expect_violation("MCReaders", mc_cfg(dev=name, fmts=fmts, mols=mols, atoms=atoms, styles=styles),
                                                INV, tag="c10dev", workers=1))
    order = ["mc", "emit"] + [k for k in jobs if k not in ("mc", "emit")]
    with ThreadPoolExecutor(WORKERS) as ex:
        futs = {k: ex.submit(jobs[k]) for k in order}
        res = {k: f.result() for k, f in futs.items()}
    ev.set(deviations_caught={k[4:]: r.violated for k, r in res.items() if k.startswith("dev:")})
    return res["emit"] + res["emits"]


CLASSES = ("Molecule", "Structure", "ConformerEnsemble")


def unit_plan(src, cls, tier, rnd):
    """the damages of one (text, consuming class): [(recipe, via)]; via = entry point"""
    dm = X.Damager(src["fmt"], src["text"])
    prim = R.PRIMARY[cls]
    n = len(dm.lines)
    out = []
    if src["kind"] == "fixed":
        return dm, [(r, prim) for r in src["recipes"]]
    if src["kind"] == "tlc":
        _, recs = recipes_for(src, tier, rnd)
        return dm, [(r, prim) for r in recs]
    if cls == "Molecule":
        _, recs = recipes_for(src, tier, rnd)
        out += [(r, prim) for r in recs]
    elif tier == "thorough" and n <= 400:
        out += [(r, prim) for r in dm.line_cuts() + dm.byte_cuts() + dm.count_changes()]
    # token level: every token of a record line lost, the line / the text cut short after each token
    rl = dm.record_lines()
    nrec = (6 if n <= 400 else 3) if tier == "quick" else (60 if n <= 400 else 12)
    if len(rl) > nrec:
        kinds = {}
        for i in rl:
            kinds.setdefault(dm.L[i - 1]["k"], []).append(i)
        pick = {v[0] for v in kinds.values()} | {v[-1] for v in kinds.values()}
        rest = [i for i in rl if i not in pick]
        pick |= set(rnd.sample(rest, max(0, min(len(rest), nrec - len(pick)))))
        rl = sorted(pick)
    out += [(r, prim) for r in dm.token_level(rl, cutmid=(cls == "Molecule" or tier == "thorough"))]
    # a token replaced by another valid value of its column (serial numbers, substructure ids, endpoints at the border)
    bb = dm.border_bonds()
    vl = sorted(set(rl) | set(bb if tier == "thorough" or len(bb) <= 4 else rnd.sample(bb, 4)))
    valid = dm.valid_other(vl, rnd)
    out += [(r, prim) for r in valid]
    if cls != "Molecule" and not (tier == "thorough" and n <= 400):
        out += [(r, prim) for r in dm.count_changes()]
    # every other entry point of the class: the undamaged text, a few text damages, byte-level damage of the FILE
    vias = [v for v in R.VIAS[cls] if v != prim]
    few = (rnd.sample(dm.line_cuts(), min(2, n)) + rnd.sample(dm.token_level(rl[:1] + rl[-1:], cutmid=False), 2)
           + rnd.sample(valid, min(3, len(valid)))) if n <= 3000 else []
    nb = (3 if tier == "quick" else 12) if n <= 3000 else 1
    byte = dm.byte_level(nb, rnd)
    for v in vias:
        out.append(([], v))
        out += [(r, v) for r in few]
        if v in R.PATH_VIAS:
            out += [(r, v) for r in byte]
    return dm, out


def run(tier, seed, replay_path):
    ev = Evidence(PROP, tier, seed)
    rep = Reporter(PROP, ev)
    if replay_path:
        return do_replay(replay_path)
    t0 = time.time()
    edges = model_part(ev, tier)
    t_model = time.time() - t0
    rnd = random.Random(seed * 104729 + 3)
    sources, skipped = [], []
    for s in fixed_sources() + bundled() + molli_written() + seeded(tier, seed) + mc_family(edges):
        if "skip" in s:
            skipped.append(s["skip"])
        else:
            sources.append(s)
    # ---- real calls ------------------------------------------------------------------------------------
    t1 = time.time()
    cases, good_cases, plan = [], [], {}
    for s in sources:
        for cls in s.get("classes", CLASSES):
            if cls == "ConformerEnsemble" and s["kind"] == "seeded":
                continue                                     # an ensemble needs the same atoms in every record
            if cls != "Molecule" and tier == "quick" and len(s["text"]) > 100000:
                continue
            uid = f"{s['sid']}|{cls}"
            u = dict(s, cls=cls, uid=uid)
            dm, recs = unit_plan(u, cls, tier, rnd)
            seen, lst = set(), []
            good_cases.append(((uid, "good"), s["fmt"], s["text"], True, cls, R.PRIMARY[cls]))
            for rec, via in recs:
                key = json.dumps([rec, via])
                if key in seen:
                    continue
                seen.add(key)
                data, ops = dm.apply(rec) if rec else (s["text"], [])
                if isinstance(data, bytes) and via not in R.PATH_VIAS:
                    continue
                lst.append((rec, data, ops, via, key))
                cases.append(((uid, key), s["fmt"], data, False, cls, via))
            plan[uid] = (u, dm, lst)
    results = R.run_cases(good_cases, workers=WORKERS, chunk=max(1, len(good_cases) // (WORKERS * 2)))
    cases.sort(key=lambda c: -len(c[2]))
    chunks, cur, size = [], [], 0
    for c in cases:
        cur.append(c); size += len(c[2]) + 2000
        if size > 3_000_000 or len(cur) >= 400:
            chunks.append(cur); cur, size = [], 0
    if cur:
        chunks.append(cur)
    results.update(R.run_cases(cases, workers=WORKERS, chunks=chunks))
    t_real = time.time() - t1
    # ---- traces ----------------------------------------------------------------------------------------
    t2 = time.time()
    goods, items, outcomes, nskipped, ndomain = {}, {}, Counter(), 0, 0
    for uid, (u, dm, lst) in list(plan.items()):
        g = results[(uid, "good")]
        if g["out"] == "skipped":
            nskipped += 1 + len(lst)
            continue
        if g["out"] != "ret" or not g["mols"]:
            ndomain += 1
            if u["cls"] == "Molecule" or u["kind"] == "bundled":
                skipped.append(f"{uid}: the real reader does not return molecules for the UNDAMAGED text "
                               f"({g.get('exc', g['out'])}); outside the domain of C10")
            continue
        goods[uid] = good_event(u, g)
        plan[uid] = (u, dm, [x for x in lst if results[(uid, x[4])]["out"] != "skipped"])
        nskipped += len(lst) - len(plan[uid][2])
        items[uid] = [((uid, key), dam_event(ops, results[(uid, key)], via)) for rec, data, ops, via, key in plan[uid][2]]
    nmol = sum(1 for uid in plan if plan[uid][0]["cls"] == "Molecule")
    if sum(1 for uid in goods if plan[uid][0]["cls"] == "Molecule") < 0.6 * nmol or \
            not any(plan[uid][0]["kind"] == "bundled" for uid in goods):
        raise tlc.MachineryError(f"only {len(goods)} of {len(plan)} undamaged texts are read by the real reader: nothing to judge "
                                 f"({skipped[:3]})")
    verdict, tres, ntr = validate_all(items, goods)
    t_trace = time.time() - t2
    for r in tres:
        ev.cov["transitions"] += r.generated
        ev.cov["states"] += r.distinct
    ev.cov["tlc_runs"].append({"role": "trace validation (ReadersTrace)", "batches": len(tres), "traces": ntr,
                               "generated": sum(r.generated for r in tres), "wall_s": round(t_trace, 1)})
    # an entry point that does not even return the undamaged molecules for the undamaged text is not judged here (C09)
    offvia = set()
    for uid in goods:
        for rec, data, ops, via, key in plan[uid][2]:
            if not rec and verdict[(uid, key)] != "ACCEPT":
                offvia.add((uid, via))
    for uid, via in sorted(offvia)[:5]:
        rep.note(f"entry point {via} of {uid} does not reproduce the undamaged molecules for the undamaged text: not judged by C10")
    # ---- second pass: which of the rejected outcomes belong to a damaged text that is itself well-formed? ----
    stuck = {}
    for uid in goods:
        u, dm, lst = plan[uid]
        for rec, data, ops, via, key in lst:
            if rec and (uid, via) not in offvia and verdict[(uid, key)] == "STUCK" and results[(uid, key)]["out"] == "ret" \
                    and isinstance(data, str):
                stuck[(uid, key)] = (u["fmt"], data, u["cls"])
    wellformed = wellformed_pass(stuck)
    # ---- verdicts --------------------------------------------------------------------------------------
    texts, nviol, nknown, per_kind, per_class, per_entry = set(), 0, 0, Counter(), Counter(), Counter()
    reported, predicted, reproduced, unpredicted = set(), 0, 0, 0
    samples, examples, kexamples, notrep, unpred = [], [], [], [], []
    fixed_seen = {f["id"]: None for f in FIXED}
    for uid in goods:
        u, dm, lst = plan[uid]
        g = results[(uid, "good")]
        for rec, data, ops, via, key in lst:
            if (uid, via) in offvia:
                continue
            o, v = results[(uid, key)], verdict[(uid, key)]
            if data != u["text"]:
                texts.add(X.sha(u["fmt"] + (data.hex() if isinstance(data, bytes) else data)))
            cls_o = "rejected" if o["out"] == "exc" else "TIMEOUT" if o["out"] == "timeout" else \
                ("returned " + ("all" if len(o["mols"]) == len(g["mols"]) else "a prefix") if v == "ACCEPT"
                 else "contract broken (violations + known findings)")
            outcomes[cls_o] += 1
            per_kind[u["kind"]] += 1
            per_entry[f"{u['cls']}.{via}"] += 1
            pred_ok = u.get("predicted", {}).get(json.dumps(rec)) if rec else None
            if pred_ok is False:
                predicted += 1
                reproduced += v == "STUCK"
                if v != "STUCK" and len(notrep) < 8:
                    notrep.append({"source": uid, "recipe": rec, "real": o.get("exc", o["out"])})
            elif pred_ok is True and v == "STUCK":
                unpredicted += 1
                if len(unpred) < 8:
                    unpred.append({"source": uid, "recipe": rec, "returned": [(m["na"], m["nb"]) for m in o["mols"]]})
            if len(samples) < 3 and v == "ACCEPT" and o["out"] == "ret" and rec and rec[0][0] in ("dup", "cut", "droptok") \
                    and u["kind"] != "tlc":
                samples.append({"source": uid, "via": via, "recipe": rec, "outcome": {"out": o["out"], "mols": o["mols"][:2]},
                                "verdict": v})
            if v == "ACCEPT":
                if u["kind"] == "fixed":
                    fixed_seen[u["known"]] = False
                continue
            dc = damage_class(dm, rec, ops)
            kid = known_id(u, dm, rec, ops, g, o, (uid, key) in wellformed)
            if u["kind"] == "fixed":
                fixed_seen[u["known"]] = kid == u["known"]
            if kid:
                nknown += 1
                per_class["KNOWN " + u["fmt"] + " " + dc] += 1
                rep.known(kid, KNOWN[kid]["what"])
                if sum(1 for x in kexamples if x["id"] == kid and x["fmt"] == u["fmt"]) < 2:
                    kexamples.append({"id": kid, "fmt": u["fmt"], "source": uid, "recipe": rec, "class": dc,
                                      "damaged_text_tail": data[-160:]})
                continue
            nviol += 1
            label = f"{u['fmt']} {u['cls']}.{via} {dc}"
            per_class[label] += 1
            if sum(1 for x in examples if x["class"] == label) < 2:
                examples.append({"source": uid, "class": label, "recipe": rec, "predicted_by_asfound_model": pred_ok is False,
                                 "returned": [(m["na"], m["nb"]) for m in o["mols"]]})
            sig = (u["fmt"], u["cls"], via in R.PATH_VIAS, dc, o["out"])
            if sig in reported or len(reported) >= 12:
                continue
            reported.add(sig)
            why = diagnose(u, g, o, ops)
            payload = {"fmt": u["fmt"], "cls": u["cls"], "via": via, "source": uid, "desc": u["desc"], "orig_text": u["text"],
                       "recipe": rec, "ops": ops, "outcome": o,
                       "undamaged": [{k: m[k] for k in ("na", "nc", "nb", "dig")} for m in g["mols"]], "class": dc, "why": why}
            payload["damaged_hex" if isinstance(data, bytes) else "damaged_text"] = data.hex() if isinstance(data, bytes) else data
            rep.violation("damaged-text", payload, what=f"{uid} via {via} [{dc}] {rec}: {why}")
    for kid, seen in fixed_seen.items():
        if seen is None:
            raise tlc.MachineryError(f"the fixed reproducer of known finding {kid} was not judged (its undamaged text is not read?)")
        if not seen:
            rep.note(f"known finding {kid} no longer reproduces")
    ev.set(known_reproducers={k: ("reproduces" if v else "no longer reproduces") for k, v in fixed_seen.items()})
    if nskipped:
        rep.note(f"{nskipped} cases were NOT run: the reader timed out on {R.MAX_TIMEOUTS}+ inputs and the run was cut short")
        if not rep.viol:
            raise tlc.MachineryError("cases were skipped although no timeout was reported")
    if nviol > len(rep.viol):
        rep.note(f"{nviol} damaged texts violate the contract in {len(per_class)} classes; one replay file per class (max 12)")
    nd = sum(len(v) for v in items.values())
    ev.count(evaluations=nd, distinct_nontrivial=len(texts), traces=ntr)
    ev.set(rule="one case = one damaged text (or damaged file) handed to one real entry point of one consuming class under a 5 s "
                "limit and judged by TLC (ReadersTrace: exception, or complete molecules with the counts the damaged text declares "
                "and the content of the undamaged molecule of the same index, as that class reads it); distinct_nontrivial = "
                "distinct damaged texts / byte sequences that differ from their undamaged text",
           sources={"total": len(goods), **Counter(plan[u][0]["kind"] + "/" + plan[u][0]["cls"] for u in goods)},
           cases_by_source=dict(per_kind), cases_by_entry_point=dict(per_entry),
           outcomes=dict(outcomes), violation_classes=dict(per_class), violation_examples=examples, known_hits=nknown,
           known_examples=kexamples, wellformed_damaged_texts_among_rejected=len(wellformed), skipped=skipped,
           texts_not_loadable_as_that_class=ndomain,
           asfound_model={"damages_predicted_to_break_the_contract": predicted, "of_those_the_real_reader_breaks": reproduced,
                          "real_violations_on_tlc_files_not_predicted": unpredicted, "predicted_but_rejected_by_the_real_reader": notrep,
                          "not_predicted_examples": unpred},
           wall={"model_s": round(t_model, 1), "real_calls_s": round(t_real, 1), "trace_validation_s": round(t_trace, 1)},
           exhaustive=False)
    ev.add_samples(samples)
    ev.assumptions += [
        "lexical reading of a text line (kind, integers, micro-Angstrom / 1e-4 e values) by the harness's own tokenizer; a byte "
        "that is not valid UTF-8 makes its token unreadable",
        "content of a returned molecule = name, per atom element/label/type/geometry/formal charge/attributes, coordinates "
        "(micro-Angstrom), charges (1e-4 e, for the classes that carry them), per bond endpoints/type/attributes, compared "
        "through a digest; the conformers of a ConformerEnsemble count as its molecules",
        "token corruption = prefixing '?!' to a token with a closed vocabulary (numbers, atom/bond types, element symbols, "
        "@<TRIPOS> tags) or renaming a tag to an unknown block; free-text fields (names, labels, comments) are not damaged "
        "except by invalid bytes",
        "files over 400 lines: sampled line truncations / deletions (all byte offsets of the last record are still covered); "
        "token-level and byte-level damage on sampled record lines (first and last of each kind always included)",
        "entry points: Molecule / Structure loads_all, loads, load_all(path), load(path), ml.load_all(path), ml.load(path), "
        "load_all(open stream); ConformerEnsemble loads, load(path), ml.load(path, otype='ensemble')",
    ]
    rep.note(f"model {t_model:.0f}s, {len(cases) + len(good_cases)} real calls {t_real:.0f}s, {ntr} traces / {nd} damaged texts validated {t_trace:.0f}s; "
             f"outcomes {dict(outcomes)}; known-finding hits {nknown}; as-found model predicted {predicted}, real reader breaks {reproduced}")
    for s in skipped[:6]:
        rep.note("skipped: " + s)
    if len(skipped) > 6:
        rep.note(f"skipped: ... and {len(skipped) - 6} more (listed in the evidence file)")
    return rep.finish()


def do_replay(path):
    doc = json.loads(open(path).read())
    if doc.get("kind") != "damaged-text":
        print(json.dumps(doc, indent=1)[:2000])
        return 1
    fmt, cls, via = doc["fmt"], doc.get("cls", "Molecule"), doc.get("via", "loads_all")
    dm = X.Damager(fmt, doc["orig_text"])
    data, ops = dm.apply(doc["recipe"])
    res = R.run_cases([("good", fmt, doc["orig_text"], True, cls, R.PRIMARY[cls]), ("dam", fmt, data, False, cls, via)], workers=1)
    g, o = res["good"], res["dam"]
    print(json.dumps({"source": doc["source"], "class": cls, "entry_point": via, "recipe": doc["recipe"], "damage": doc.get("class"),
                      "undamaged": g["out"], "outcome": {"out": o["out"], "exc": o.get("exc"), "mols": o["mols"]}}, indent=1))
    if g["out"] != "ret" or not g["mols"]:
        print("the undamaged text is no longer read: outside the domain of C10")
        return 0
    src = {"fmt": fmt, "text": doc["orig_text"], "cls": cls}
    verdict, _, _ = validate_all({"replay": [(("replay", "dam"), dam_event(ops, o, via))]}, {"replay": good_event(src, g)},
                                 tag="c10rp", par=1)
    v = verdict[("replay", "dam")]
    print(json.dumps({"verdict": v}))
    if v != "ACCEPT":
        wf = bool(wellformed_pass({"x": (fmt, data, cls)})) if o["out"] == "ret" and isinstance(data, str) else False
        kid = known_id(src, dm, doc["recipe"], ops, g, o, wf)
        print(json.dumps({"damaged_text_is_wellformed_and_read_as_the_model_reads_it": wf}))
        if kid:
            print(f"KNOWN-FINDING: property={PROP} {KNOWN[kid]['what']}")
            return 0
        print(f"  {diagnose(src, g, o, ops)}")
        print(f"VIOLATION property={PROP} replay={path}")
        return 1
    return 0
