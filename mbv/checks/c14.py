"""C14 — a conformer ensemble stays rectangular and its conformers are live views.

M: TLC checks Ensemble.tla (constructors, append/extend, collective transformations in integer arithmetic,
   one matrix / vector per conformer, writes through conformers, a copy-constructed ensemble next to its still
   living source, independent iterators whose yielded conformers are kept by the caller (also list(ens)), dump /
   store) for Rectangular, WriteThrough, SourceUntouched, CopyUntouched, StackIsRowwise, EachOnceInOrder,
   YieldedViewsStay, HeldWriteThrough, TransformsOnlyCoords, DumpableAndStorable ...; eleven named deviations
   must each be caught.
A: every (state, action) pair of bounded slices of the model (grow, iterate, kept yielded conformers across
   growth, held views x append/extend x transformation/assignment ("live"), view+transform, copy+source, io) is
   executed on real ConformerEnsemble / Conformer objects; after every call the public arrays, the arrays of
   the source ensemble of the last copy construction, every conformer ever yielded by a live iteration or
   collected by list(ens) (re-read after the iterator advanced / ended, and written through), every row
   as read through ens[i] (held and fresh views), and the returned values (yielded conformer, re-parsed
   dump text, stored-and-reloaded ensemble) must equal the model's.
B: seeded random histories (random ensembles and the bundled pentane ensemble) are executed on the real
   code and every event is validated by TLC against the same actions (EnsembleTrace.tla), with real values
   in micro-Angstrom / 1e-3 e."""
from __future__ import annotations
import json, random, time
from concurrent.futures import ThreadPoolExecutor
from ..common import Reporter, model_check, emit_graph, expect_violation
from ..evidence import Evidence
from .. import replay, trace as T, tlc
from ..adapters.ensemble import EnsembleAdapter, History, file_base

PROP = "C14"

# Known findings: defects of the pinned tree whose repair would need a redesign.  id -> {"id", "signature", "what"};
# the signature is {"act": <spec action of the rejected call>, "clause": <first differing field of the observation
# / outcome>}; only a rejection with exactly that signature is downgraded to a KNOWN-FINDING line.
# Every defect this check found on the pinned tree was small enough to repair (.work/fixes/C14-*.patch and, for the
# empty atom list, C01-empty-ensemble-readable.patch), so nothing is listed.
KNOWN: dict = {}


def known_for(sig):
    return next((k for k in KNOWN.values() if k["signature"] == sig), None)

INV = ("TypeOK", "Rectangular", "EachOnceInOrder", "YieldedViewsStay")
PROPS = ("StopOnlyAtEnd", "YieldsTheRow", "WriteThrough", "TransformsOnlyCoords", "TranslateIsUniform", "GrowKeepsOld",
         "AppendAddsTheRow", "CopyIsFaithful", "FailedOpIsNoOp", "ReadsChangeNothing", "DumpableAndStorable",
         "SingleTransformsSucceed", "StackIsRowwise", "SourceUntouched", "CopyUntouched", "HeldWriteThrough", "AssignTouchesOneArray")
ACTIONS = {
    "grow": ("NewAtoms", "NewMol", "NewList", "AppendC", "ExtendList", "ExtendEns", "ExtendOther"),
    "iter": ("StartIter", "NextIt", "Collect", "HeldWrite", "HeldWriteQ"),
    "view": ("VWriteC", "VWriteQ", "VSetAtom", "VTranslate", "SetW", "AssignC", "AssignQ", "AssignW"),
    "append": ("AppendC", "ExtendList"),
    "xform": ("Scale", "Invert", "Translate", "Rotate", "CenterAt", "RotateStack", "TranslateStack"),
    "copy": ("CopyCtor", "SrcWriteC", "SrcWriteQ", "SrcSetW", "SrcTranslate"),
    "dump": ("Dump", "Ser"),
    "io": ("CDump", "CSer", "Slice"),
}
OPS = {"OpsAll": ("grow", "iter", "view", "xform", "dump", "io", "copy"), "OpsNoCopy": ("grow", "iter", "view", "xform", "dump", "io"), "OpsMix": ("grow", "iter", "view", "xform", "dump", "copy"), "OpsLive": ("append", "view", "xform"), "OpsCopy": ("copy", "view", "xform"), "OpsCopyV": ("copy", "view"), "OpsCopyX": ("copy", "xform"), "OpsGrow": ("grow", "dump"), "OpsIter": ("iter", "dump"),
       "OpsView": ("view", "xform", "dump"), "OpsIO": ("grow", "io")}
ITERS = {"It1": ("i1",), "It2": ("i1", "i2"), "It3": ("i1", "i2", "i3")}
CUNIT = 250000          # one coordinate unit of MCEnsemble.tla in micro-Angstrom

# deviation -> (slice it is checked in, clause documented to break)
DEVIATIONS = {
    "DevCoords": ("OpsGrow", "Rectangular"),
    "DevCursor": ("OpsIter", "EachOnceInOrder"),
    "DevCopy": ("OpsView", "WriteThrough"),
    "DevAllRows": ("OpsView", "WriteThrough"),
    "DevQRO": ("OpsView", "WriteThrough"),
    "DevScaleQ": ("OpsView", "TransformsOnlyCoords"),
    "DevTrFirst": ("OpsView", "TranslateIsUniform"),
    "DevCopyW": ("OpsCopy", "CopyIsFaithful"),
    "DevShare": ("OpsCopy", "SourceUntouched"),
    "DevStack": ("OpsView", "Rectangular"),
    "DevYield": ("OpsIter", "YieldedViewsStay"),
    "DevOrphan": ("OpsIter", "YieldedViewsStay"),
}


FREE_ALL = ("qown", "qzero", "wsrc", "wone", "adopt", "refuse", "ext0ok", "ext0err")


def cfg(ops, pool="Pool2", it="It1", maxc=2, maxt=2, dev="DevNone", rots="Rots1", vecs="Vecs1", facs="Facs1", ws="Ws1",
        free=FREE_ALL):
    return dict(spec="Spec", constants={
        "Free": "{" + ", ".join(f'"{x}"' for x in free) + "}",
        "Iter": f"<- {it}", "MaxConf": maxc, "MaxT": maxt, "Ops": f"<- {ops}", "MolPool": f"<- {pool}", "VecPool": f"<- {vecs}",
        "RotPool": f"<- {rots}", "FacPool": f"<- {facs}", "WPool": f"<- {ws}", "Deviations": f"<- {dev}"},
        invariants=INV, properties=PROPS, view="View")


def acts(ops, maxt=1):
    out = ()
    for g in OPS[ops]:
        out += ACTIONS[g]
    if "grow" not in OPS[ops]:
        out += ("NewList",) + (("AppendC",) if "iter" in OPS[ops] else ())
    if maxt == 0:
        out = tuple(a for a in out if a not in ("HeldWrite", "HeldWriteQ"))
    return out


def slices(tier):
    """(name, cfg kwargs) of the graphs that are replayed on the real code"""
    if tier == "thorough":
        return [("grow", dict(ops="OpsGrow", pool="Pool3x0", maxc=3)),
                ("iter", dict(ops="OpsIter", pool="Pool2", it="It3", maxc=3, maxt=0)),
                ("iter3", dict(ops="OpsIter", pool="Pool3", it="It2", maxc=3, maxt=0)),
                ("held", dict(ops="OpsIter", pool="Pool2", it="It1", maxc=3, maxt=2)),
                ("live", dict(ops="OpsLive", pool="Pool2", maxc=2, maxt=2)),
                ("live3", dict(ops="OpsLive", pool="Pool1", maxc=3, maxt=2)),
                ("live1", dict(ops="OpsLive", pool="Pool2", maxc=3, maxt=1)),
                ("view2", dict(ops="OpsView", pool="Pool2", maxc=2, maxt=2, rots="Rots2", vecs="Vecs2", facs="Facs2", ws="Ws2")),
                ("view3", dict(ops="OpsView", pool="Pool2", maxc=3, maxt=2)),
                ("view1", dict(ops="OpsView", pool="Pool2", maxc=1, maxt=3, rots="Rots2", vecs="Vecs2", facs="Facs2", ws="Ws2")),
                ("copy", dict(ops="OpsCopy", pool="Pool2", maxc=1, maxt=2)),
                ("copyv", dict(ops="OpsCopyV", pool="Pool2", maxc=2, maxt=2)),
                ("copyx", dict(ops="OpsCopyX", pool="Pool2", maxc=2, maxt=2)),
                ("io", dict(ops="OpsIO", pool="Pool2x0", maxc=3))]
    return [("grow", dict(ops="OpsGrow", pool="Pool2x0", maxc=3)),
            ("iter", dict(ops="OpsIter", pool="Pool2", it="It2", maxc=3, maxt=0)),
            ("held", dict(ops="OpsIter", pool="Pool2", it="It1", maxc=3, maxt=1)),
            ("live", dict(ops="OpsLive", pool="Pool2", maxc=3, maxt=1)),
            ("view", dict(ops="OpsView", pool="Pool2", maxc=2, maxt=2)),
            ("copy", dict(ops="OpsCopy", pool="Pool2", maxc=1, maxt=2)),
            ("io", dict(ops="OpsIO", pool="Pool2x0", maxc=2))]


def mixed(tier):
    """models with the action groups together (invariants only, not replayed)"""
    if tier == "thorough":
        return [dict(ops="OpsNoCopy", pool="Pool2", it="It1", maxc=2, maxt=2), dict(ops="OpsMix", pool="Pool2", it="It1", maxc=2, maxt=1),
                dict(ops="OpsNoCopy", pool="Pool2", it="It2", maxc=2, maxt=1)]
    return [dict(ops="OpsNoCopy", pool="Pool2", it="It1", maxc=2, maxt=1)]      # the copy group has its own slice models


# ----------------------------------------------------------------------------------------------
def part_model(tier, ev, workers):
    """TLC on the model itself + non-vacuity of every deviation (parallel JVMs, few workers each)."""
    jobs = []
    for mx in mixed(tier):
        jobs.append(lambda mx=mx: model_check(ev, "MCEnsemble", cfg(**mx), role=f"Ensemble, action groups together {mx}", tag="c14mc",
                                              workers=workers, timeout=1500, require_actions=acts(mx["ops"])))
    for name, kw in slices(tier):
        jobs.append(lambda name=name, kw=kw: model_check(ev, "MCEnsemble", cfg(**kw), role=f"Ensemble slice {name} {kw}",
                                                         tag="c14mc", workers=1, timeout=900, require_actions=acts(kw["ops"], kw.get("maxt", 2))))
    for dev, (ops, clause) in DEVIATIONS.items():
        jobs.append(lambda dev=dev, ops=ops, clause=clause: (dev, clause, expect_violation(
            "MCEnsemble", cfg(ops, pool="Pool2", it="It2", maxc=2, dev=dev), (clause,), tag="c14dev", workers=1)))
    with ThreadPoolExecutor(6) as ex:
        res = list(ex.map(lambda j: j(), jobs))
    caught = {}
    for r in res:
        if isinstance(r, tuple):
            dev, clause, tr = r
            if tr.violated != clause:
                raise tlc.MachineryError(f"non-vacuity: deviation {dev} violated {tr.violated}, documented clause is {clause}")
            caught[dev] = clause
    ev.set(deviations_caught=caught)


def probe_free():
    """Which of the behaviours that the property leaves free does this code base show?  Four real calls.  The
    answer only selects the sub-graph of the specification that is emitted for the replay (so that its pairs are
    reachable by the code); an answer that is none of the offered ones keeps both, and the replay reports it."""
    m1 = {"na": 2, "nb": 1, "g": [[0, 0, 0], [6, 0, 0]], "q": [125, -125]}
    m2 = {"na": 2, "nb": 1, "g": [[1, 2, -3], [0, 5, 4]], "q": [-250, 375]}
    free = []
    ad = EnsembleAdapter(CUNIT)
    ad.apply({"act": "newlist", "ms": [m1], "n": 0})
    ad.apply({"act": "extens", "how": "other", "o": {"na": 2, "nb": 1, "C": [m2["g"]], "Q": [m2["q"]], "W": [250]}})
    o = ad.observe()
    q = o["Q"][1] if len(o["Q"]) > 1 else None
    w = o["W"][1] if len(o["W"]) > 1 else None
    free += {(-250, 375): ["qown"], (0, 0): ["qzero"]}.get(tuple(q) if q else None, ["qown", "qzero"])
    free += {250: ["wsrc"], 1000: ["wone"]}.get(w, ["wsrc", "wone"])
    ad = EnsembleAdapter(CUNIT)
    ad.apply({"act": "newatoms", "form": "list", "k": 0, "a": 0, "C": [], "Q": []})
    out = ad.apply({"act": "append", "m": m1})
    free += ["refuse"] if out["out"] == "error" else (["adopt"] if ad.observe()["na"] == 2 else ["adopt", "refuse"])
    ad = EnsembleAdapter(CUNIT)
    ad.apply({"act": "newlist", "ms": [m1], "n": 0})
    free += ["ext0ok"] if ad.apply({"act": "extlist", "ms": []})["out"] == "ok" else ["ext0err"]
    return tuple(free)


def part_replay(tier, seed, ev, rep, workers):
    free = probe_free()
    ev.set(free_behaviours_shown_by_the_code=list(free))
    sl = [(name, dict(kw, free=free)) for name, kw in slices(tier)]
    ex = ThreadPoolExecutor(6)
    # graphs arrive in slice order; a slice is replayed while TLC is still emitting the later ones
    graphs = ex.map(lambda s: emit_graph(ev, "MCEnsemble", cfg(**s[1]), role=f"edges of slice {s[0]}", tag="c14emit", timeout=1500), sl)
    ex.shutdown(wait=False)
    for (name, kw), edges in zip(sl, graphs):
        g = replay.Graph(edges)
        del edges
        t0 = time.time()
        stats, viol, _, _, samples = replay.cover(g, lambda: EnsembleAdapter(CUNIT, seed, ITERS[kw.get("it", "It1")]), seed=seed, max_path=60,
                                                  budget_s=120 if tier == "quick" else 900, stop_after=3)
        stats["wall_s"] = round(time.time() - t0, 1)
        ev.count(evaluations=stats["steps"], distinct_nontrivial=stats["pairs_exercised"], traces=stats["paths"])
        ev.cov.setdefault("replay", {})[name] = stats
        ev.add_samples([{"direction": "A", "slice": name, "path": s[:8]} for s in samples], 1)
        for v in viol:
            k = known_for(signature(v["action"], v["differences"]))
            if k:
                rep.known(k["id"], k["what"])
                continue
            rep.violation("replay-ensemble", {**v, "slice": name, "seed": seed, "iters": list(ITERS[kw.get("it", "It1")])},
                          what=f"slice {name}: {json.dumps(v['action'])[:160]}: " + "; ".join(v["differences"][:3]))
        if stats["unreached_pairs"] and not viol:
            rep.note(f"A/{name}: {stats['unreached_pairs']} pairs of the graph were not reached by the code")
        rep.note(f"A/{name}: {stats}")


def signature(action, differences):
    return {"act": action.get("act"), "clause": (differences or ["?"])[0].split(":")[0]}


def histories(tier, seed):
    rnd = random.Random(seed)
    n, length = (160, 25) if tier == "quick" else (2500, 40)
    nfile = 6 if tier == "quick" else 40
    hs = []
    for i in range(n):
        hs.append({"tid": f"h{i}", "seed": rnd.randrange(1 << 30), "len": length, "max_atoms": rnd.choice([1, 2, 3, 4, 5]),
                   "max_conf": rnd.choice([2, 3, 4]), "file": False})
    for i in range(nfile):
        hs.append({"tid": f"f{i}", "seed": rnd.randrange(1 << 30), "len": 12 if tier == "quick" else 30, "max_atoms": 17,
                   "max_conf": 5, "file": True})
    return hs


def record(h, base):
    hist = History(h["seed"], max_atoms=h["max_atoms"], max_conf=h["max_conf"], base=base if h["file"] else None)
    return {"tid": h["tid"], "ev": hist.run(h["len"])}


TRACE_CFG = dict(spec="TraceSpec", constants={
    "Free": "<- FreeAll", "Iter": "<- Iters3", "MaxConf": 1000, "MaxT": 1000000, "Ops": "<- OpsAll", "MolPool": "<- NoPool", "VecPool": "<- NoSet",
    "RotPool": "<- NoSet", "FacPool": "<- NoSet", "WPool": "<- NoSet", "Deviations": "<- DevNone"}, invariants=("Rectangular", "EachOnceInOrder", "YieldedViewsStay"))


def part_traces(tier, seed, ev, rep):
    base = file_base()
    hs = histories(tier, seed)
    t0 = time.time()
    traces = [record(h, base) for h in hs]
    t_run = time.time() - t0
    verdicts, results = T.validate("EnsembleTrace", traces, TRACE_CFG, chunk=90 if tier == "quick" else 150, par=4, tag="c14tr",
                                   timeout=1500)
    ev.cov["tlc_runs"].append({"role": "EnsembleTrace validation", "batches": len(results),
                               "generated": sum(r.generated for r in results), "wall_s": round(sum(r.wall_s for r in results), 1)})
    nev = sum(len(t["ev"]) for t in traces)
    kinds = {}
    for t in traces:
        for e in t["ev"]:
            kinds[e["a"]["act"]] = kinds.get(e["a"]["act"], 0) + 1
    ev.count(evaluations=nev, distinct_nontrivial=len(traces), traces=len(traces))
    ev.set(trace_events=nev, trace_event_kinds=kinds, trace_record_s=round(t_run, 1))
    bad = sorted((tid, v) for tid, v in verdicts.items() if v[0] != "ACCEPT")
    tmap = {t["tid"]: t for t in traces}
    hmap = {h["tid"]: h for h in hs}
    seen = set()
    for tid, (_, l) in bad:
        t = tmap[tid]
        e = t["ev"][l - 1] if l and l <= len(t["ev"]) else None
        sig = (e["a"]["act"], e["a"]["out"]) if e else ("?", "?")
        if sig in seen:
            continue
        seen.add(sig)
        k = known_for({"act": sig[0], "clause": "trace:" + sig[1]})
        if k:
            rep.known(k["id"], k["what"])
            continue
        rep.violation("trace-ensemble", {"history": hmap[tid], "stuck_at": l, "event": e, "trace": t["ev"][:l]},
                      what=f"{tid}: no step of Ensemble.tla explains event {l}: {json.dumps(e)[:300] if e else ''}")
        if len(seen) >= 6:
            break
    ok = next((t for t in traces if verdicts[t["tid"]][0] == "ACCEPT"), None)
    if ok:
        ev.add_samples([{"direction": "B", "tid": ok["tid"], "calls": [f'{e["a"]["act"]}:{e["a"]["out"]}' for e in ok["ev"]][:25]}], 1)
    ev.set(rejected_traces=len(bad))
    rep.note(f"B: {len(traces)} histories, {nev} events, {len(bad)} rejected; event kinds {kinds}")


def run(tier, seed, replay_path):
    ev = Evidence(PROP, tier, seed)
    rep = Reporter(PROP, ev)
    if replay_path:
        return do_replay(replay_path)
    workers = 4
    # the three parts are independent: TLC on the model and the trace validation (JVMs) run while this thread replays
    with ThreadPoolExecutor(2) as ex:
        walls = {}

        def timed(name, fn, *a):
            t0 = time.time()
            try:
                return fn(*a)
            finally:
                walls[name] = round(time.time() - t0, 1)
        fm = ex.submit(timed, "model", part_model, tier, ev, workers)
        ft = ex.submit(timed, "traces", part_traces, tier, seed, ev, rep)
        try:
            timed("replay", part_replay, tier, seed, ev, rep, workers)
        finally:
            errs = [f.exception() for f in (fm, ft)]
        for e in errs:
            if e is not None:
                raise e
        ev.set(part_wall_s=walls)
        rep.note(f"wall per part (run concurrently): {walls}")
    ev.set(rule="A: one case = one (model state, action) pair of a bounded slice graph executed on real objects, evaluations = real "
                "calls, non-trivial = distinct pairs; B: one case = one recorded history (non-trivial), evaluations = its events, "
                "each validated by TLC as a step of Ensemble.tla with the observed post-state",
           exhaustive=False, constants={"slices": slices(tier), "mixed": mixed(tier), "coordinate_unit_uA": CUNIT})
    ev.assumptions += [
        "bounded model: <= 2-3 conformers, 1-2 atoms, <= 2-3 row mutations, 2-3 iterators in the replayed graphs; longer histories "
        "and larger ensembles only sampled (direction B)",
        "left free: charge row of an appended geometry (own or zero), weights of rows taken from another ensemble (its or 1), "
        "extend([]) may raise, an ensemble without atoms may refuse or adopt its first conformer, exception classes",
        "a RUNNING iterator is abandoned when the number of conformers changes (its behaviour there is left free); every conformer "
        "object already obtained - from ens[i], a slice, next() or list(ens) - is kept for the life of the ensemble, across "
        "append/extend, transformations and whole-array assignments, re-read after every step and used for 7 of 10 writes",
        "only the source of the LAST copy construction is kept and observed; a stack of exactly one matrix / vector applied to "
        "several conformers (numpy broadcasting of a single transformation) is not generated",
        "rotations are signed permutation matrices, scale factors integers (exact integer arithmetic in the specification); "
        "values are multiples of 1/64 A so that float32 storage is exact; pickling / copying is C06, the v1 codec is C01",
        "trusted: TLC, numpy, the harness's re-parsing of xyz / mol2 text, msgpack"]
    return rep.finish()


# ----------------------------------------------------------------------------------------------
def do_replay(path):
    doc = json.loads(open(path).read())
    if doc["kind"] == "replay-ensemble":
        ad = EnsembleAdapter(CUNIT, doc.get("seed", 0), tuple(doc.get("iters", ("i1",))))
        try:
            res = replay.run_path(ad, doc["path"])
        finally:
            ad.cleanup()
        last = res[-1]
        print(json.dumps({"last_action": last["act"], "outcome": last["outcome"], "observed": last["obs"]}, default=str)[:3000])
        for a in doc.get("allowed") or []:
            ok_out = all(last["outcome"].get(k) == a["act"].get(k) for k in ("out", "val") if k in a["act"] or k in last["outcome"])
            if ok_out and not replay.diff(a["obs"], last["obs"]):
                print("replay: behaviour now matches the specification")
                return 0
        print(f"VIOLATION property={PROP} replay={path}")
        return 1
    if doc["kind"] == "trace-ensemble":
        h = doc["history"]
        ad = EnsembleAdapter(1, h["seed"], ITERS["It3"])                 # the recorded calls are made again, in the recorded order
        evs = []
        for e in doc["trace"]:
            act = {k: v for k, v in e["a"].items() if k not in ("out", "val")}
            evs.append({"a": {**act, **ad.apply(act)}, "post": ad.observe()})
        t = {"tid": h["tid"], "ev": evs}
        verdicts, _ = T.validate("EnsembleTrace", [t], TRACE_CFG, tag="c14rp")
        print(json.dumps({"verdict": verdicts[t["tid"]], "events": len(t["ev"])}))
        if verdicts[t["tid"]][0] != "ACCEPT":
            l = verdicts[t["tid"]][1]
            print(json.dumps(t["ev"][l - 1])[:1500])
            print(f"VIOLATION property={PROP} replay={path}")
            return 1
        print("replay: the history is now a behaviour of the specification")
        return 0
    print(json.dumps(doc, indent=1)[:2000])
    return 2
