"""C02 — a library file is an insert-only key-value map over any operation history.

M: TLC checks UKVFile (raw layer) and Backend (collection layer) against their invariants and the
   refinement of KVMap.  A: every (state, action) pair of the bounded graphs is replayed on real
   UKVFile / Collection objects.  B: random long histories are trace-validated."""
from __future__ import annotations
import json, random
from ..common import Reporter, model_check, emit_graph, expect_violation
from ..evidence import Evidence
from .. import replay, findings
from ..adapters.ukv import UKVAdapter

PROP = "C02"

RAW_INV = ("TypeOK", "NoDuplicateRecord", "TocSound", "TocComplete", "KeyLenOK", "HandleHdrOK", "OneWriter")
RAW_PROPS = ("FailedOpIsNoOp", "GetReturnsThePut", "HeadersPreserved", "RecordsImmutable", "Refines")
RAW_ACTIONS = ("NewX", "New", "Reopen", "Close", "Pickle", "Put", "Get")


def raw_cfg(tier, dev="DevNone", keys=None, vals=None, handles=None):
    keys = keys or "KeysQ"
    vals = vals or "ValsQ"
    handles = handles or "H2"
    return dict(spec="Spec", constants={
        "Key": f"<- {keys}", "Val": f"<- {vals}", "KeyLen": "<- KLen", "ValLen": "<- VLen", "Handle": f"<- {handles}",
        "Hdr": "<- HdrQ", "NoHdr": '"none"', "HdrLen": "<- HL", "MaxRecs": 3, "WithTruncate": "FALSE", "MaxGen": 0, "Deviations": f"<- {dev}"},
        invariants=RAW_INV, properties=RAW_PROPS, view="View")


def norm_obs(o):
    if isinstance(o, dict):
        o = dict(o)
        if isinstance(o.get("recs"), list):
            o["recs"] = sorted(o["recs"])
        for h in (o.get("h") or {}).values():
            if isinstance(h, dict) and isinstance(h.get("keys"), list):
                h["keys"] = sorted(h["keys"])
    return o


def raw_layer(tier, seed, ev, rep):
    for dev, inv in (("DevPhantom", "TocSound"), ("DevStale", "TocComplete")):
        expect_violation("MCUKVFile", raw_cfg("quick", dev), (inv,), tag="c02dev")
    # (keys, values, handles, replay?, wall-clock budget for the replay)
    variants = [("KeysQ", "ValsQ", "H2", True, None)] if tier == "quick" else [
        ("KeysQ", "ValsQ", "H3", True, 120), ("KeysB", "ValsT", "H2", True, 150), ("KeysT", "ValsT", "H2", False, None)]
    for keys, vals, hs, do_replay_, budget in variants:
        cfg = raw_cfg(tier, keys=keys, vals=vals, handles=hs)
        model_check(ev, "MCUKVFile", cfg, role=f"UKVFile invariants + refinement of KVMap ({keys},{vals},{hs})", tag="c02raw",
                    require_actions=RAW_ACTIONS, timeout=1800)
        if not do_replay_:
            continue
        edges = emit_graph(ev, "MCUKVFile", cfg, role=f"UKVFile edges for replay ({keys},{vals},{hs})", tag="c02emit", timeout=1800)
        for e in edges:
            e["obs"] = norm_obs(e["obs"])
        g = replay.Graph(edges)
        del edges
        handles = ("h1", "h2", "h3") if hs == "H3" else ("h1", "h2")
        stats, viol, khits, kgone, samples = replay.cover(g, lambda: UKVAdapter(handles), seed=seed, budget_s=budget)
        ev.count(evaluations=stats["steps"], distinct_nontrivial=stats["pairs_exercised"], traces=stats["paths"])
        ev.cov.setdefault("raw_replay", {})[f"{keys},{vals},{hs}"] = stats
        ev.add_samples([{"layer": "UKVFile", "path": s} for s in samples], 2)
        for v in viol:
            rep.violation("replay-ukvfile", v, what="; ".join(v["differences"][:3]))
        rep.note(f"raw layer {keys},{vals},{hs}: {stats}")


BK_INV = ("NoDuplicateRecord", "KeyLenOK", "ListedIsReadable", "ListedIsPut", "SessionSeesAll", "ClosedWhenIdle")
BK_PROPS = ("FailedOpIsNoOp", "FirstValueStays", "HeadersPreserved", "RecordsImmutable", "InsertOnly")
BK_ACTIONS = ("Make", "Begin", "CPut", "CGet", "EndAs", "CFlush")
BUFS = {"BufM1": -1, "Buf0": 0, "BufS": 6, "BufL": 100000}


def bk_cfg(tier, buf, ro, dev="DevNone", colls="C2", keys="KeysQ", vals="ValsQ"):
    return dict(spec="Spec", constants={
        "Key": f"<- {keys}", "Val": f"<- {vals}",
        "KeyLen": "<- KLen", "ValLen": "<- VLen", "Coll": f"<- {colls}", "RO": f"<- {ro}", "Buf": f"<- {buf}",
        "Hdr": "<- HdrQ", "NoHdr": '"none"', "MaxRecs": 3, "Deviations": f"<- {dev}"},
        invariants=BK_INV, properties=BK_PROPS, view="View")


def norm_cobs(o):
    if isinstance(o, dict):
        o = dict(o)
        if isinstance(o.get("recs"), list):
            o["recs"] = sorted(o["recs"])
        for c in (o.get("c") or {}).values():
            if isinstance(c, dict) and isinstance(c.get("keys"), list):
                c["keys"] = sorted(c["keys"])
    return o


def backend_layer(tier, seed, ev, rep):
    from ..adapters.backend import BackendAdapter
    for dev in ("DevPhantom", "DevQueue", "DevLate"):
        expect_violation("MCBackend", bk_cfg("quick", "BufS", "ROrw", dev), BK_INV, tag="c02dev")
    # (buffer sizes, read-only map, collections, keys, values, wall-clock budget for the replay)
    if tier == "quick":
        configs = [("BufM1", "ROmix", "C2", "KeysQ", "ValsQ", None), ("Buf0", "ROrw", "C2", "KeysU", "ValsQ", None),
                   ("BufS", "ROrw", "C2", "KeysQ", "ValsQ", None), ("BufL", "ROmix", "C2", "KeysU", "ValsQ", None)]
    else:
        configs = [("BufM1", "ROmix", "C2", "KeysT", "ValsT", 75), ("Buf0", "ROrw", "C2", "KeysT", "ValsT", 75),
                   ("BufS", "ROmix", "C2", "KeysT", "ValsT", 75), ("BufL", "ROmix", "C2", "KeysT", "ValsT", 75),
                   ("BufMix", "ROmix", "C3", "KeysQ", "ValsQ", 60)]
    for buf, ro, cn, keys, vals, budget in configs:
        cl = ("c1", "c2", "c3") if cn == "C3" else ("c1", "c2")
        cfg = bk_cfg(tier, buf, ro, colls=cn, keys=keys, vals=vals)
        model_check(ev, "MCBackend", cfg, role=f"Backend invariants ({buf},{ro})", tag="c02bk",
                    require_actions=BK_ACTIONS, timeout=1800)
        edges = emit_graph(ev, "MCBackend", cfg, role=f"Backend edges ({buf},{ro})", tag="c02bkemit", timeout=1800)
        for e in edges:
            e["obs"] = norm_cobs(e["obs"])
        g = replay.Graph(edges)
        bufmap = {"c1": 6, "c2": -1, "c3": 100000} if buf == "BufMix" else {c: BUFS[buf] for c in cl}
        romap = {c: (ro == "ROmix" and c == "c2") for c in cl}
        stats, viol, khits, kgone, samples = replay.cover(
            g, lambda: BackendAdapter(cl, ro=romap, buf=bufmap), seed=seed, budget_s=budget)
        ev.count(evaluations=stats["steps"], distinct_nontrivial=stats["pairs_exercised"], traces=stats["paths"])
        ev.cov.setdefault("backend_replay", {})[f"{buf},{ro}"] = stats
        ev.add_samples([{"layer": f"Collection {buf} {ro}", "path": s} for s in samples], 1)
        for v in viol:
            v["config"] = {"buf": bufmap, "ro": romap, "colls": list(cl)}
            rep.violation("replay-backend", v, what="; ".join(v["differences"][:3]))
        rep.note(f"backend layer {buf},{ro}: {stats}")


TRACE_CFG = dict(spec="TraceSpec", constants={
    "Key": "<- TraceKeys", "Val": "<- TraceVals", "KeyLen": "<- TraceKLen", "ValLen": "<- TraceVLen",
    "Handle": "<- TraceHandles", "Hdr": "<- HdrT", "NoHdr": '"none"', "HdrLen": "<- HLT", "MaxRecs": 100000,
    "WithTruncate": "FALSE", "MaxGen": 0,
    "Deviations": "<- DevNone"}, invariants=("NoDuplicateRecord", "TocSound", "TocComplete", "KeyLenOK", "OneWriter"))


BK_TRACE_CFG = dict(spec="TraceSpec", constants={
    "Key": "<- TraceKeys", "Val": "<- TraceVals", "KeyLen": "<- TraceKLen", "ValLen": "<- TraceVLen", "Coll": "<- TraceColl",
    "RO": "<- TraceRO", "Buf": "<- TraceBuf", "Hdr": "<- HdrT", "NoHdr": '"none"', "MaxRecs": 100000, "Deviations": "<- DevNone"},
    invariants=("NoDuplicateRecord", "KeyLenOK", "ListedIsReadable", "ListedIsPut", "SessionSeesAll", "ClosedWhenIdle"))


def direction_b_backend(tier, seed, ev, rep):
    """Seeded random histories on real Collection objects, validated by TLC against Backend.tla."""
    from ..drivers_backend import history
    from .. import trace as T
    n, length = (6, 150) if tier == "quick" else (60, 400)
    traces = [history(seed * 1000 + 500 + i, length) for i in range(n)]
    verdicts, results = T.validate("BackendTrace", traces, BK_TRACE_CFG, chunk=1, par=6, tag="c02btr")
    ev.add_tlc(results[0], "BackendTrace validation (first batch)")
    bad = 0
    for t in traces:
        v, l = verdicts[t["tid"]]
        if v != "ACCEPT":
            bad += 1
            e = t["ev"][l - 1]
            rep.violation("backend-trace", {"seed": int(t["tid"].split("-")[1]), "length": length, "stuck_at": l, "event": e,
                                            "config": {"ro": t["ro"], "buf": t["buf"]}, "context": t["ev"][max(0, l - 6):l + 1]},
                          what=f"{t['tid']}: event {l} is not a step of Backend: {json.dumps(e)[:300]}")
    nev = sum(len(t["ev"]) for t in traces)
    ev.count(evaluations=nev, distinct_nontrivial=nev, traces=len(traces))
    ev.add_samples([{"direction": "B/collection", "events": traces[0]["ev"][10:14]}], 1)
    ev.set(random_collection_histories={"traces": len(traces), "events": nev, "rejected": bad})
    rep.note(f"direction B (collections): {len(traces)} random histories, {nev} events, {bad} rejected")


def direction_b(tier, seed, ev, rep):
    """Seeded random long histories on real UKVFile objects, validated by TLC against UKVFile.tla."""
    from ..drivers_ukv import history
    from .. import trace as T
    n, length = (6, 150) if tier == "quick" else (60, 300)
    traces = [history(seed * 1000 + i, length) for i in range(n)]
    # one universe per TLC batch: every trace is validated in its own chunk
    verdicts, results = T.validate("UKVFileTrace", traces, TRACE_CFG, chunk=1, par=6, tag="c02tr")
    for r in results[:1]:
        ev.add_tlc(r, "UKVFileTrace validation (first batch)")
    bad = 0
    for t in traces:
        v, l = verdicts[t["tid"]]
        if v != "ACCEPT":
            bad += 1
            e = t["ev"][l - 1]
            rep.violation("ukv-trace", {"seed": int(t["tid"].split("-")[1]), "length": length, "stuck_at": l, "event": e,
                                        "context": t["ev"][max(0, l - 6):l + 1]},
                          what=f"{t['tid']}: event {l} is not a step of UKVFile: {json.dumps(e)[:300]}")
    nev = sum(len(t["ev"]) for t in traces)
    ev.count(evaluations=nev, distinct_nontrivial=nev, traces=len(traces))
    ev.add_samples([{"direction": "B", "events": traces[0]["ev"][20:24]}], 1)
    ev.set(random_histories={"traces": len(traces), "events": nev, "rejected": bad})
    rep.note(f"direction B: {len(traces)} random histories, {nev} events, {bad} rejected")


def run(tier, seed, replay_path):
    ev = Evidence(PROP, tier, seed)
    rep = Reporter(PROP, ev)
    if replay_path:
        return do_replay(replay_path)
    raw_layer(tier, seed, ev, rep)
    backend_layer(tier, seed, ev, rep)
    direction_b(tier, seed, ev, rep)
    direction_b_backend(tier, seed, ev, rep)
    ev.set(rule="one case = one (spec state, action) pair of the bounded TLC graph replayed on real objects; "
                "non-trivial = distinct pair; evaluations = real calls made")
    ev.assumptions += ["scope: one writable handle at a time (collection lock), mode 'w' re-creation not generated",
                       "independent struct parser of the file bytes is trusted"]
    return rep.finish()


def do_replay(path):
    doc = json.loads(open(path).read())
    kind = doc["kind"]
    if kind == "backend-trace":
        from ..drivers_backend import history
        from .. import trace as T
        t = history(doc["seed"], doc["length"])
        verdicts, _ = T.validate("BackendTrace", [t], BK_TRACE_CFG, chunk=1, tag="c02rp")
        print(json.dumps(verdicts))
        if verdicts[t["tid"]][0] != "ACCEPT":
            print(f"VIOLATION property={PROP} replay={path}")
            return 1
        return 0
    if kind == "ukv-trace":
        from ..drivers_ukv import history
        from .. import trace as T
        t = history(doc["seed"], doc["length"])
        verdicts, _ = T.validate("UKVFileTrace", [t], TRACE_CFG, chunk=1, tag="c02rp")
        print(json.dumps(verdicts))
        if verdicts[t["tid"]][0] != "ACCEPT":
            print(f"VIOLATION property={PROP} replay={path}")
            return 1
        return 0
    if kind == "replay-ukvfile":
        ad = UKVAdapter(("h1", "h2", "h3"))
    else:
        from ..adapters.backend import BackendAdapter
        c = doc["config"]
        ad = BackendAdapter(tuple(c["colls"]), ro=c["ro"], buf=c["buf"])
    try:
        res = replay.run_path(ad, doc["path"])
    finally:
        ad.cleanup()
    last = res[-1]
    print(json.dumps({"last_action": last["act"], "outcome": last["outcome"], "observed": last["obs"],
                      "allowed_by_spec": doc.get("allowed")}, indent=1, default=str))
    exp = doc.get("allowed") or []
    for a in exp:
        ok_out = all(last["outcome"].get(k) == a["act"][k] for k in ("out", "val") if k in a["act"])
        if ok_out and not replay.diff(a["obs"], last["obs"]):
            print("replay: behaviour now matches the specification")
            return 0
    print(f"VIOLATION property={PROP} replay={path}")
    return 1
