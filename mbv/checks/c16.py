"""C16 — add_implicit_hydrogens adds hydrogens and nothing else, in the right number, properly placed.

M: TLC checks HAdd over the whole case table of local environments (centre x charge x spin x multiset of
   0..3 bond types x hint): OnlyHydrogensAdded, CountRule, BondedOnceToCentre, PlacedRight, Idempotent,
   ValenceComplete; twelve named deviations must each violate their clause.
A: the edges TLC emits for that table (Build -> AddH -> AddH) are replayed on real Molecules, one real local
   environment per row; outcome, structure and placement classes must equal the edge's.
H: molecules with a HISTORY.  TLC enumerates Build -> Query* -> Rewire (del_bond + connect: same number of bonds)
   -> Query* -> AddH -> AddH on a small table, with the hidden "an accessor was used" flag in the state; every
   (state, action) pair is replayed on real Molecules.  Seeded random histories (accessor calls, 1-3 public edits
   favouring those that keep the bond count: re-wire, endpoint re-pointed in place, del+append, leaf atom replaced,
   remove_substituent; then two calls; then a hydrogen replaced by a carbon and two more calls) are trace-validated:
   the accessor answers and the hydrogens must follow the CURRENT graph (re-read through m.atoms / m.bonds).
B: the same executions + seeded random 3-D molecules (Molecule and Structure) + every bundled CDXML fragment
   are recorded as traces (molecule before, molecule after, measured placement of each new atom) and
   validated by TLC against HAdd (HAddTrace)."""
from __future__ import annotations
import json, random, time, warnings
import numpy as np
from concurrent.futures import ThreadPoolExecutor
from ..common import Reporter, model_check, expect_violation
from ..evidence import Evidence
from .. import replay, tlc
from .. import trace as T
from ..adapters import hadd as H
from .. import c16_gen as G

PROP = "C16"
WORKERS = 4

# Defects of the pinned tree that would need a redesign and are therefore reported as KNOWN-FINDING
# (signature-specific) instead of VIOLATION.  None: the three defects found have small repairs
# (.work/fixes/C16-*.patch).  Entry format: {"id": ..., "signature": {...subset of signature()...}, "what": ...}
KNOWN = {}

INV = ("TypeOK", "ValenceComplete")
PROPS = ("OnlyHydrogensAdded", "CountRule", "BondedOnceToCentre", "PlacedRight", "Idempotent")
DEVIATIONS = (("DevChargeSign", "CountRule"), ("DevSpinIgnored", "CountRule"), ("DevFloorValence", "CountRule"),
              ("DevOffByOne", "CountRule"), ("DevHintIgnored", "CountRule"), ("DevNoFourH", "CountRule"),
              ("DevToward", "PlacedRight"), ("DevNaN", "PlacedRight"), ("DevLength", "PlacedRight"),
              ("DevOrderZero", "Idempotent"), ("DevTwice", "BondedOnceToCentre"), ("DevShift", "OnlyHydrogensAdded"))
DROP = ("out", "n", "hs", "cls", "nb", "bv2")
SHARE_KINDS = ("Promolecule", "Connectivity", "Structure")


def mc_cfg(envs, dev="DevNone", only=None, edit=False):
    inv, props = INV, PROPS + (("QueryRight",) if edit else ())
    if only:
        inv = tuple(x for x in INV if x == only)
        props = tuple(x for x in PROPS if x == only)
    return dict(spec="Spec", constants={"Envs": f"<- {envs}", "Deviations": f"<- {dev}", **H.CONSTANTS,
                                        "AllowEdit": "TRUE" if edit else "FALSE"},
                invariants=inv, properties=props, view="View")


TRACE_CFG = dict(spec="TraceSpec", constants={"Envs": "<- Envs0", "Deviations": "<- DevNone", **H.CONSTANTS,
                                              "AllowEdit": "FALSE"},
                 invariants=("TypeOK",))


# ------------------------------------------------------------------------------------------------

def signature(tr, l):
    """Structural facts about the event no step of HAdd explains (for KNOWN matching and reports)."""
    e = tr["ev"][l - 1] if l and l <= len(tr["ev"]) else {}
    call = sum(1 for x in tr["ev"][:l] if x["ev"] == "addh")
    sig = {"event": e.get("ev"), "call": call, "out": e.get("out")}
    if e.get("ev") == "addh":
        pre = next(x for x in reversed(tr["ev"][:l - 1]) if "bonds" in x)
        sig["atoms_added"] = len(e["atoms"]) - len(pre["atoms"])
        sig["nonfinite_new"] = any(not h["fin"] for h in e["newh"])
        nn = lambda c: sum(1 for b in pre["bonds"] if c in (b["a"], b["b"]))
        sig["nonfinite_at_isolated"] = any(not h["fin"] and h["c"] and nn(h["c"]) == 0 for h in e["newh"])
    return sig


def known_id(sig):
    for k in KNOWN.values():
        if all(sig.get(a) == b for a, b in k["signature"].items()):
            return k
    return None


def describe(tr, l, want=None):
    """Human-readable account of a rejected call: what appeared (measured) and, from TLC, where HAdd wants hydrogens."""
    e = tr["ev"][l - 1] if l and l <= len(tr["ev"]) else {}
    if e.get("ev") == "share":
        return f"handing atoms {e['sub']} to a {e['kind']} raised {e['out']}"
    if e.get("ev") == "query":
        return (f"accessors of atom {e['i']} answered neighbours={sorted(e['nb'])} n_bonds={e['n']} valence={e['bv2'] / 2} "
                f"(out={e['out']}): not what the current bonds say")
    if e.get("ev") != "addh":
        return f"event {l} ({e.get('ev')}) is not a step of HAdd"
    pre = next(x for x in reversed(tr["ev"][:l - 1]) if "bonds" in x)
    per, wanted = {}, {}
    for h in e["newh"]:
        per.setdefault(h["c"], []).append(h)
    for c in want or []:
        wanted[c] = wanted.get(c, 0) + 1
    bits = [f"out={e['out']}, {len(e['atoms']) - len(pre['atoms'])} atoms appeared"]
    nonh = [h["atom"]["el"] for h in e["newh"] if h["atom"]["el"] != "H"]
    if nonh:
        bits.append(f"non-hydrogen atoms among them: {nonh[:6]}")
    if not e.get("aligned", True):
        bits.append("coordinate rows and atoms no longer aligned")
    for c in sorted(set(per) | set(wanted))[:5]:
        el = pre["atoms"][c - 1]["el"] if 0 < c <= len(pre["atoms"]) else "?"
        nn = sum(1 for b in pre["bonds"] if c in (b["a"], b["b"]))
        bits.append(f"atom {c} ({el}, {nn} neighbours, off={pre['off'][c - 1] if 'off' in pre and c else '-'}mA)"
                    + (f" HAdd wants {wanted.get(c, 0)}" if want is not None else "") + f" got {len(per.get(c, []))}: "
                    + ",".join(f"[d={h['d']}uA fin={h['fin']} cos={h['cos']}]" for h in per.get(c, [])[:4]))
    return f"call {sum(1 for x in tr['ev'][:l] if x['ev'] == 'addh')} is not a step of HAdd: " + "; ".join(bits)


def table_replay(tier, seed, ev, rep, edges):
    """A: one real local environment per row of the TLC-generated table."""
    g = replay.Graph(edges, key_fields_drop=DROP)
    rows = sorted(g.out[g.init])
    traces, viol, steps, matched, seen_counts = [], [], 0, 0, {}
    second_calls = hinted_rows = 0
    samples = []
    for ri, akey in enumerate(rows):
        ad = H.HAddAdapter()
        cands, path = {g.init}, []
        try:
            a = akey
            while a is not None and len(path) < 3:
                act0 = next(g.out[n][a][0]["act"] for n in sorted(cands) if a in g.out[n])
                try:
                    oks = replay.step(ad, g, cands, a)
                except replay.Mismatch as m:
                    viol.append({"path": path + [act0], **m.info})
                    break
                steps += 1
                matched += 1
                path.append(oks[0][1]["act"])
                cands = {e["to"] for _, e in oks}
                nxt = sorted({k for n in cands for k in g.out[n]})
                a = nxt[0] if nxt else None
        finally:
            traces.append({"tid": f"row{ri}", "ev": ad.events, "src": {"src": "row", "env": json.loads(akey)["env"]}})
            ad.cleanup()
        second_calls += len(path) >= 3
        hinted_rows += bool(path) and path[0]["env"]["hint"] >= 0
        if len(path) >= 2:
            env = path[0]["env"]
            key = (env["c"], env["fc"], abs(env["sp"]), env["hint"], tuple(sorted(x["bt"] for x in env["nb"])))
            seen_counts[key] = path[1]["n"]
        if len(samples) < 2 and ri % 977 == 5:
            samples.append({"row": path[0]["env"] if path else None, "added": [p.get("n") for p in path[1:]]})
    if not rows or second_calls == 0 or hinted_rows == 0:
        raise tlc.MachineryError(f"vacuity guard: table replay exercised {len(rows)} rows, {second_calls} second calls, "
                                 f"{hinted_rows} hinted rows")
    stats = {"rows": len(rows), "edges": g.nedges, "steps": steps, "second_calls": second_calls, "hinted_rows": hinted_rows, "distinct_cases_with_hydrogens": sum(1 for v in seen_counts.values() if v),
             "distinct_count_cases": len(seen_counts), "mismatching_rows": len(viol)}
    return traces, viol, stats, samples


def classify_violations(viol):
    """Group replay mismatches by what differs (count / placement class / structure) and the row's shape."""
    groups = {}
    for v in viol:
        env = v["path"][0]["env"]
        d0 = v["differences"][0] if v["differences"] else "?"
        kind = "count" if ("outcome.n" in d0 or "/atoms:" in d0 or "/bonds:" in d0 or "/newh:" in d0) else (
            "finite" if "/fin" in d0 else ("placement" if "/newh" in d0 else "structure"))
        key = (kind, len(env["nb"]), len(v["path"]))
        groups.setdefault(key, []).append(v)
    return groups


def sane(pre):
    """Input sanity (the property quantifies over non-degenerate geometry, 0..3 neighbours): every atom with
    neighbours has a clear centroid direction, three neighbours are pyramidal unless two of them are ring bonds."""
    if pre["n_coords"] != len(pre["atoms"]) or any(b["a"] < 1 or b["b"] < 1 or b["a"] == b["b"] for b in pre["bonds"]):
        return False
    if not all(a["_fin"] for a in pre["atoms"]):
        return False
    for j, o in enumerate(H.offsets(pre), start=1):
        nb = H.neighbours(pre["bonds"], j)
        arom = sum(1 for b in pre["bonds"] if j in (b["a"], b["b"]) and b["bt"] == "Aromatic")
        if len(nb) > 3 or len(set(nb)) != len(nb):
            return False
        if nb and o < 250 and not (len(nb) == 3 and arom >= 2):
            return False
        if len(nb) == 2:                      # two neighbours in (nearly) the same or opposite direction: no plane
            r1, r2 = (pre["coords"][k - 1] - pre["coords"][j - 1] for k in nb)
            den = float(np.linalg.norm(r1) * np.linalg.norm(r2))
            if den < 1e-9 or abs(float(np.dot(r1, r2))) / den > 0.97:
                return False
    return True


def make_history(seed, idx, tier):
    """One seeded history on a real object: events, or None when an edit was not applicable / left an input outside
    the property's domain (degenerate geometry, > 3 neighbours) / raised (editing is C05's business)."""
    rnd = random.Random(f"c16h-{seed}-{idx}")
    with warnings.catch_warnings():
        warnings.simplefilter("ignore")
        m, _ = G.make_random(seed, 100000 + idx, tier)
        pre = H.snapshot(m)
        if not sane(pre) or len(pre["atoms"]) < 2:
            return None
        evs = [H.mol_event(pre, H.hints_of(m))]
        keepalive = []

        def maybe_share(p):
            """with probability p the molecule's atom objects (all / the heavy ones / a random subset) are also put
            into another non-copying container"""
            if rnd.random() >= p:
                return False
            n = len(m.atoms)
            mode = rnd.choice(["all", "heavy", "some"])
            sub = list(range(1, n + 1))
            if mode == "heavy":
                sub = [i for i, a in enumerate(m.atoms, start=1) if a.element.symbol != "H"] or sub
            elif mode == "some":
                sub = sorted(rnd.sample(sub, rnd.randint(1, n)))
            evs.append(H.share(m, sub, rnd.choice(SHARE_KINDS), rnd.random() < 0.5, keepalive))
            return True
        for i in rnd.sample(range(1, len(pre["atoms"]) + 1), min(len(pre["atoms"]), rnd.randint(1, 3))):
            evs.append(H.query(m, i))
        edits = []
        shared_first = maybe_share(0.25)
        try:
            for _ in range(rnd.randint(0 if shared_first else 1, 3)):
                e = G.random_edit(m, rnd)
                if e:
                    edits.append(e)
        except Exception:                                   # noqa: BLE001
            return None
        if not edits and not shared_first:
            return None

        def calls(pre):
            evs.append(dict(H.mol_event(pre, H.hints_of(m)), edits=list(edits)))
            maybe_share(0.4)
            for i in rnd.sample(range(1, len(pre["atoms"]) + 1), min(len(pre["atoms"]), rnd.randint(0, 2))):
                evs.append(H.query(m, i))
            e1, post = H.call(m, pre)
            evs.append(e1)
            if e1["out"] == "ok":
                e2, post = H.call(m, post)
                evs.append(e2)
            return e1["out"] == "ok"
        pre = H.snapshot(m)
        if not sane(pre):
            return None
        n_before = len(pre["atoms"])
        if calls(pre) and rnd.random() < 0.6:
            try:
                e = G.replace_hydrogen(m, rnd, n_before)
            except Exception:                               # noqa: BLE001
                e = None
            if e:
                edits[:] = [e]
                pre = H.snapshot(m)
                if sane(pre):
                    calls(pre)
    return evs


def history_traces(tier, seed, n):
    out, skipped = [], 0
    for i in range(n):
        evs = make_history(seed, i, tier)
        if evs is None:
            skipped += 1
            continue
        out.append({"tid": f"hist{i}", "ev": evs, "src": {"src": "hist", "seed": seed, "idx": i, "tier": tier}})
    return out, skipped


def history_model(ev):
    """TLC: HAdd with histories (Query / Rewire before the calls) on the small table; returns the emitted edges."""
    cfg = mc_cfg("EnvsH", edit=True)
    cfg["action_constraints"] = ("Emit",)
    r = model_check(ev, "MCHAdd", cfg, role="HAdd with histories (Query, Rewire) over EnvsH (+ emitted edges)", tag="c16hmc",
                    workers=1, require_actions=("Build", "AddH"), timeout=900)
    edges = [x for x in r.printed if isinstance(x, dict) and "act" in x]
    kinds = {}
    for e in edges:
        kinds[e["act"]["act"]] = kinds.get(e["act"]["act"], 0) + 1
    if not all(kinds.get(k) for k in ("build", "query", "rewire", "share", "addh")):     # TLC names these disjuncts "Next" in -coverage
        raise tlc.MachineryError(f"vacuity guard: history model took {kinds}")
    return edges


def history_replay(tier, seed, edges):
    """H/A: every (state, action) pair of the TLC-enumerated histories replayed on real Molecules."""
    g = replay.Graph(edges, key_fields_drop=DROP)
    stats, viol, _, _, samples = replay.cover(g, H.HAddAdapter, seed=seed, max_path=14, stop_after=40)
    if stats["unreached_pairs"] and not viol:
        raise tlc.MachineryError(f"history replay left {stats['unreached_pairs']} (state, action) pairs unexercised")
    return stats, viol, samples


def random_traces(tier, seed, n):
    out, skipped = [], 0
    for i in range(n):
        with warnings.catch_warnings():
            warnings.simplefilter("ignore")
            m, d = G.make_random(seed, i, tier)
        pre = H.snapshot(m)
        if not sane(pre):
            skipped += 1
            continue
        out.append({"tid": f"rand{i}", "ev": H.run_molecule(m), "src": {"src": "rand", "seed": seed, "idx": i, "tier": tier}})
    return out, skipped


def cdxml_traces():
    out, unparsed = [], []
    for fname, kind, key in G.cdxml_sources():
        try:
            m = G.make_cdxml(fname, kind, key)
        except Exception as e:                                   # parsing is C13's business
            unparsed.append((fname, kind, key, type(e).__name__))
            continue
        out.append({"tid": f"cdxml:{fname}:{kind}:{key}", "ev": H.run_molecule(m),
                    "src": {"src": "cdxml", "file": fname, "kind": kind, "key": key}})
    return out, unparsed


def strip(traces):
    return [{"tid": t["tid"], "ev": t["ev"]} for t in traces]


def validate(traces, tag, par=WORKERS):
    """-> verdicts, TLC results, {tid: centres at which HAdd wants hydrogens (printed by TLC for rejected calls)}"""
    chunk = max(200, -(-len(traces) // par))
    verdicts, results = T.validate("HAddTrace", strip(traces), TRACE_CFG, chunk=chunk, par=par, tag=tag)
    want = {}
    for r in results:
        for x in r.printed:
            if isinstance(x, dict) and "stuck" in x:
                want[x["stuck"]] = list(x["want"])
    return verdicts, results, want


# ------------------------------------------------------------------------------------------------

def run(tier, seed, replay_path):
    ev = Evidence(PROP, tier, seed)
    rep = Reporter(PROP, ev)
    if replay_path:
        return do_replay(replay_path)
    envs = "EnvsT" if tier == "thorough" else "EnvsQ"
    # M + edges in one TLC run: invariants, action properties, coverage, and the Emit lines of every transition;
    # meanwhile (threads) the history model and the non-vacuity runs: each deviation must violate its clause
    t0 = time.time()
    cfg = mc_cfg(envs)
    cfg["action_constraints"] = ("Emit",)
    with ThreadPoolExecutor(8) as ex:
        fh = ex.submit(history_model, ev)
        fd = [ex.submit(expect_violation, "MCHAdd", mc_cfg("EnvsS", d, only=c), (c,), tag="c16dev", workers=1)
              for d, c in DEVIATIONS]
        fd.append(ex.submit(expect_violation, "MCHAdd", mc_cfg("EnvsH", "DevStale", only="CountRule", edit=True), ("CountRule",),
                            tag="c16dev", workers=1))
        fd.append(ex.submit(expect_violation, "MCHAdd", mc_cfg("EnvsH", "DevReadopt", only="OnlyHydrogensAdded", edit=True),
                            ("OnlyHydrogensAdded",), tag="c16dev", workers=1))
        r = model_check(ev, "MCHAdd", cfg, role=f"HAdd clauses over the case table {envs} (+ emitted edges)", tag="c16mc",
                        workers=1, require_actions=("Build", "AddH"), timeout=1500)
        for f in fd:
            f.result()
        hedges = fh.result()
    edges = [x for x in r.printed if isinstance(x, dict) and "act" in x]
    if len(edges) < 100:
        raise tlc.MachineryError("MCHAdd emitted no case table")
    rep.note(f"model checked: {r.distinct} states, {len(edges)} edges; history model {len(hedges)} edges; "
             f"{len(fd)} deviations caught; {time.time() - t0:.1f}s")
    ev.set(deviations_caught=[f"{d} -> {c}" for d, c in DEVIATIONS] + ["DevStale (history model) -> CountRule",
                                                                            "DevReadopt (history model) -> OnlyHydrogensAdded"])
    # H/A: histories enumerated by TLC
    t0 = time.time()
    hstats, hviol, hsamples = history_replay(tier, seed, hedges)
    ev.set(history_replay=hstats)
    ev.add_samples([{"kind": "history path", "path": [{k: v for k, v in a.items() if k not in ("hs", "cls", "env")} for a in p]}
                    for p in hsamples], 1)
    rep.note(f"history replay: {hstats}, {time.time() - t0:.1f}s")
    hgroups = {}
    for v in hviol:
        hgroups.setdefault((v["action"].get("act"), tuple(a.get("act") for a in v["path"])), []).append(v)
    for (act, shape), vs in sorted(hgroups.items(), key=lambda kv: len(kv[0][1])):
        v = vs[0]
        rep.violation("replay-hadd", {**v, "group": {"history": list(shape), "paths": len(vs)}},
                      what=f"{len(vs)} histories {'>'.join(shape)}: " + "; ".join(v["differences"][:2])[:500])
    # A
    t0 = time.time()
    row_traces, viol, stats, samples = table_replay(tier, seed, ev, rep, edges)
    ev.set(table_replay=stats)
    ev.add_samples([{"kind": "table row", **s} for s in samples], 2)
    rep.note(f"table replay: {stats}, {time.time() - t0:.1f}s")
    groups = classify_violations(viol)
    for (kind, nnb, plen), vs in sorted(groups.items()):
        v = vs[0]
        rep.violation("replay-hadd", {**v, "group": {"kind": kind, "neighbours": nnb, "call": plen - 1, "rows": len(vs)}},
                      what=f"{len(vs)} table rows ({nnb} neighbours, call {plen - 1}, {kind}): e.g. {v['path'][0]['env']}: "
                           + "; ".join(v["differences"][:2]))
    # B
    t0 = time.time()
    n_rand = 3000 if tier == "thorough" else 200
    rnd_traces, skipped = random_traces(tier, seed, n_rand)
    hist_traces, hskipped = history_traces(tier, seed, 4000 if tier == "thorough" else 400)
    if len(hist_traces) < 50:
        raise tlc.MachineryError(f"vacuity guard: only {len(hist_traces)} usable random histories")
    cdx_traces, unparsed = cdxml_traces()
    if tier != "thorough":        # every row was already compared with its TLC edge; trace-validate every second one in quick
        row_traces = [t for k, t in enumerate(row_traces) if k % 2 == seed % 2]
    all_traces = row_traces + rnd_traces + hist_traces + cdx_traces
    verdicts, results, want = validate(all_traces, "c16tr")
    for rr in results[:1]:
        ev.add_tlc(rr, "trace validation (first batch)")
    ev.cov["tlc_runs"].append({"role": "trace validation", "batches": len(results),
                               "generated": sum(x.generated for x in results),
                               "wall_s": round(sum(x.wall_s for x in results), 1)})
    bad = [t for t in all_traces if verdicts[t["tid"]][0] != "ACCEPT"]
    rep.note(f"traces: {len(row_traces)} table rows, {len(rnd_traces)} random molecules ({skipped} degenerate skipped), "
             f"{len(hist_traces)} random histories ({hskipped} not applicable), "
             f"{len(cdx_traces)} CDXML fragments ({len(unparsed)} unparsable); {len(bad)} rejected; {time.time() - t0:.1f}s")
    reported = {}
    for t in bad:
        l = verdicts[t["tid"]][1]
        sig = signature(t, l)
        k = known_id(sig)
        if k:
            rep.known(k["id"], k["what"])
            continue
        gkey = (t["src"]["src"], sig["event"], min(sig["call"], 3), sig.get("atoms_added", 0) > 0, sig.get("nonfinite_new"),
                sig.get("nonfinite_at_isolated"))
        reported.setdefault(gkey, []).append((t, l, sig))
    for gkey, items in sorted(reported.items(), key=lambda kv: str(kv[0])):
        t, l, sig = min(items, key=lambda it: len(it[0]["ev"][0]["atoms"]))
        rep.violation("trace-hadd", {"source": t["src"], "stuck_at": l, "signature": sig, "traces_in_group": len(items),
                                     "hadd_wants_hydrogens_at": want.get(t["tid"]), "trace": t["ev"]},
                      what=f"{len(items)} traces like {t['tid']} ({len(t['ev'][0]['atoms'])} atoms): " + describe(t, l, want.get(t["tid"])))
    # evidence
    n_h = sum(len(e["newh"]) for t in all_traces for e in t["ev"] if e["ev"] == "addh")
    centres = set()
    for t in rnd_traces + cdx_traces:
        m0 = t["ev"][0]
        first = t["ev"][1]
        per = {}
        for h in first["newh"]:
            per[h["c"]] = per.get(h["c"], 0) + 1
        for i, a in enumerate(m0["atoms"], start=1):
            nb = sorted(b["bt"] for b in m0["bonds"] if i in (b["a"], b["b"]))
            centres.add((a["el"], a["fc"], abs(a["sp"]), m0["hints"][i - 1], tuple(nb), per.get(i, 0)))
    hist_shapes = {tuple(x for e in t["ev"] for x in ([e["ev"]] + e.get("edits", []))) for t in hist_traces}
    ev.count(evaluations=stats["steps"] + hstats["steps"] + sum(len(t["ev"]) - 1 for t in rnd_traces + cdx_traces)
             + sum(1 for t in hist_traces for e in t["ev"] if e["ev"] != "mol"),
             distinct_nontrivial=stats["distinct_count_cases"] + len(centres) + hstats["pairs_exercised"] + len(hist_shapes),
             traces=len(all_traces))
    ev.set(rule="one evaluation = one real add_implicit_hydrogens() call whose result was compared with the TLC edge (table "
                "rows) and/or validated by TLC as a step of HAdd (all); distinct_nontrivial = distinct local situations "
                "(element, charge, |spin|, hint, multiset of bond types[, hydrogens received]) seen in the table rows plus "
                "in the random/CDXML molecules",
           hydrogens_placed_and_judged=n_h, random_molecules=len(rnd_traces), random_histories=len(hist_traces),
           random_histories_not_applicable=hskipped, distinct_history_shapes=len(hist_shapes),
           accessor_answers_judged=sum(1 for t in hist_traces for e in t["ev"] if e["ev"] == "query"), random_skipped_degenerate=skipped,
           cdxml_fragments=len(cdx_traces), cdxml_unparsable=unparsed[:10], rejected_traces=len(bad),
           thresholds=H.CONSTANTS, exhaustive=False)
    acc = [t for t in rnd_traces if verdicts[t["tid"]][0] == "ACCEPT" and any(e["ev"] == "addh" and e["newh"] for e in t["ev"])]
    ev.add_samples([{"kind": "accepted trace", "tid": t["tid"], "mol": {"atoms": [(a["el"], a["fc"], a["sp"]) for a in t["ev"][0]["atoms"]],
                                                                        "bonds": t["ev"][0]["bonds"]},
                     "newh": [{k: h[k] for k in ("c", "d", "fin", "cos")} for h in t["ev"][1]["newh"]]} for t in acc[:2]], 2)
    ev.assumptions += [
        "hydrogen count table covers centres B,C,N,O,Si,P,S; charges -1..1; spins -1..2; every multiset of 0..3 bonds over "
        "single/double/triple/aromatic; hints 0..3; the bond-order table (aromatic 1.5, dummy/ligand 0) is transcribed from Bond.order",
        f"placement is judged on measured integers: |d - (r_cov + r_H)| <= {H.TOL_D} uA, cos <= -{H.COS_AWAY}e-3; where the neighbours' "
        f"centroid (plane, for three neighbours) is closer than {H.OFF_MIN} mA to the atom (flat drawings) only 'not towards' is required",
        "atoms bonded to a hapto coordination centre are outside the direction clause; the order of the new atoms/bonds is free",
        "covalent radii and groups in HAdd.tla are transcribed from the literature (Pyykko), not read from molli"]
    ev.assumptions.append("histories: what the edits themselves do is not judged here (C05); the molecule is re-read through "
                          "m.atoms / m.bonds / m.coords after the edits and HAdd decides accessor answers and hydrogens from "
                          "that graph; histories whose edit raised or left > 3 neighbours / flat geometry are not used")
    return rep.finish()


# ------------------------------------------------------------------------------------------------

def do_replay(path):
    doc = json.loads(open(path).read())
    kind = doc["kind"]
    if kind == "replay-hadd":
        ad = H.HAddAdapter()
        try:
            res = replay.run_path(ad, doc["path"])
        finally:
            ad.cleanup()
        last = res[-1]
        print(json.dumps({"last_action": last["act"].get("act"), "outcome": last["outcome"], "observed": last["obs"],
                          "allowed_by_spec": doc.get("allowed")}, indent=1, default=str)[:6000])
        for a in doc.get("allowed") or []:
            ok_out = all(last["outcome"].get(k) == a["act"][k] for k in ("out", "n", "nb", "bv2") if k in a["act"] and k in last["outcome"])
            if ok_out and not replay.diff(a["obs"], last["obs"]):
                print("replay: behaviour now matches the specification")
                return 0
        print(f"VIOLATION property={PROP} replay={path}")
        return 1
    if kind == "trace-hadd":
        src = doc["source"]
        if src["src"] == "rand":
            m, _ = G.make_random(src["seed"], src["idx"], src["tier"])
            evs = H.run_molecule(m)
        elif src["src"] == "hist":
            evs = make_history(src["seed"], src["idx"], src["tier"])
            if evs is None:
                print("replay: this history is no longer generated (input outside the property's domain)")
                return 0
        elif src["src"] == "cdxml":
            evs = H.run_molecule(G.make_cdxml(src["file"], src["kind"], src["key"]))
        elif src["src"] == "row":
            ad = H.HAddAdapter()
            ad.apply({"act": "build", "env": src["env"]})
            ad.apply({"act": "addh"})
            if src["env"]["hint"] < 0:
                ad.apply({"act": "addh"})
            evs = ad.events
        else:
            evs = doc["trace"]                       # a hand-made trace: validate as recorded
        tr = {"tid": "replay", "ev": evs}
        verdicts, _, want = validate([tr], "c16rp", par=1)
        v = verdicts["replay"]
        print(json.dumps({"verdict": v, "explanation": None if v[0] == "ACCEPT" else describe(tr, v[1], want.get("replay"))}, indent=1))
        if v[0] != "ACCEPT":
            print(f"VIOLATION property={PROP} replay={path}")
            return 1
        print("replay: the execution is now a behaviour of HAdd")
        return 0
    print(json.dumps(doc, indent=1)[:2000])
    return 2
