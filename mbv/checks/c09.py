"""C09 — every public load / dump entry point agrees with the class-level codec.

M: TLC checks Dispatch (the decision table of ml.load / loads / load_all / loads_all / dump / dumps written from the
   documentation + the state machine of dump targets: files with mode a / w, caller-owned streams) for Total,
   ListsWherePromised, UnsupportedIsValueError, SupportedSucceeds, RouteMatchesOtype, NameHonoured, StreamsStayOpen,
   StreamGrowsByText, AppendAccumulates; seven named deviations must each be caught.
A: every (state, action) pair of that graph is one real call: the whole matrix fn x document x format argument x
   source kind x output type x name x key on bundled and generated files, every dump cell in every reachable target
   state (histories of up to 2 / 3 dumps), loads of the files the dumps produced.  TLC names the class method the
   result has to equal field-wise, the shape, the class, the count, the error class and the content of every target.
B: seeded random histories over more objects / paths / streams (StringIO and real files) are recorded and validated
   by TLC against DispatchTrace."""
from __future__ import annotations
import json, random, time
from concurrent.futures import ThreadPoolExecutor
from ..common import Reporter, model_check, emit_graph, expect_violation
from ..evidence import Evidence
from .. import replay, tlc
from .. import trace as T
from ..adapters.dispatch import DispatchLab, DispatchAdapter
from ..adapters.xyztext import walk

PROP = "C09"
WORKERS = 4

# Genuine defects of the pinned tree found by this check; each has a small repair (patch files under
# /verif/.work/fixes/C09-*.patch), so none is downgraded to a KNOWN-FINDING: while present the check exits 1.
KNOWN = {}

INV = ("TypeOK", "Total", "StreamsStayOpen")
PROPS = ("ListsWherePromised", "UnsupportedIsValueError", "SupportedSucceeds", "RouteMatchesOtype", "NameHonoured",
         "StreamGrowsByText", "AppendAccumulates", "LoadsCurrentContent")
ACTIONS = ("Load", "DumpPathB", "DumpStreamB", "Dumps", "LoadBack", "Replace", "LoadSrc")
DEVIATIONS = ("DevLoadsAll", "DevOtype", "DevName", "DevError", "DevClosed", "DevRaises", "DevMode", "DevStale")
SRCPATHS = {"sxyz": "xyz", "smol2": "mol2", "scdxml": "cdxml", "ssdf": "sdf", "szzz": "zzz"}
PATHS = {"quick": {"pxyz": "xyz", "psdf": "sdf"}, "thorough": {"pxyz": "xyz", "pmol2": "mol2", "psdf": "sdf"}}
DOC_FMT = {"x1": "xyz", "xk": "xyz", "xdat": "xyz", "xh": "xyz", "m1": "mol2", "mk": "mol2", "mh": "mol2", "c1": "cdxml",
           "c2": "cdxml", "u": "sdf"}
DOC_SUFFIX = {"x1": "xyz", "xk": "xyz", "xdat": "zzz", "xh": "xyz", "m1": "mol2", "mk": "mol2", "mh": "sdf", "c1": "cdxml",
              "c2": "cdxml", "u": "sdf"}


def mc_cfg(tier, facts, dev="DevNone"):
    big = tier == "thorough" and dev == "DevNone"
    return dict(spec="Spec", constants={"Objs": "<- ObjsM", "Docs": "<- DocsT" if big else "<- DocsQ",
                                        "Paths": "<- PathsT" if big else "<- PathsM", "Streams": "<- StreamsM",
                                        "SrcPaths": "<- SrcsM", "MaxReplace": 3 if big else 2,
                                        "MaxDumps": 3 if big else 2, "Deviations": f"<- {dev}", **facts},
                invariants=INV, properties=PROPS, view="View")


def fix_edges(edges):
    for e in edges:
        if e["to"] == "=":
            e["to"] = e["from"]
            e["obs"] = None
    return edges


def brief(a):
    return {k: v for k, v in a.items() if k not in ("agrees", "nameok", "count", "cls", "shape")}


def signature(v):
    """Class of a mismatch (one VIOLATION line per class, not per cell)."""
    a, o = v["action"], v["observed_outcome"]
    exp = (v.get("allowed") or [{}])[0].get("act", {})
    first = next((k for k in ("out", "shape", "cls", "nameok", "count", "agrees", "val") if k in o and k in exp and o[k] != exp[k]), "obs")
    if a["act"] in ("load", "loadback", "loadsrc"):
        cdx = DOC_FMT.get(a.get("doc"), a.get("fmt")) == "cdxml"
        return (a["act"] if a["act"] == "loadsrc" else "load", a["fn"] if first in ("out", "shape", "count") else "*", a.get("otype") in ("ensemble", "ConformerEnsemble"),
                cdx and a.get("keyed", False), first, o.get("out"))
    return (a["act"], a.get("tkind") == "stream", o.get("out"), exp.get("out"), first)


def direction_a(tier, ev, rep, lab):
    facts = {k: lab.facts[k] for k in ("NEns", "NXk", "NMk", "NCdx", "NCdx2", "NXh")}
    cfg = mc_cfg(tier, facts)
    # TLC on the model (properties; one run per named deviation: non-vacuity) runs beside the emission and the replay
    pool = ThreadPoolExecutor(3)
    jobs = [pool.submit(model_check, ev, "MCDispatch", cfg, role=f"Dispatch table + target state machine ({tier})", tag="c09mc",
                        workers=2, require_actions=ACTIONS)]
    jobs += [pool.submit(expect_violation, "MCDispatch", mc_cfg(tier, facts, d), INV + PROPS, tag="c09dev", workers=1)
             for d in DEVIATIONS]
    edges = fix_edges(emit_graph(ev, "MCDispatch", cfg, role="Dispatch edges for replay", tag="c09emit"))
    g = replay.Graph(edges, key_fields_drop=("out", "val", "shape", "cls", "route", "count", "agrees", "nameok"))
    paths = PATHS[tier]
    total = {"steps": 0, "paths": 0, "mismatches": 0}
    allv = []
    for kind in ("stringio", "file"):
        gg = g
        if kind == "file":                                # second pass: the dump part again, streams = real files
            sub = [e for e in edges if e["act"]["act"] == "dump"]
            gg = replay.Graph(sub, key_fields_drop=("out",))
        stats, viol, samples = walk(gg, lambda: DispatchAdapter(lab, paths, ("s",), kind, SRCPATHS), sig=signature, per_sig=1,
                                    revisit=True)
        for k in total:
            total[k] += stats[k]
        ev.cov.setdefault("replay", {})[kind] = stats
        ev.add_samples([{"direction": "A", "streams": kind, "path": [brief(a) for a in s[:3]]} for s in samples], 1)
        if stats["unreached_pairs"]:
            rep.note(f"A/{kind}: {stats['unreached_pairs']} pairs lie behind target states the code never produces "
                     f"(the specification leaves the file of a refused dump free)")
        for v in viol:
            v["stream_kind"], v["tier"] = kind, tier
            allv.append(v)
        rep.note(f"A/{kind}: {stats}")
    seen = set()
    for v in allv:
        s = signature(v)
        if s in seen:
            continue
        seen.add(s)
        rep.violation("replay-dispatch", v, what=f"{brief(v['action'])}: " + "; ".join(v["differences"][:3])[:300]
                      + (f"  [{v['observed_outcome'].get('exc')}]" if v["observed_outcome"].get("exc") else ""))
    for j in jobs:
        j.result()                                            # a model that fails its own properties / a deviation not caught: exit 2
    pool.shutdown()
    cells = len({a for n in g.out for a in g.out[n]})
    ev.count(evaluations=total["steps"], distinct_nontrivial=cells, traces=total["paths"])
    for e in edges:                                           # one table cell with what TLC demanded of it
        a = e["act"]
        if a["act"] == "load" and a.get("out") == "ok" and a["fn"] == "load_all":
            ev.add_samples([{"direction": "A", "cell": a, "matched_by_code": not allv}], 1)
            break
    ev.set(deviations_caught_by_tlc=list(DEVIATIONS))
    ev.set(table_cells=sum(1 for n in g.out for a in g.out[n] if g.out[n][a][0]["act"]["act"] == "load"),
           distinct_action_cells=cells)


# ---------------------------------------------------------------------------------------------------------
# Direction B
# ---------------------------------------------------------------------------------------------------------
BPATHS = {"p1": "xyz", "p2": "mol2", "p3": "sdf"}
BSTREAMS = ("s1", "s2")
TRACE_INV = ("TypeOK", "StreamsStayOpen")


def trace_cfg():
    return dict(spec="TraceSpec", constants={"Objs": "<- ObjsT", "Docs": "<- DocsT", "Paths": "<- PathsT", "Streams": "<- StreamsT",
                                             "SrcPaths": "<- SrcsT", "MaxReplace": 100000, "MaxDumps": 100000, "Deviations": "<- DevNone"}, invariants=TRACE_INV)


def doc_table(lab):
    n = {"x1": 1, "xk": lab.facts["NXk"], "xdat": lab.facts["NXk"], "m1": 1, "mk": lab.facts["NMk"], "c1": lab.facts["NCdx"],
         "c2": lab.facts["NCdx2"], "u": 1, "xh": lab.facts["NXh"], "mh": lab.facts["NXh"]}
    return {d: {"fmt": DOC_FMT[d], "suffix": DOC_SUFFIX[d], "n": n[d], "hom": d not in ("c1", "c2", "xh", "mh")} for d in DOC_FMT}


def rand_script(rnd, lab, length):
    """A random history: which calls to make (inputs only).  Loads of produced files are offered only where the
    specification offers them (non-empty file of one format; one constitution for an ensemble)."""
    objs = sorted(lab.objs)
    sc = []
    for _ in range(length):
        r = rnd.random()
        if r < 0.12:                                        # rewrite a source path in place: write, load, REwrite, load twice
            sp = rnd.choice(("scdxml", "scdxml", "sxyz", "smol2", "ssdf", "szzz"))
            ds = sorted(d for d in DOC_SUFFIX if DOC_SUFFIX[d] == SRCPATHS[sp])
            ld = lambda: {"op": "loadsrc", "fn": rnd.choice(("load", "load_all")), "sp": sp, "fmtarg": rnd.choice(("suffix", "content")),
                          "src": rnd.choice(("str", "Path")), "otype": rnd.choice(("molecule", "ensemble", "Structure")),
                          "named": rnd.random() < 0.5, "keyed": rnd.random() < 0.3}
            d1 = rnd.choice(ds)
            d2 = rnd.choice([d for d in ds if d != d1] or ds)
            sc += [{"op": "replace", "sp": sp, "doc": d1}, ld(), {"op": "replace", "sp": sp, "doc": d2}, ld(), ld()]
        elif r < 0.30:                                      # ... and load it (again): the answer is for what it holds now
            sc.append({"op": "loadsrc", "fn": rnd.choice(("load", "load_all")), "sp": rnd.choice(sorted(SRCPATHS)),
                       "fmtarg": rnd.choice(("suffix", "content")), "src": rnd.choice(("str", "Path")),
                       "otype": rnd.choice(("molecule", "ensemble", "Molecule", "ConformerEnsemble", "Structure")),
                       "named": rnd.random() < 0.5, "keyed": rnd.random() < 0.3})
        elif r < 0.6:
            if rnd.random() < 0.35:
                sc.append({"op": "dump", "obj": rnd.choice(objs), "tgt": rnd.choice(BSTREAMS), "tkind": "stream",
                           "fmtarg": rnd.choice(("xyz", "mol2", "xyz", "mol2", "none", "sdf", "zzz", "cdxml")), "mode": "default"})
            else:
                sc.append({"op": "dump", "obj": rnd.choice(objs), "tgt": rnd.choice(sorted(BPATHS)), "tkind": rnd.choice(("str", "Path")),
                           "fmtarg": rnd.choice(("none", "none", "xyz", "mol2", "sdf", "zzz", "cdxml")),
                           "mode": rnd.choice(("default", "default", "a", "w"))})
        elif r < 0.66:
            sc.append({"op": "dumps", "obj": rnd.choice(objs), "fmtarg": rnd.choice(("xyz", "mol2", "sdf", "zzz", "cdxml"))})
        elif r < 0.84:
            sc.append({"op": "loadback", "fn": rnd.choice(("load", "load_all")), "tgt": rnd.choice(sorted(BPATHS)),
                       "otype": rnd.choice(("molecule", "ensemble", "Molecule", "ConformerEnsemble", "Structure")),
                       "named": rnd.random() < 0.5})
        else:
            fn = rnd.choice(("load", "loads", "load_all", "loads_all"))
            d = rnd.choice(sorted(DOC_FMT))
            pathfn = fn in ("load", "load_all")
            fa = rnd.choice(("suffix", "content", "content", "sdf", "zzz") if pathfn else ("content", "content", "sdf", "zzz"))
            sc.append({"op": "load", "fn": fn, "doc": d, "fmtarg": fa, "src": rnd.choice(("str", "Path")) if pathfn else "text",
                       "otype": rnd.choice(("molecule", "ensemble", "Molecule", "ConformerEnsemble", "Structure")),
                       "named": rnd.random() < 0.5, "keyed": rnd.random() < 0.3})
    return sc


def load_offered(op, docs, doc=None):
    """The guards of Dispatch!Offered on the inputs (so that no event is produced for a cell the table does not have)."""
    d = docs[doc or op["doc"]]
    fmt = d["suffix"] if op["fmtarg"] == "suffix" else d["fmt"] if op["fmtarg"] == "content" else op["fmtarg"]
    ce = op["otype"] in ("ensemble", "ConformerEnsemble")
    if fmt == "cdxml" and op["fn"] not in ("load", "load_all"):
        return False
    if op["keyed"] and not (fmt == "cdxml" and op["fn"] == "load"):
        return False
    if ce and fmt in ("xyz", "mol2") and not d["hom"]:
        return False
    if fmt in ("xyz", "mol2", "cdxml") and fmt != d["fmt"]:
        return False
    return True


def execute(lab, script, kind):
    ad = DispatchAdapter(lab, BPATHS, BSTREAMS, kind, SRCPATHS)
    docs = doc_table(lab)
    evs = []
    try:
        for op in script:
            o = op["op"]
            if o == "dump":
                r = ad.apply({"act": "dump", **{k: op[k] for k in ("obj", "tgt", "tkind", "fmtarg", "mode")}})
                st = ad.state()
                evs.append({"ev": "dump", **{k: op[k] for k in ("obj", "tgt", "tkind", "fmtarg", "mode")}, "out": r["out"],
                            "exc": r.get("exc", ""), "files": st["files"], "streams": st["streams"]})
            elif o == "dumps":
                r = ad.apply({"act": "dumps", "obj": op["obj"], "fmtarg": op["fmtarg"]})
                evs.append({"ev": "dumps", "obj": op["obj"], "fmtarg": op["fmtarg"], "out": r["out"], "val": r.get("val", [])})
            elif o == "load":
                if not load_offered(op, docs):
                    continue
                path, fmt = lab.docs[op["doc"]], ad._fmt(op["fmtarg"], op["doc"])
                eff = DOC_SUFFIX[op["doc"]] if op["fmtarg"] == "suffix" else DOC_FMT[op["doc"]] if op["fmtarg"] == "content" else op["fmtarg"]
                key = ad.second_key(path) if op["keyed"] else None
                r = lab.load(op["fn"], path, fmt, op["src"], op["otype"], op["named"], key,
                             lab.candidate_routes(op["fn"], eff) if eff in ("xyz", "mol2", "cdxml") else ())
                evs.append({"ev": "load", **{k: op[k] for k in ("fn", "doc", "fmtarg", "src", "otype", "named", "keyed")},
                            **{k: r.get(k) for k in ("out", "shape", "cls", "count", "nameok", "agree", "exc") if k in r}})
            elif o == "replace":
                ad.apply({"act": "replace", "sp": op["sp"], "doc": op["doc"]})
                evs.append({"ev": "replace", "sp": op["sp"], "doc": op["doc"], "srcs": ad.state()["srcs"]})
            elif o == "loadsrc":
                cur = ad.current_doc(op["sp"])
                if cur is None or not load_offered(op, docs, cur):
                    continue
                path, fmt = ad.srcp[op["sp"]], ad._fmt(op["fmtarg"], cur)
                eff = DOC_SUFFIX[cur] if op["fmtarg"] == "suffix" else DOC_FMT[cur]
                key = ad.second_key(path) if op["keyed"] else None
                r = lab.load(op["fn"], path, fmt, op["src"], op["otype"], op["named"], key,
                             lab.candidate_routes(op["fn"], eff) if eff in ("xyz", "mol2", "cdxml") else ())
                evs.append({"ev": "loadsrc", **{k: op[k] for k in ("fn", "sp", "fmtarg", "src", "otype", "named", "keyed")},
                            **{k: r.get(k) for k in ("out", "shape", "cls", "count", "nameok", "agree", "exc") if k in r}})
            elif o == "loadback":
                st = ad.state()["files"][op["tgt"]]["content"]
                fm = {t[1] for t in st}
                if not st or len(fm) != 1 or not fm <= {"xyz", "mol2"}:
                    continue
                if op["otype"] in ("ensemble", "ConformerEnsemble") and len({t[0] for t in st}) != 1:
                    continue
                fmt = st[0][1]
                r = lab.load(op["fn"], ad.paths[op["tgt"]], fmt, "str", op["otype"], op["named"], None,
                             lab.candidate_routes(op["fn"], fmt))
                evs.append({"ev": "loadback", **{k: op[k] for k in ("fn", "tgt", "otype", "named")},
                            **{k: r.get(k) for k in ("out", "shape", "cls", "count", "nameok", "agree", "exc") if k in r}})
    finally:
        ad.cleanup()
    return evs


def show(e):
    return {k: v for k, v in e.items() if k not in ("files", "streams", "srcs")}


def direction_b(tier, seed, ev, rep, lab):
    rnd = random.Random(seed * 104729 + 9)
    n = 110 if tier == "quick" else 1200
    t0 = time.time()
    tables = {"objs": lab.obj_table(), "docs": doc_table(lab), "paths": BPATHS, "streams": list(BSTREAMS), "srcpaths": SRCPATHS}
    scripts = [(f"h{i}", rand_script(rnd, lab, rnd.randint(3, 12)), ("stringio", "file")[i % 2]) for i in range(n)]
    traces = [{"tid": tid, **tables, "ev": execute(lab, sc, kind)} for tid, sc, kind in scripts]
    t1 = time.time()
    verdicts, results = T.validate("DispatchTrace", traces, trace_cfg(), chunk=60 if tier == "quick" else 150, par=WORKERS, tag="c09tr")
    ev.cov["tlc_runs"].append({"role": "trace validation (DispatchTrace)", "batches": len(results),
                               "generated": sum(r.generated for r in results), "wall_s": round(sum(r.wall_s for r in results), 1)})
    ev.cov["transitions"] += sum(r.generated for r in results)
    smap = {tid: (sc, kind) for tid, sc, kind in scripts}
    tmap = {t["tid"]: t["ev"] for t in traces}
    bad = sorted((tid, v) for tid, v in verdicts.items() if v[0] != "ACCEPT")
    seen = set()
    for tid, (_, l) in bad:
        t = tmap[tid]
        e = t[l - 1] if l and l <= len(t) else {}
        sig = (e.get("ev"), e.get("fn"), e.get("tkind") == "stream", e.get("otype") in ("ensemble", "ConformerEnsemble"),
               e.get("named"), e.get("out"), e.get("shape"))
        if sig in seen:
            continue
        seen.add(sig)
        rep.violation("trace-dispatch", {"tid": tid, "script": smap[tid][0], "stream_kind": smap[tid][1], "stuck_at": l,
                                         "event": show(e), "seed": seed, "tier": tier},
                      what=f"{tid}: no step of Dispatch explains event {l}: {json.dumps(show(e))}"[:420])
    nev = sum(len(t["ev"]) for t in traces)
    ev.count(evaluations=nev, distinct_nontrivial=len({json.dumps(show({k: v for k, v in e.items() if k not in ('agree', 'exc')}),
                                                                  sort_keys=True) for t in traces for e in t["ev"]}), traces=len(traces))
    ev.set(traces={"n": len(traces), "events": nev, "rejected": len(bad), "exec_s": round(t1 - t0, 1), "tlc_s": round(time.time() - t1, 1)})
    acc = [t for t in traces if verdicts[t["tid"]][0] == "ACCEPT"]
    ev.add_samples([{"direction": "B", "tid": t["tid"], "events": [show(e) for e in t["ev"][:4]]} for t in acc[:1]], 1)
    rep.note(f"B: {len(traces)} histories, {nev} events, {len(bad)} rejected ({len(seen)} distinct signatures); "
             f"exec {t1 - t0:.1f}s, TLC {time.time() - t1:.1f}s")


def run(tier, seed, replay_path):
    ev = Evidence(PROP, tier, seed)
    rep = Reporter(PROP, ev)
    if replay_path:
        return do_replay(replay_path)
    lab = DispatchLab(seed, extra_objs=4 if tier == "quick" else 8)
    try:
        rep.note(f"facts read off the inputs: {lab.facts}")
        direction_a(tier, ev, rep, lab)
        direction_b(tier, seed, ev, rep, lab)
    finally:
        lab.cleanup()
    ev.set(rule="A: one case = one (target state, call) pair of the TLC graph executed on the real entry points and compared with "
                "the class method / target content TLC names; distinct_nontrivial = distinct cells (call + arguments + state); "
                "B: one case = one event of a random history validated by TLC")
    ev.assumptions += ["openbabel is not installed: parser/writer='openbabel' is not exercised",
                       "cdxml from a string (documented NotImplementedError) and otype=None are not generated",
                       "the file left behind by a REFUSED dump to a path is left free (untouched / created empty / truncated)",
                       "'same objects' = equal field-wise through public accessors (class, name, elements, labels, formal charges, "
                       "bonds, coordinates at 1e-6, charge, mult, atomic charges at 1e-4, conformers)",
                       "load(cdxml) without key must equal one of the file's molecules (CDXMLFile[k]) up to the name"]
    return rep.finish()


def do_replay(path):
    doc = json.loads(open(path).read())
    lab = DispatchLab(doc.get("seed", 0), extra_objs=4 if doc.get("tier", "quick") == "quick" else 8)
    try:
        if doc["kind"] == "replay-dispatch":
            ad = DispatchAdapter(lab, PATHS[doc.get("tier", "quick")], ("s",), doc.get("stream_kind", "stringio"), SRCPATHS)
            try:
                res = replay.run_path(ad, doc["path"])
            finally:
                ad.cleanup()
            last = res[-1]
            print(json.dumps({"last_action": brief(last["act"]), "outcome": last["outcome"], "observed": last["obs"],
                              "allowed_by_spec": [{"act": {k: v for k, v in a["act"].items() if k in
                                                           ("out", "shape", "cls", "count", "route", "agrees", "nameok", "val")},
                                                   "obs": a["obs"]} for a in doc.get("allowed") or []]}, default=str)[:3000])
            for a in doc.get("allowed") or []:
                ok = all(last["outcome"].get(k) == a["act"][k] for k in last["outcome"] if k in a["act"])
                if ok and not replay.diff(a["obs"], last["obs"]):
                    print("replay: behaviour now matches the specification")
                    return 0
            print(f"VIOLATION property={PROP} replay={path}")
            return 1
        if doc["kind"] == "trace-dispatch":
            evs = execute(lab, doc["script"], doc["stream_kind"])
            tables = {"objs": lab.obj_table(), "docs": doc_table(lab), "paths": BPATHS, "streams": list(BSTREAMS),
                      "srcpaths": SRCPATHS}
            verdicts, _ = T.validate("DispatchTrace", [{"tid": doc["tid"], **tables, "ev": evs}], trace_cfg(), tag="c09rp")
            v, l = verdicts[doc["tid"]]
            print(json.dumps({"tid": doc["tid"], "verdict": v, "stuck_at": l,
                              "event": show(evs[l - 1]) if l and l <= len(evs) else None}, default=str)[:2000])
            if v != "ACCEPT":
                print(f"VIOLATION property={PROP} replay={path}")
                return 1
            print("replay: the recorded history is now a behaviour of the specification")
            return 0
    finally:
        lab.cleanup()
    print(f"unknown replay kind {doc['kind']}")
    return 2
