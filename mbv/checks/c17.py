"""C17 — a job runs exactly what was asked and reports exactly what happened.

Part 1 (JobBind.tla): every order of creating / using 2-3 driver instances (<= 6 operations) is replayed on a
harness-defined driver and on the real XTBDriver; the prepared JobInput must carry the instance's own settings.
Part 2 (JobRun.tla): TLC enumerates command lists (named/unnamed, exit codes, files written) and computes the
required result of run_local step by step; every such job is executed by the real `_molli_run` and compared."""
from __future__ import annotations
import json, random
from ..common import Reporter, model_check, emit_graph, expect_violation
from ..evidence import Evidence
from .. import replay
from ..tlc import MachineryError

PROP = "C17"
RUN_INV = ("ExecutedIsPrefixToFirstFailure", "CapturedExactlyNamedExecuted", "ExitRule", "NoResidue", "FilesAreRequestedAndWritten")


def bind_cfg(dev="DevNone", maxops=6):
    return dict(spec="Spec", constants={"Drv": "<- D3", "Exe": "<- ExeM", "NProc": "<- NPM", "Env": "<- EnvM", "MaxOps": maxops,
                                        "Deviations": f"<- {dev}"}, properties=("NoCrossTalk",), view="View")


def run_cfg(maxcmds, dev="DevNone", forms="FormsQ"):
    return dict(spec="Spec", constants={"CmdPool": "<- Pool", "Files": "<- F2", "Requested": "<- F2", "MaxCmds": maxcmds,
                                        "Forms": f"<- {forms}", "Deviations": f"<- {dev}"}, invariants=RUN_INV, view="View")


def norm_bind(e):
    a = e["act"]
    if "env" in a:
        a["env"] = sorted(a["env"])
    e["obs"] = {"made": sorted(e["obs"]["made"]), "conf": e["obs"]["conf"]}
    return e


def norm_run(o):
    o = dict(o)
    o["captured"] = sorted(o["captured"])
    o["files"] = sorted(o["files"])
    o["executed"] = list(o["executed"])
    return o


def run(tier, seed, replay_path):
    from ..adapters.jobrun import JobBindAdapter, JobRunAdapter
    ev = Evidence(PROP, tier, seed)
    rep = Reporter(PROP, ev)
    if replay_path:
        return do_replay(replay_path)
    # ---- part 1
    bc = bind_cfg(maxops=6 if tier == "quick" else 7)
    model_check(ev, "MCJobBind", bc, role="JobBind: NoCrossTalk", tag="c17b", require_actions=("Create", "Use", "Reconfigure"))
    expect_violation("MCJobBind", bind_cfg("DevShared"), ("NoCrossTalk",), tag="c17dev")
    expect_violation("MCJobBind", bind_cfg("DevFrozen"), ("NoCrossTalk",), tag="c17dev")
    edges = [norm_bind(e) for e in emit_graph(ev, "MCJobBind", bc, role="JobBind edges", tag="c17be")]
    g = replay.Graph(edges, key_fields_drop=("out", "exe", "np", "env"))
    stats, viol, _, _, samples = replay.cover(g, JobBindAdapter, seed=seed, max_path=8)
    ev.count(evaluations=stats["steps"], distinct_nontrivial=stats["pairs_exercised"], traces=stats["paths"])
    ev.set(bind_replay=stats)
    ev.add_samples([{"part": 1, "path": s} for s in samples], 1)
    for v in viol[:3]:
        rep.violation("replay-jobbind", v, what="; ".join(v["differences"][:3]))
    rep.note(f"part 1: {stats}")
    # ---- part 2
    maxc = 3 if tier == "quick" else 4
    rc = run_cfg(maxc, forms="FormsQ" if tier == "quick" else "FormsAll")
    model_check(ev, "MCJobRun", rc, role=f"JobRun: command lists up to {maxc}", tag="c17r",
                require_actions=("Choose", "Materialise", "Exec", "LoopDone", "Collect"))
    for dev in ("DevContinue", "DevExitF", "DevExitM", "DevKeep"):
        expect_violation("MCJobRun", run_cfg(2, dev), RUN_INV, tag="c17dev")
    edges = emit_graph(ev, "MCJobRun", rc, role="JobRun: one edge per job with its required result", tag="c17re")
    for e in edges:
        e["obs"] = norm_run(e["obs"])
    g2 = replay.Graph(edges)
    paths = replay.enumerate_paths(g2, 1)
    rnd = random.Random(seed)
    rnd.shuffle(paths)
    job = lambda p: json.loads(p[0])
    short = [p for p in paths if len(job(p)["cmds"]) <= 2]
    longer = [p for p in paths if len(job(p)["cmds"]) > 2]
    if tier == "quick":
        chosen = short + longer[:150]
    else:
        # every command list in the plain form; the other forms of the optional fields / invocation with lists of <= 3 commands
        chosen = short + [p for p in longer if job(p).get("form", "full") == "full" or len(job(p)["cmds"]) <= 3]
    by_form = {}
    for p in chosen:
        by_form[job(p).get("form", "full")] = by_form.get(job(p).get("form", "full"), 0) + 1
    if by_form.get("env_path", 0) < 5 or by_form.get("full", 0) < 5:
        raise MachineryError(f"vacuity guard: a form of the job was (almost) never executed: {by_form}")
    stats2, viol2, samples2 = replay.run_paths(g2, chosen, JobRunAdapter, nproc=14)
    stats2["jobs_by_form"] = by_form
    stats2["jobs_in_model"] = len(paths)
    ev.count(evaluations=stats2["steps"], distinct_nontrivial=stats2["pairs_exercised"], traces=stats2["paths"])
    ev.set(run_replay=stats2, exhaustive=len(chosen) == len(paths))
    ev.add_samples([{"part": 2, "job": s} for s in samples2], 2)
    seen = set()
    for v in viol2:
        sig = json.dumps(v["differences"][:1])
        if sig not in seen and len(seen) < 5:
            seen.add(sig)
            rep.violation("replay-jobrun", v, what="; ".join(v["differences"][:3]))
    rep.note(f"part 2: {stats2}")
    ev.set(rule="part 1: one case = one (state, create/use) pair of the JobBind graph replayed on two driver classes; "
                "part 2: one case = one command list executed by the real _molli_run, result compared with the result TLC "
                "computes from JobRun.tla; distinct_nontrivial = distinct pairs / jobs")
    ev.assumptions += ["commands are sh scripts logging to a file outside the scratch directory",
                       "return_files is a tuple; command lists have 1..4 entries"]
    return rep.finish()


def do_replay(path):
    from ..adapters.jobrun import JobBindAdapter, JobRunAdapter
    doc = json.loads(open(path).read())
    ad = JobBindAdapter() if doc["kind"] == "replay-jobbind" else JobRunAdapter()
    try:
        res = replay.run_path(ad, doc["path"])
    finally:
        ad.cleanup()
    last = res[-1]
    print(json.dumps({"last": last, "allowed": doc.get("allowed")}, indent=1, default=str))
    for a in doc.get("allowed") or []:
        if not replay._match({"act": a["act"], "obs": a["obs"]}, last["outcome"], last["obs"]):
            print("replay: behaviour now matches the specification")
            return 0
    print(f"VIOLATION property={PROP} replay={path}")
    return 1
