"""C07 — mol2 written by molli reads back as the same molecule.

M: TLC checks Mol2Text.tla: the reference model of molli's mol2 writer/reader (typing tables transcribed from
   Atom.get/set_mol2_type and MOL2_BOND_TYPE_MAP) satisfies every clause of the contract for EVERY
   element x atom type x geometry triple (vocabularies read from the code at run time), every bond type and every
   bounded structure (Molecule / Structure / ConformerEnsemble); each named deviation (realistic bug) must be caught.
B: (typing) get_mol2_type -> set_mol2_type on a fresh atom -> get_mol2_type is recorded for every triple and every
   bond type on the real code; (structures) TLC generates objects (random walks of the Build actions + bundled mol2
   files), the harness builds them as real objects and records dumps_mol2 / loads_mol2 / loads_all_mol2 /
   ConformerEnsemble.loads_mol2 / dumps / loads again; then the SAME object is edited through public attributes as the
   spec's Edit actions prescribe (bond re-typed, atom re-typed / re-labelled, atom moved, renamed, or ALIASED: some of its
   atoms are put without copying into a Promolecule / Structure that is kept alive or dropped again, or looked at through a
   Substructure / Conformer view - which changes nothing in the object) and written / read once more, so that anything the
   writer remembers from the first write (cached tokens) or looks up outside the object being written (atom.idx / parent)
   shows up as a contract violation.  HISTORY INDEPENDENCE: the round trips run in fresh worker processes, each with
   its own order of cases, interleaved with unrelated public-API calls (set/get_mol2_type on already-typed atoms and bonds
   for the tokens of the text under test, reading / writing the previous case's text / object) before the first read and
   before a second read of the same text; every distinct token is, in another fresh process, first interpreted on
   already-typed atoms and only then on a fresh one.  History events are stuttering steps of the spec; RereadSame demands
   that the same text reads back as the same object.
   All traces are validated by TLC against Mol2TextTrace: a step
   is accepted only if the contract holds in the state it leads to.  Python never decides a verdict."""
from __future__ import annotations
import json, random, time
from concurrent.futures import ThreadPoolExecutor
from pathlib import Path
from ..common import Reporter, model_check, expect_violation, emit_graph
from ..evidence import Evidence
from .. import trace as T, tlc
from ..adapters import mol2text as A

PROP = "C07"
WORKERS = 4

# Defects of the pinned tree that cannot be repaired by a small patch would be listed here and downgraded to a
# KNOWN-FINDING line for exactly their signature (event that no step of the spec explains + clauses that reject it
# [+ kind]).  Both defects found so far have small repairs (.work/fixes/C07-*.patch), so nothing is downgraded.
KNOWN: dict = {
    # "C07-example": {"id": "C07-example", "signature": {"event": "write2", "clauses": ["TextFixedPoint"]}, "what": "..."},
}

CLAUSES = ("WriteSucceeds", "Accepted", "ConformersPreserved", "NamePreserved", "AtomsPreserved", "LabelsPreserved",
           "CoordsPreserved", "ChargesPreserved", "BondsPreserved", "TextFixedPoint", "ReadStable", "RereadSame")
TYPING_CLAUSES = ("AtomTyping", "BondTyping")
MC_ACTIONS = ("Build", "Write", "Read", "Write2", "Read2")
EDIT_ACTIONS = ("PickEdit", "ApplyEdit")

# deviation -> (definition in MCMol2Text, clause(s) it is documented to break)
DEVIATIONS = {
    "RegularShadowsGeometry": ("DevRegular", ("TextFixedPoint",)),          # as found in the pinned tree
    "StructDumpsRecursion": ("DevRecursion", ("WriteSucceeds",)),           # as found in the pinned tree
    "LonePairAsLP": ("DevLP", ("Accepted",)),
    "LigandToken": ("DevLigand", ("Accepted",)),
    "DummyLosesElement": ("DevDummy", ("AtomsPreserved",)),
    "AmideAsSingle": ("DevAmide", ("BondsPreserved",)),
    "EndpointShift": ("DevShift", ("BondsPreserved",)),
    "FourDecimals": ("DevFour", ("CoordsPreserved",)),
    "ChargeColumnDropped": ("DevCharge", ("ChargesPreserved",)),
    "LabelTruncated": ("DevLabel", ("LabelsPreserved",)),
    "ConformerOrderLost": ("DevOrder", ("CoordsPreserved", "ChargesPreserved")),
    "NegativeZeroChargeToken": ("DevNegZero", ("TextFixedPoint",)),
    # a reader that types bonds through a cache keyed on (atom pair, token): the second record over a pair stays Single
    "RepeatedPairReadsSingle": ("DevRepeat", ("BondsPreserved", "TextFixedPoint")),         # as found in the pinned tree (`c or 0.0`)
    # a writer that remembers tokens per bond / atom object re-emits them after the object was edited
    "StaleBondTokenCache": ("DevStaleBond", ("BondsPreserved",)),
    "StaleAtomTokenCache": ("DevStaleAtom", ("AtomsPreserved",)),
    # a writer that asks the atoms for their index (atom.idx -> atom.parent) instead of the object being written
    "EndpointsViaParentIndex": ("DevParentIdx", ("BondsPreserved", "WriteSucceeds")),
    # a reader whose result for a token depends on what the process did with that token before (memo filled from a
    # pre-typed atom): the read is no longer a function of the text
    "ReaderMemoFromHistory": ("DevMemo", ("TextFixedPoint", "RereadSame", "ReadStable")),
}
EDIT_DEVIATIONS = ("StaleBondTokenCache", "StaleAtomTokenCache", "EndpointsViaParentIndex")   # need the model with edits
PAR_DEVIATIONS = ("RepeatedPairReadsSingle",)                                                  # need parallel bonds
HIST_DEVIATIONS = ("ReaderMemoFromHistory",)                                                   # need History / Reread

_VOC = None


def voc():
    global _VOC
    if _VOC is None:
        _VOC = A.vocab()
    return _VOC


def tla_set(xs):
    return "{" + ", ".join(json.dumps(x) for x in xs) + "}"


def voc_consts():
    return {k: tla_set(v) for k, v in voc().items()}


MODELS = {
    # every element x atom type x geometry triple as a one-atom molecule
    "typing": dict(Kinds="<- K1", Names="<- Names1", AtomPool="<- AllTriples", BondPool="<- NoBonds", MaxAtoms=1, MaxBonds=0,
                   MaxConfs=1),
    # all structures of <= 2 atoms from 5 atom recipes, <= 1 bond of every bond type (both directions), <= 2 conformers
    "small": dict(Kinds="<- K3", Names="<- Names2", AtomPool="<- PoolS", BondPool="<- BondTypes", MaxAtoms=2, MaxBonds=1,
                  MaxConfs=2),
    # thorough: <= 3 atoms, <= 1 bond of every type, <= 3 conformers
    "medium": dict(Kinds="<- K3", Names="<- Names1", AtomPool="<- PoolS", BondPool="<- BondTypes", MaxAtoms=3, MaxBonds=1,
                   MaxConfs=3),
    # thorough: 3 atom recipes, <= 3 atoms, <= 3 bonds of 3 types
    "bonds": dict(Kinds="<- K3", Names="<- Names1", AtomPool="<- PoolT", BondPool="<- BondsM", MaxAtoms=3, MaxBonds=3,
                  MaxConfs=2),
    # deviation runs
    "dev": dict(Kinds="<- K3", Names="<- Names1", AtomPool="<- PoolD", BondPool="<- BondsD", MaxAtoms=3, MaxBonds=1,
                MaxConfs=2),
    # generation by random walks
    "gen": dict(Kinds="<- K3", Names="<- Names4", AtomPool="<- PoolL", BondPool="<- BondTypes", MaxAtoms=4, MaxBonds=4,
                MaxConfs=3),
}


NO_EDITS = dict(MaxPar=1, MaxEdits=0, EditBonds="<- NoBonds", EditPhases="<- NoPhase", AliasPick="<- NoBonds", WithHistory="FALSE")
# history independence: unrelated API calls (History, once, in any phase) and a second read of the same text (Reread)
MODELS["hist"] = dict(Kinds="<- K3", Names="<- Names1", AtomPool="<- PoolS", BondPool="<- BondsM", MaxAtoms=2, MaxBonds=1,
                      MaxConfs=2, WithHistory="TRUE")
# build, write, read, write, read, then ONE edit of the same object (bond re-typed, atom re-typed/re-labelled, atom moved,
# renamed) and the whole cycle again: <= 2 atoms from 3 recipes, <= 1 bond of 3 types, <= 2 conformers, 3 kinds, 2 names
MODELS["edit"] = dict(Kinds="<- K3", Names="<- Names2", AtomPool="<- PoolT", BondPool="<- BondsM", MaxAtoms=2, MaxBonds=1,
                      MaxConfs=2, MaxEdits=1, EditBonds="<- EditB", EditPhases="<- AfterCycle", AliasPick="<- AliasTwo")
# parallel bonds: two atoms, every sequence of <= 2 bonds over the one pair (both directions, 8 types incl. ar/am/du/un/nc and
# one mol2 cannot express), Molecule / Structure / ConformerEnsemble
MODELS["par"] = dict(Kinds="<- K3", Names="<- Names1", AtomPool="<- PoolOne", BondPool="<- BondsP", MaxAtoms=2, MaxBonds=2,
                     MaxConfs=2, MaxPar=2)
MODELS["gen"].update(MaxPar=2, MaxEdits=3, EditBonds="<- BondTypes", EditPhases="<- AfterWrite", AliasPick="<- AliasModes")


def mc_cfg(model, dev="DevNone"):
    c = {**voc_consts(), **NO_EDITS, **MODELS[model], "XyzSeq": "<- Xyz", "QSeq": "<- Qs", "Deviations": f"<- {dev}"}
    return dict(spec="Spec", constants=c, invariants=CLAUSES, view="View")


def trace_cfg(clauses="<- AllClauses"):
    c = {**voc_consts(), "Kinds": "<- Empty", "Names": "<- Empty", "AtomPool": "<- Empty", "BondPool": "<- Empty",
         "MaxAtoms": 0, "MaxBonds": 0, "MaxConfs": 0, "MaxPar": 0, "MaxEdits": 0, "EditBonds": "<- Empty", "EditPhases": "<- Empty", "AliasPick": "<- Empty", "WithHistory": "FALSE",
         "XyzSeq": "<- NoSeq", "QSeq": "<- NoSeq", "Deviations": "<- Empty",
         "Clauses": clauses}
    return dict(spec="TraceSpec", constants=c)


# --------------------------------------------------------------------------------------------- M: model checking
def model_jobs(tier):
    jobs = [("mc", "typing", "Mol2Text: every element x atom type x geometry triple through Write/Read/Write/Read", 3),
            ("mc", "small", "Mol2Text: all bounded structures (<=2 atoms, every bond type, <=2 conformers, 3 kinds)", 1),
            ("mc", "edit", "Mol2Text: full cycle, every single edit of the same object, full cycle again (<=2 atoms, <=1 bond)", 2)]
    jobs.append(("mc", "par", "Mol2Text: parallel bonds - every sequence of <=2 bonds over one atom pair (both directions, 8 types)", 1))
    jobs.append(("mc", "hist", "Mol2Text: History (unrelated API calls) at any point + the same text read again (<=2 atoms, <=1 bond)", 1))
    if tier == "thorough":
        jobs += [("mc", "medium", "Mol2Text: all bounded structures (<=3 atoms, <=1 bond of every type, <=3 conformers)", 4),
                 ("mc", "bonds", "Mol2Text: all bounded structures (<=3 atoms, <=3 bonds of 3 types, <=2 conformers)", 4)]
    jobs += [("dev", name, None, 1) for name in DEVIATIONS]
    return jobs


def run_model_job(job):
    kind, name, role, workers = job
    if kind == "mc":
        ev = Evidence(PROP, "x", 0)
        acts = MC_ACTIONS + (("AddConf",) if name != "typing" else ()) + (EDIT_ACTIONS if name == "edit" else ()) \
            + (("History", "Reread") if name == "hist" else ())
        r = model_check(ev, "MCMol2Text", mc_cfg(name), role=role, tag="c07mc", workers=workers, timeout=1500,
                        require_actions=acts)
        return job, r
    dname, clauses = DEVIATIONS[name]
    r = expect_violation("MCMol2Text", mc_cfg("edit" if name in EDIT_DEVIATIONS else "hist" if name in HIST_DEVIATIONS else "par" if name in PAR_DEVIATIONS else "dev", dname), clauses, tag="c07dev",
                         workers=workers)
    if r.violated not in clauses:
        raise tlc.MachineryError(f"deviation {name}: TLC reported {r.violated}, documented clause(s) {clauses}")
    return job, r


# --------------------------------------------------------------------------------------------- B: cases
def generate(ev, tier, seed):
    """Objects generated by TLC: random walks over New/AddAtom/Connect/AddConf/Build of Mol2Text (bounds 'gen')."""
    runs = [(520, seed)] if tier == "quick" else [(5000, seed * 4 + i) for i in range(4)]
    cfg = mc_cfg("gen")

    def one(a):
        n, s = a
        return emit_graph(ev, "MCMol2Text", cfg, role=f"generation of objects: {n} random walks of the Build actions (seed {s})",
                          tag="c07gen", simulate=f"num={n}", depth=20, seed=s, timeout=900)
    with ThreadPoolExecutor(4) as ex:
        out = list(ex.map(one, runs))
    seen, cases = set(), []
    for edges in out:
        walks, cur = [], None
        for e in edges:
            # one walk at a time (workers 1).  A walk prints its build line, then for each edit it takes the line of
            # ApplyEdit (a single successor; TLC may print it more than once), numbered by n = edits made so far
            if e.get("act") == "build":
                cur = {"src": "rec", "rec": e["rec"], "obj": e["obj"], "edits": [], "obj2": None}
                walks.append(cur)
            elif e.get("act") == "edit" and cur is not None:
                if e["n"] == len(cur["edits"]) + 1:
                    cur["edits"].append(e["op"])
                    cur["obj2"] = e["obj"]    # the object after all edits so far, as the spec computed it
                elif not (e["n"] == len(cur["edits"]) and e["op"] == cur["edits"][-1] and e["obj"] == cur["obj2"]):
                    raise tlc.MachineryError(f"generation: unexpected edit line {json.dumps(e)[:300]}")
        for c in walks:
            k = json.dumps([c["rec"], c["edits"]], sort_keys=True)
            if k not in seen:
                seen.add(k)
                cases.append(c)
    return cases


FILES_QUICK = ("benzene", "dmf", "dummy", "propyne", "dimethyl_sulfone", "pentane_confs")
FILE_SIZE_CAP = 400_000


def file_cases(tier):
    import molli as ml
    d = Path(ml.__file__).resolve().parent / "files"
    cases, skipped = [], []
    for p in sorted(d.glob("*.mol2")):
        size = p.stat().st_size
        if size == 0 or size > FILE_SIZE_CAP or (tier == "quick" and p.stem not in FILES_QUICK):
            if tier != "quick":
                skipped.append(f"{p.name} ({size} bytes)")
            continue
        multi = p.read_text().count("@<TRIPOS>MOLECULE") > 1
        kinds = ["Ens"] if multi else (["Mol", "Struct"] if (tier == "thorough" or p.stem in ("benzene", "dummy")) else ["Mol"])
        for k in kinds:
            cases.append({"src": "file", "file": p.name, "as": k})
    return cases, skipped


NEGZERO_CHARGES = (-0.0, -0.0003, 0.0003, -0.00049999, 0.00049999, -0.0005001, 0.0)


def negzero_cases():
    """Harness-built objects whose partial charges round to zero from below / above, and -0.0 itself (a float the integer
    charge pool of the spec cannot hold).  Their traces are validated like every other trace."""
    return [{"src": "negzero", "as": k} for k in ("Mol", "Ens")]


def realise(case):
    """case -> real molli object."""
    if case["src"] == "rec":
        return A.build(case["rec"], case["obj"])
    if case["src"] == "negzero":
        import numpy as np
        import molli as ml
        n = len(NEGZERO_CHARGES)
        m = ml.Molecule([ml.Atom("C", label=f"C{i + 1}") for i in range(n)], name="charges near zero")
        m.coords = np.array([[float(i), -0.0, -4e-8] for i in range(n)])
        m.atomic_charges = list(NEGZERO_CHARGES)
        if case["as"] == "Mol":
            return m
        e = ml.ConformerEnsemble(m, n_conformers=2)
        e.coords = np.array([m.coords, m.coords + 1.0])
        e.atomic_charges = np.array([list(NEGZERO_CHARGES), list(NEGZERO_CHARGES)[::-1]])
        return e
    import molli as ml
    p = Path(ml.__file__).resolve().parent / "files" / case["file"]
    cls = {"Mol": ml.Molecule, "Struct": ml.Structure, "Ens": ml.ConformerEnsemble}[case["as"]]
    return cls.load_mol2(str(p))


def case_traces(ci, case, routes=("loads", "loads_all"), hist=None):
    """Real calls for one case; returns [(trace, meta)], number of molli calls, one sample text, the last real object."""
    out, calls, text, o = [], 0, None, None
    for route in routes:
        o = realise(case)
        edit = (case["edits"], case["obj2"]) if route == "loads" and case.get("edits") else None
        ev, n, t = A.run_case(o, route, edit, hist)
        if case["src"] == "rec" and ev[0]["obj"] != case["obj"]:
            raise tlc.MachineryError("harness: the object built from a TLC recipe is not the object the spec describes:\n"
                                     + json.dumps({"spec": case["obj"], "built": ev[0]["obj"]})[:1500])
        ed = [e for e in ev if e["ev"] == "edit"]
        if ed and ed[0]["obj"] != case["obj2"]:
            raise tlc.MachineryError("harness: the edited object is not the object the spec's Edit actions describe:\n"
                                     + json.dumps({"ops": case["edits"], "spec": case["obj2"], "edited": ed[0]["obj"]})[:1500])
        calls += n
        text = text or t
        out.append(({"tid": f"c{ci}-{route}", "ev": ev}, {"case": ci, "route": route}))
    return out, calls, text, o


def typing_traces():
    traces, calls, rows = [], 0, []
    v = voc()
    for el in v["Elements"]:
        for at in v["AtomTypes"]:
            evs, n = A.typing_row(el, at)
            calls += n
            traces.append({"tid": f"t-{el}-{at}", "ev": evs})
            rows += evs
    evs, n = A.bond_rows()
    traces.append({"tid": "t-bonds", "ev": evs})
    return traces, calls + n, rows, evs


# --------------------------------------------------------------------------------------------- verdicts
def modeldiffs(results):
    out = set()
    for r in results:
        for line in r.stdout.splitlines():
            if line.startswith('<<"MODELDIFF"'):
                out.add(line.strip())
    return sorted(out)


def diagnose(traces, clauses):
    """Ask TLC which clause(s) reject each of the given (already rejected) traces: one validation per single clause."""
    res = {t["tid"]: [] for t in traces}

    def one(cl):
        v, _ = T.validate("Mol2TextTrace", traces, trace_cfg(tla_set([cl])), par=1, tag="c07dg")
        return cl, v
    with ThreadPoolExecutor(WORKERS) as ex:
        for cl, v in ex.map(one, clauses):
            for tid, (verdict, l) in v.items():
                if verdict != "ACCEPT":
                    res[tid].append((cl, l))
    return res


def clauses_at(diag, tid, l):
    """clauses that reject the trace at event l itself (a clause that only rejects a later event is not listed)"""
    return sorted(c for c, ll in diag.get(tid, []) if ll == l)


def _repeats(bonds, same_type):
    seen = set()
    for b in bonds:
        k = (frozenset((b["a"], b["b"])), b["bt"] if same_type else None)
        if k in seen:
            return True
        seen.add(k)
    return False


def known_match(sig):
    for k in KNOWN.values():
        if all(sig.get(a) == b for a, b in k["signature"].items()):
            return k
    return None


def event_at(trace, l):
    return trace["ev"][l - 1] if l and 0 < l <= len(trace["ev"]) else None


def brief(e):
    s = json.dumps(e, separators=(",", ":"))
    return s if len(s) <= 420 else s[:420] + "..."


def report_rejected(rep, bad, tmap, meta, cases, tier, seed, typing):
    """bad: [(tid, l)].  Group by signature, let TLC name the rejecting clauses for one representative per group."""
    groups = {}
    for tid, l in bad:
        e = event_at(tmap[tid], l) or {}
        if typing:
            key = (e.get("ev"), e.get("tok", {}).get("suf") if isinstance(e.get("tok"), dict) else e.get("tok"), e.get("at") if e.get("at") == "Regular" else "*")
        else:
            c = cases[meta[tid]["case"]]
            kind = c["obj"]["kind"] if c["src"] == "rec" else c["as"]
            key = (e.get("ev"), kind, c["src"])
        groups.setdefault(key, []).append((tid, l))
    reps = [v[0] for v in list(groups.values())[:12]]
    diag = diagnose([tmap[tid] for tid, _ in reps], TYPING_CLAUSES if typing else CLAUSES) if reps else {}
    for (key, members), (tid, l) in zip(list(groups.items())[:12], reps):
        e = event_at(tmap[tid], l) or {}
        cl = clauses_at(diag, tid, l)
        sig = {"event": e.get("ev"), "clauses": cl}
        if not typing:
            sig["kind"] = key[1]
        k = known_match(sig)
        what = (f"{len(members)} trace(s) like {tid}: no step of Mol2Text explains event {l} ({e.get('ev')}); "
                f"clause(s) rejecting it: {', '.join(cl) or '?'}; event: {brief(e)}")
        if k:
            rep.known(k["id"], k["what"] + f" [{len(members)} traces]")
            continue
        payload = {"tier": tier, "seed": seed, "stuck_at": l, "clauses": cl, "signature": sig, "similar": len(members)}
        if typing:
            payload.update({"what": "typing", "tid": tid, "events": tmap[tid]["ev"][max(0, l - 1):l]})
        else:
            c = cases[meta[tid]["case"]]
            payload.update({"what": "structure", "case": c, "route": meta[tid]["route"]})
            tr = tmap[tid]["ev"]
            if len(json.dumps(tr)) < 60000:
                payload["trace"] = tr
        rep.violation("mol2-typing" if typing else "mol2-trace", payload, what=what)


# --------------------------------------------------------------------------------------------- binding self-test
def _c(a, f):
    return {"a": a, "f": f}


def selftest_cases():
    """Two fixed objects (none of them touches a defect of the pinned tree) in the shapes MCMol2Text.Emit prints."""
    atoms = [{"el": "C", "at": "Regular", "g": "Unknown", "lab": "C1"}, {"el": "N", "at": "N_Amide", "g": "R3_Planar", "lab": "Nam"},
             {"el": "O", "at": "sp2", "g": "Unknown", "lab": ""}]
    bonds = [{"a": 2, "b": 1, "bt": "Amide"}, {"a": 1, "b": 3, "bt": "Double"}]
    nb = [{"a": 1, "b": 2, "bt": "Amide"}, {"a": 1, "b": 3, "bt": "Double"}]
    x1 = [[_c(1, 2345678), _c(-2, -5000004), _c(0, 0)], [_c(0, -4), _c(12, 47), _c(3, 3000000)], [_c(7, 7777777), _c(0, 1), _c(-1, -1)]]
    x2 = [[_c(2, 2345678), _c(-1, -5000004), _c(1, 0)], [_c(1, 4), _c(13, 47), _c(4, 3000000)], [_c(8, 7777777), _c(1, 1), _c(0, -1)]]
    blk = lambda xyz, q: {"name": "self test", "atoms": atoms, "xyz": xyz, "q": q, "bonds": nb}
    rec = {"kind": "Mol", "name": "self test", "atoms": atoms, "bonds": bonds, "nconf": 1}
    return [{"src": "rec", "rec": rec, "obj": {"kind": "Mol", "blocks": [blk(x1, [12345, -100060, 0])]}},
            {"src": "rec", "rec": {**rec, "kind": "Ens", "nconf": 2},
             "obj": {"kind": "Ens", "blocks": [blk(x1, [12345, -100060, 0]), blk(x2, [200000, 99949, 40])]}}]


def binding_selftest(ev, rep):
    """DESIGN 5.3: alter one recorded field of an accepted trace (or drop an event); TLC must reject the trace at that
    event.  A mutant that is accepted means the trace specification does not bind that field: machinery failure."""
    import copy
    mol, ens = selftest_cases()
    ed = json.loads(json.dumps(mol["obj"]))
    ed["blocks"][0]["bonds"][0]["bt"] = "Double"
    ed["blocks"][0]["atoms"][2].update(el="S", at="O_Sulfone", g="R4_Tetrahedral", lab="S1")
    mol = {**mol, "obj2": ed, "edits": [{"op": "alias", "mode": "promol", "atoms": [3, 1]}, {"op": "bond", "i": 1, "bt": "Double"},
                                        {"op": "atom", "i": 3, "el": "S", "at": "O_Sulfone", "g": "R4_Tetrahedral", "lab": "S1"}]}
    hist = {"where": ("before_read", "before_reread"), "rnd": random.Random(1), "prev": None}
    base_m = case_traces("selfM", mol, routes=("loads",), hist=hist)[0][0][0]
    assert [e["ev"] for e in base_m["ev"]] == ["build", "write", "history", "read", "history", "reread", "write2", "read2",
                                               "edit", "write", "read"], [e["ev"] for e in base_m["ev"]]
    base_e = case_traces("selfE", ens, routes=("loads",))[0][0][0]
    base_t = {"tid": "selfT", "ev": A.typing_row("N", "N_Amide")[0]}
    muts = []

    def ix(evs, name, nth=1):
        return [k for k, e in enumerate(evs) if e["ev"] == name][nth - 1]

    def mut(base, name, where, fn, shift=0):
        """where = (event name, nth): fn(events, index of that event); the mutant must be rejected at that event (+shift)"""
        t = copy.deepcopy(base)
        k = ix(t["ev"], *where) if isinstance(where, tuple) else where
        fn(t["ev"], k)
        t["tid"] = f"mut-{name}"
        muts.append((t, k + 1 + shift))
    blk = lambda e, k: e[k]["res"]["blocks"][0]
    R1, W2, R2, RR, ED, R3 = ("read", 1), ("write2", 1), ("read2", 1), ("reread", 1), ("edit", 1), ("read", 2)
    mut(base_m, "coord+2e-6", R1, lambda e, k: blk(e, k)["xyz"][0][0].__setitem__("f", blk(e, k)["xyz"][0][0]["f"] + 20))
    mut(base_m, "charge+1.5e-3", R1, lambda e, k: blk(e, k)["q"].__setitem__(0, blk(e, k)["q"][0] + 150))
    mut(base_m, "element", R1, lambda e, k: blk(e, k)["atoms"][1].__setitem__("el", "P"))
    mut(base_m, "label", R1, lambda e, k: blk(e, k)["atoms"][0].__setitem__("lab", "C2"))
    mut(base_m, "atoms-swapped", R1, lambda e, k: blk(e, k)["atoms"].reverse())
    mut(base_m, "bond-endpoint", R1, lambda e, k: blk(e, k)["bonds"][0].__setitem__("b", 3))
    mut(base_m, "bond-type", R1, lambda e, k: blk(e, k)["bonds"][0].__setitem__("bt", "Single"))
    mut(base_m, "bond-dropped", R1, lambda e, k: blk(e, k)["bonds"].pop())
    mut(base_m, "name", R1, lambda e, k: blk(e, k).__setitem__("name", "self  test"))
    mut(base_m, "read-raises", R1, lambda e, k: e[k].__setitem__("res", {"out": "raise", "blocks": []}))
    mut(base_m, "write-raises", ("write", 1), lambda e, k: e[k].__setitem__("res", {"out": "raise", "blocks": []}))
    mut(base_m, "text2-type-token", W2, lambda e, k: blk(e, k)["atoms"][1]["tok"].__setitem__("suf", "pl3"))
    mut(base_m, "text2-charge", W2, lambda e, k: blk(e, k)["atoms"][0]["q"].__setitem__("v", blk(e, k)["atoms"][0]["q"]["v"] + 100))
    mut(base_m, "text2-negative-zero-charge", W2, lambda e, k: blk(e, k)["atoms"][2]["q"].__setitem__("nz", 1))
    mut(base_m, "text2-negative-zero-coordinate", W2, lambda e, k: blk(e, k)["atoms"][0]["xyz"][2].__setitem__("nz", 1))
    mut(base_m, "read2-geometry", R2, lambda e, k: blk(e, k)["atoms"][1].__setitem__("g", "Unknown"))
    mut(base_m, "read-event-dropped", R1, lambda e, k: e.pop(k), shift=1)   # the history event that follows is a stutter
    # history independence: the same text read again after unrelated calls must give the same typed atoms
    mut(base_m, "reread-atom-type-differs", RR, lambda e, k: blk(e, k)["atoms"][0].__setitem__("at", "Aromatic"))
    mut(base_m, "reread-geometry-differs", RR, lambda e, k: blk(e, k)["atoms"][1].__setitem__("g", "R4_Tetrahedral"))
    mut(base_m, "reread-raises", RR, lambda e, k: e[k].__setitem__("res", {"out": "raise", "blocks": []}))
    # after the edit of the same object: what a stale per-object cache in the writer would make the reader return
    mut(base_m, "stale-bond-type-after-edit", R3, lambda e, k: blk(e, k)["bonds"][0].__setitem__("bt", "Amide"))
    mut(base_m, "stale-element-after-edit", R3, lambda e, k: blk(e, k)["atoms"][2].__setitem__("el", "O"))
    mut(base_m, "stale-label-after-edit", R3, lambda e, k: blk(e, k)["atoms"][2].__setitem__("lab", "O"))
    mut(base_m, "foreign-endpoint-after-alias", R3, lambda e, k: blk(e, k)["bonds"][1].__setitem__("a", 2))
    mut(base_m, "edit-event-object-falsified", ED, lambda e, k: e[k]["obj"]["blocks"][0]["atoms"].reverse(), shift=2)
    mut(base_m, "edit-event-dropped", ED, lambda e, k: e.pop(k))
    mut(base_e, "conformers-swapped", R1, lambda e, k: e[k]["res"]["blocks"].reverse())
    mut(base_e, "conformer-lost", R1, lambda e, k: e[k]["res"]["blocks"].pop())
    mut(base_t, "typing-token2", 6, lambda e, k: e[k]["tok2"].__setitem__("suf", ""))
    mut(base_t, "typing-element", 6, lambda e, k: e[k]["res"].__setitem__("el", "C"))
    mut(base_t, "typing-rejected", 6, lambda e, k: e[k]["res"].__setitem__("out", "raise"))
    assert base_t["ev"][6]["g"] == "R3_Planar" and base_t["ev"][6]["tok"]["suf"] == "am", base_t["ev"][6]
    v, res = T.validate("Mol2TextTrace", [base_m, base_e, base_t] + [m for m, _ in muts], trace_cfg(), par=1, tag="c07st")
    bases_ok = all(v[t["tid"]][0] == "ACCEPT" for t in (base_m, base_e, base_t))
    if not bases_ok:
        rep.note("binding self-test skipped: its base traces are not accepted on this tree (reported below as violations)")
        return {"skipped": True}
    wrong = [(m["tid"], at, v[m["tid"]]) for m, at in muts if v[m["tid"]] != ("STUCK", at)]
    if wrong:
        raise tlc.MachineryError(f"binding self-test: mutated traces not rejected at the mutated event: {wrong}")
    ev.cov["tlc_runs"].append({"role": "binding self-test: mutated traces rejected at the mutated event", "mutants": len(muts),
                               "wall_s": round(sum(r.wall_s for r in res), 2)})
    return {"mutants": [m["tid"] for m, _ in muts], "all_rejected_at_mutated_event": True}


# --------------------------------------------------------------------------------------------- worker processes
def distinct_token_items():
    """one (el, at, g) per distinct token molli emits (emission only: nothing is interpreted in this process)"""
    from molli.chem.atom import Element, AtomType, AtomGeom, Atom
    seen, items = set(), []
    for e in Element:
        for t in AtomType:
            for g in AtomGeom:
                try:
                    tok = Atom(e, atype=t, geom=g).get_mol2_type()
                except Exception:
                    tok = None
                if tok not in seen:
                    seen.add(tok)
                    items.append([e.symbol, t.name, g.name])
    return items


def spawn(doc):
    import subprocess, sys
    wd = tlc.workdir("c07w")
    (wd / "in.json").write_text(json.dumps(doc))
    p = subprocess.Popen([sys.executable, "-m", "mbv.adapters.mol2text_worker", str(wd / "in.json"), str(wd / "out.json")],
                         stdout=subprocess.PIPE, stderr=subprocess.STDOUT, text=True)
    return p, wd


def collect(handle, timeout=1500):
    import shutil, subprocess
    p, wd = handle
    try:
        try:
            out, _ = p.communicate(timeout=timeout)
        except subprocess.TimeoutExpired:
            p.kill()
            raise tlc.MachineryError("C07 worker process timed out")
        if p.returncode != 0:
            raise tlc.MachineryError(f"C07 worker process failed (rc={p.returncode}):\n{out[-2500:]}")
        return json.loads((wd / "out.json").read_text())
    finally:
        shutil.rmtree(wd, ignore_errors=True)


# --------------------------------------------------------------------------------------------- run
def run(tier, seed, replay_path):
    if replay_path:
        return do_replay(replay_path)
    ev = Evidence(PROP, tier, seed)
    rep = Reporter(PROP, ev)
    t0 = time.time()
    # M runs in the background while the real code is exercised
    pool = ThreadPoolExecutor(WORKERS)
    futs = [pool.submit(run_model_job, j) for j in model_jobs(tier)]
    try:
        # ---- B1': one triple per distinct emitted token goes to a FRESH process, where the token is first interpreted
        #      on already-typed atoms (history) and only then on a fresh atom
        th = spawn({"job": "typing_history", "seed": seed, "items": distinct_token_items()})
        # ---- B2: structures generated by TLC + bundled files, executed in fresh worker processes (own call orders),
        #      with history calls / re-reads interleaved
        cases = generate(ev, tier, seed)
        fcases, skipped = file_cases(tier)
        cases += fcases + negzero_cases()
        indexed = list(enumerate(cases))
        handles = [spawn({"job": "cases", "seed": seed * 100 + w, "items": indexed[w::WORKERS]}) for w in range(WORKERS)]
        # ---- B1: typing table of the real code in this process, every triple and every bond type, fresh atoms only
        ttraces, tcalls, trows, brows = typing_traces()
        straces, meta, scalls, samples = [], {}, 0, []
        for h in handles:
            doc = collect(h)
            scalls += doc["calls"]
            samples += doc["samples"]
            for t, m in doc["traces"]:
                straces.append(t)
                meta[t["tid"]] = m
        doc = collect(th)
        htraces, hcalls = doc["traces"], doc["calls"]
        ttraces += htraces
        tcalls += hcalls
        t_real = time.time() - t0
        # ---- TLC validates everything
        tv, tres = T.validate("Mol2TextTrace", ttraces, trace_cfg(), chunk=650, par=WORKERS, tag="c07tt")
        sv, sres = T.validate("Mol2TextTrace", straces, trace_cfg(), chunk=400 if tier == "quick" else 1500, par=WORKERS,
                              tag="c07ts")
        selftest = binding_selftest(ev, rep)
        mres = [f.result() for f in futs]
    finally:
        pool.shutdown(wait=True, cancel_futures=True)
    for (kind, name, role, _w), r in mres:
        if kind == "mc":
            ev.add_tlc(r, role)
    ev.cov["tlc_runs"].append({"role": "deviations caught by TLC (non-vacuity)",
                               "caught": {n: r.violated for (k, n, _r, _w), r in mres if k == "dev"}})
    for nm, res in (("typing", tres), ("structures", sres)):
        ev.cov["tlc_runs"].append({"role": f"trace validation ({nm})", "module": "Mol2TextTrace", "batches": len(res),
                                   "generated": sum(r.generated for r in res), "wall_s": round(sum(r.wall_s for r in res), 2)})
        ev.cov["states"] += sum(r.distinct for r in res)
        ev.cov["transitions"] += sum(r.generated for r in res)
    # ---- verdicts
    tmap = {t["tid"]: t for t in ttraces}
    tbad = sorted((tid, v[1]) for tid, v in tv.items() if v[0] != "ACCEPT")
    report_rejected(rep, tbad, tmap, None, None, tier, seed, typing=True)
    smap = {t["tid"]: t for t in straces}
    sbad = sorted((tid, v[1]) for tid, v in sv.items() if v[0] != "ACCEPT")
    report_rejected(rep, sbad, smap, meta, cases, tier, seed, typing=False)
    diffs = modeldiffs(tres)
    # ---- evidence
    nontrivial_rows = sum(1 for e in trows if e["tok"]["suf"] or e["tok"]["pre"] == "Du")
    distinct_tokens = len({(e["tok"]["pre"], e["tok"]["suf"]) for e in trows})
    nontrivial_cases = sum(1 for c in cases if c["src"] != "rec" or c["rec"]["atoms"])
    ev.count(evaluations=tcalls + scalls, distinct_nontrivial=nontrivial_rows + len(brows) + nontrivial_cases,
             traces=len(ttraces) + len(straces))
    ev.set(rule="evaluations = real molli calls (get/set_mol2_type, Bond.get/set_mol2_type, dumps_mol2, loads_mol2, "
                "loads_all_mol2); distinct_nontrivial = element x type x geometry triples whose emitted token carries a "
                "type suffix or is a dummy + bond types + distinct generated objects with at least one atom + bundled files; "
                "every event of every trace is decided by TLC against Mol2TextTrace (contract of Mol2Text)",
           typing={"triples": len(trows), "with_suffix_or_dummy": nontrivial_rows, "distinct_tokens": distinct_tokens,
                   "bond_types": len(brows), "traces": len(ttraces), "rejected_traces": len(tbad),
                   "differences_to_reference_model": len(diffs), "differences_sample": diffs[:5]},
           structures={"generated_objects": sum(1 for c in cases if c["src"] == "rec"),
                       "bundled_file_cases": sum(1 for c in cases if c["src"] == "file"),
                       "bundled_files_skipped": skipped, "routes": ["loads", "loads_all"], "traces": len(straces),
                       "rejected_traces": len(sbad),
                       "by_kind": {k: sum(1 for c in cases if (c["obj"]["kind"] if c["src"] == "rec" else c["as"]) == k)
                                   for k in ("Mol", "Struct", "Ens")}},
           history={"history_events": sum(1 for t in straces for e in t["ev"] if e["ev"] == "history"),
                    "rereads_of_the_same_text": sum(1 for t in straces for e in t["ev"] if e["ev"] == "reread"),
                    "unrelated_calls": sum(e["calls"] for t in straces + htraces for e in t["ev"] if e["ev"] == "history"),
                    "tokens_first_interpreted_on_pretyped_atoms_in_a_fresh_process": sum(
                        1 for t in htraces for e in t["ev"] if e["ev"] == "atype"),
                    "worker_processes": WORKERS + 1},
           parallel_bonds={"objects_with_a_repeated_atom_pair": sum(1 for c in cases if c["src"] == "rec" and _repeats(c["rec"]["bonds"], False)),
                           "of_which_same_type_twice": sum(1 for c in cases if c["src"] == "rec" and _repeats(c["rec"]["bonds"], True))},
           edits={"objects_edited_and_written_again": sum(1 for c in cases if c.get("edits")),
                  "operations": {k: sum(1 for c in cases for o in c.get("edits", []) if o["op"] == k)
                                 for k in ("bond", "atom", "move", "name", "alias")},
                  "alias_modes": {m: sum(1 for c in cases for o in c.get("edits", []) if o["op"] == "alias" and o["mode"] == m)
                                  for m in ("promol", "struct", "dropped", "view")}},
           vocabulary={k: len(v) for k, v in voc().items()},
           exhaustive=False,
           exhaustive_note="typing: every member of Element x AtomType x AtomGeom and of BondType, on the model and on the "
                           "code; structures: exhaustive on the model within the listed bounds, sampled (TLC random walks + "
                           "bundled files) on the code",
           model_bounds={k: {a: str(b) for a, b in MODELS[k].items()} for k in
                         (("typing", "small", "gen") if tier == "quick" else ("typing", "small", "medium", "bonds", "gen"))},
           binding_selftest=selftest, real_calls_wall_s=round(t_real, 1))
    ev.add_samples(samples, 2)
    ev.add_samples([{"typing_trace": ttraces[len(ttraces) // 2]["ev"][:3]}], 1)
    ev.assumptions += [
        "edits are made through public attributes (bond.btype, atom.element/atype/geom/label, coords, atomic_charges, name) "
        "after a complete write/read/write/read cycle; Bond.set_mol2_type is not used for editing (it is @cache-decorated in "
        "the pinned tree: a repeated call with the same token is a no-op, outside this property)",
        "history = calls of molli's public API on objects other than the one under test, made in the same process; state "
        "shared across processes (files, environment) is not varied",
        "scope: whitespace-free labels, one-line names without leading/trailing blanks, finite coordinates |x| < 1e5 A, "
        "at most two bonds over one atom pair (bond lists are sequences: a pair may repeat, in either direction), "
        "ensembles with >= 1 conformer",
        "bond endpoints are compared as an unordered pair; an empty label and a bond type mol2 cannot express are free on "
        "read-back but must be stable in the second cycle",
        "the fixed point is taken over the tokens the property names (name, atom rows: label, x, y, z, type, charge; bond "
        "rows: endpoints, type); numbers are compared by value AND by the sign of a zero token: '-0.000' and '0.000' are "
        "different texts (TextFixedPoint) but the same charge (ChargesPreserved)",
        "coordinates within 1e-6 A and charges within 1e-3 e of the object's values (both round-to-nearest and truncation "
        "to the written precision are accepted)",
        "trusted: TLC, the CommunityModules JSON reader, the harness's 40-line mol2 tokenizer and its float -> fixed-point "
        "conversion (python Decimal, exact)"]
    rep.note(f"typing: {len(trows)} triples + {len(brows)} bond types in {len(ttraces)} traces, {len(tbad)} rejected; "
             f"{len(diffs)} spellings differ from the reference model (information)")
    rep.note(f"edit-then-write-again continuations: {sum(1 for c in cases if c.get('edits'))} objects, "
             f"{sum(len(c.get('edits', [])) for c in cases)} edit operations")
    rep.note(f"structures: {len(cases)} objects ({len(fcases)} from bundled files) x 2 read routes = {len(straces)} traces, "
             f"{len(sbad)} rejected; {tcalls + scalls} real calls")
    return rep.finish()


# --------------------------------------------------------------------------------------------- replay
def do_replay(path):
    doc = json.loads(open(path).read())
    if doc.get("what") == "typing" and doc["tid"].startswith("th-"):
        el = doc["tid"][3:]                                     # history first, then the fresh atom (this process is fresh)
        traces = A.typing_history_rows([i for i in distinct_token_items() if i[0] == el], doc.get("seed", 0))[0]
    elif doc.get("what") == "typing":
        _, el, at = doc["tid"].split("-", 2) if doc["tid"] != "t-bonds" else (None, None, None)
        evs = A.bond_rows()[0] if el is None else A.typing_row(el, at)[0]
        traces = [{"tid": doc["tid"], "ev": evs}]
    else:
        case = doc["case"]
        o = realise(case)
        edit = (case["edits"], case["obj2"]) if doc["route"] == "loads" and case.get("edits") else None
        hist = {"where": ("before_read", "before_reread"), "rnd": random.Random(doc.get("seed", 0)), "prev": None}
        evs, _, text = A.run_case(o, doc["route"], edit, hist)   # a fresh process: unrelated calls first, as in the run
        traces = [{"tid": "replay", "ev": evs}]
        print(text if text and len(text) < 3000 else "(text omitted)")
    v, _ = T.validate("Mol2TextTrace", traces, trace_cfg(), par=1, tag="c07rp")
    bad = [(tid, x[1]) for tid, x in v.items() if x[0] != "ACCEPT"]
    if not bad:
        print("replay: every event is now a step of Mol2Text (trace accepted)")
        return 0
    tid, l = bad[0]
    cl = clauses_at(diagnose(traces, TYPING_CLAUSES if doc.get("what") == "typing" else CLAUSES), tid, l)
    e = event_at(traces[0], l)
    print(json.dumps({"stuck_at": l, "event": e, "rejecting_clauses": cl}, indent=1)[:3000])
    if known_match({"event": (e or {}).get("ev"), "clauses": sorted(cl), "kind": doc.get("signature", {}).get("kind")}):
        print(f"KNOWN-FINDING: property={PROP} (known signature)")
        return 0
    print(f"VIOLATION property={PROP} replay={path}")
    return 1
