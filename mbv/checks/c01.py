"""C01 — library round trip: what is stored in a .mlib/.clib is what is read back.

M : TLC checks LibCodec (reference codec of both schema versions over the MolModel value domain, library = map
    key -> wire tuple, codec chosen by the file's magic, writer + second read-only object) for RoundTrip,
    V1DomainClosed, PutAccepted, CodecByMagic, StoredInSchema over pools of abstract objects that TLC enumerates
    itself; every named deviation must violate.
A : the Put arguments TLC enumerated (the pool, per schema version) are emitted, built as real Molecule /
    ConformerEnsemble objects through the public constructors, stored in real MoleculeLibrary / ConformerLibrary
    files (fresh v2 files and files with the legacy magic) and read back inside the writing session and through a
    second read-only library object.
B : every such session, plus sessions over seeded generated objects (all elements / enum members, arbitrary doubles,
    nested attributes, up to 13 atoms, 0..5 conformers, three construction routes) and - thorough - the objects of
    the bundled libraries re-stored in both formats, is recorded as a trace of abstracted events and validated by
    TLC against LibCodecTrace: the verdict (is the read-back MolModel!Same as what was put?) is TLC's.
"""
from __future__ import annotations
import hashlib, json, random, time
from concurrent.futures import ThreadPoolExecutor
from pathlib import Path
from ..common import Reporter, model_check, expect_violation, emit_graph
from ..evidence import Evidence
from .. import trace as T, tlc
from ..adapters import c01_lib as L

PROP = "C01"
# Defects of the pinned tree that would need a redesign: id -> {"id", "signature", "what"}.  A rejected trace whose
# (kind, ver, ev, out, fields) contains the signature is downgraded to a KNOWN-FINDING line; everything else is a
# VIOLATION.  Empty: the four defects this check found on the pinned tree all have small repairs
# (.work/fixes/C01-*.patch), so nothing is suppressed.
KNOWN: dict = {}


def known_for(sigd):
    for fid, f in KNOWN.items():
        if all(sigd.get(k) == v for k, v in f["signature"].items()):
            return fid, f
    return None

INV = ("CodecByMagic", "StoredInSchema", "KeysAreWritten", "NothingShared")
PROPS = ("RoundTrip", "V1DomainClosed", "PutAccepted")
ACTIONS = ("MakeLegacy", "LegacyPut", "OpenLib", "Put", "Get", "Scribble", "Remove", "Forget")
# deviation -> the clause(s) it is documented to break
DEVIATIONS = {
    "DevV1Ens": ("RoundTrip",),            # pinned tree: v1 ensemble reader without reshape of atomic_charges
    "DevSingle": ("RoundTrip", "PutAccepted"),   # pinned tree: msgpack use_single_float=True
    "DevStrict": ("RoundTrip",),           # pinned tree: default strict_map_key on read
    "DevSwapEnds": ("RoundTrip",),
    "DevSwapWQ": ("RoundTrip",),
    "DevEndian": ("RoundTrip",),
    "DevMagic": ("CodecByMagic", "RoundTrip"),
    "DevMagicAll": ("RoundTrip",),         # both objects ignore the magic: only pre-existing legacy records show it
    "DevFCharge": ("RoundTrip",),
    "DevTranspose": ("RoundTrip",),
    "DevMemo": ("CodecByMagic",),          # the process remembers the version of a PATH across remove / re-create
    "DevMemoRT": ("RoundTrip",),           # ... and then loses v2-only fields / cannot read legacy records
    "DevOverwrite": ("CodecByMagic",),     # pinned tree: overwrite=True on a legacy file keeps the v1 codec for a v2 file
    "DevOverwriteRT": ("RoundTrip",),
    "DevAlias": ("RoundTrip",),            # the library hands the same mutable object out again (read cache)
}
WORKERS = 4


def mc_cfg(pool, keys, dev="DevNone", handles="H3"):
    return dict(spec="Spec", constants={"Pool": f"<- {pool}", "Keys": f"<- {keys}", "Handles": f"<- {handles}",
                                        "Deviations": f"<- {dev}"},
                invariants=INV, properties=PROPS, view="View")


TRACE_CFG = dict(spec="TraceSpec", constants={"Pool": "<- Pool0", "Keys": "<- Keys0", "Handles": "<- H3",
                                              "Deviations": "<- DevNone"},
                 invariants=INV)


def canon(x):
    return json.dumps(x, sort_keys=True, separators=(",", ":"))


# ------------------------------------------------------------------------------------------------ sources of sessions
def pool_sessions(pool, seed, per_lib):
    """TLC's Put arguments -> [(source descriptor)], grouped into libraries of `per_lib` objects."""
    rnd = random.Random(f"{seed}/pool")
    groups, seen = {}, set()
    for p in pool:
        c = (p["ver"], canon(p["x"]))
        if c not in seen:
            seen.add(c)
            groups.setdefault((p["x"]["kind"], p["ver"]), []).append(p["x"])
    out = []
    for (kname, ver), xs in sorted(groups.items()):
        xs = sorted(xs, key=canon)
        rnd.shuffle(xs)
        for i in range(0, len(xs), per_lib):
            out.append({"source": "pool", "kind": L.KINDS[kname], "ver": ver, "objects": xs[i:i + per_lib],
                        "route": rnd.randrange(4)})
    return out


def gen_sessions(seed, n_per, per_lib):
    out = []
    for kind in ("mol", "ens"):
        for ver in (2, 1):
            for s in range(n_per // per_lib):
                out.append({"source": "gen", "kind": kind, "ver": ver, "gen_seed": f"{seed}/{kind}/{ver}/{s}", "n": per_lib})
    return out


def reuse_sessions(seed, n):
    """One path, one process: a library of one format is used (written, read), the file is removed, a library of
    the OTHER format is created at the same path, filled and read back -- by the objects of this process and by a
    fresh process."""
    out = []
    for kind in ("mol", "ens"):
        for ver in (2, 1):
            for s in range(n):
                gs = f"{seed}/reuse/{kind}/{ver}/{s}"
                out.append({"source": "gen", "kind": kind, "ver": ver, "gen_seed": gs, "n": 3, "fresh": True,
                            "before": {"ver": 3 - ver, "gen_seed": gs + "/before", "n": 2}})
    return out


def ctor_sessions(seed, n):
    """Constructor forms x state of the file they meet: no file / a current library / an empty legacy file / a legacy
    file with records (independent encoder; for molecules also genuine records of a bundled legacy library), each
    with and without overwrite=True; then store -> close -> fresh library objects (this process and a new one) read.
    The version a fresh object detects must be the version the records were written in."""
    import molli as ml
    raw = Path(ml.__file__).parent / "files" / "tiny_test_bpa_raw_conf.mlib"
    out = []
    for kind in ("mol", "ens"):
        for pre_ver in (0, 2, 1):
            for ow in (False, True):
                for s in range(n):
                    gs = f"{seed}/ctor/{kind}/{pre_ver}/{int(ow)}/{s}"
                    ver = 2 if (ow or pre_ver == 0) else pre_ver          # the format of the file the writer ends up with
                    pre = {"ver": pre_ver, "gen_seed": gs + "/pre", "n": (0 if s == 0 else 2)}   # s = 0: empty file
                    if kind == "mol" and pre_ver == 1 and s == n - 1 and raw.is_file() and raw.stat().st_size:
                        pre["raw_file"] = str(raw)
                    out.append({"source": "gen", "kind": kind, "ver": ver, "gen_seed": gs, "n": 2, "fresh": True,
                                "pre": pre, "overwrite": ow})
    return out


def bundled_sessions(seed, limit):
    """objects of the bundled libraries (two legacy files, two current ones), re-stored in both formats"""
    import molli as ml
    rnd = random.Random(f"{seed}/bundled")
    out = []
    for name in ("box_ligands", "cinchonidine", "fletcher_phosphoramidite_cats", "tiny_test_bpa_raw_conf"):
        path = Path(ml.__file__).parent / "files" / f"{name}.mlib"
        if not path.is_file() or path.stat().st_size == 0:
            continue
        lib = ml.MoleculeLibrary(path, readonly=True)
        with lib.reading(timeout=60):
            keys = sorted(lib.keys())
        L.forget(lib)
        rnd.shuffle(keys)
        keys = keys[:limit]
        with open(path, "rb") as f:
            is_legacy = f.read(16).startswith(b"ML10Library")
        for i in range(0, len(keys), 4):
            for ver in (2, 1):
                out.append({"source": "bundled", "kind": "mol", "ver": ver, "file": str(path), "keys": keys[i:i + 4]})
            if is_legacy:
                out.append({"source": "bundled-raw", "kind": "mol", "ver": 1, "file": str(path), "keys": keys[i:i + 4]})
    return out


class BuildMismatch(Exception):
    pass


def materialise(src):
    """source descriptor -> [(key, real object)]"""
    if src["source"] == "pool":
        items = []
        for i, x in enumerate(src["objects"]):
            o = L.build(x, src["route"] + i)
            back = L.abstract(o)
            if canon(back) != canon(x):
                # connect() is only one of the public ways to add a bond; what C01 needs is the object itself
                o = L.build(x, src["route"] + i, bonds_by="append")
                back = L.abstract(o)
            if canon(back) != canon(x):
                raise BuildMismatch("the public constructors do not build the object the specification enumerated: "
                                    + "; ".join(L.explain(x, back)[:4]))
            items.append((L.KEYS[i % len(L.KEYS)], o))
        return items
    if src["source"] == "gen":
        g = L.Gen(src["gen_seed"])
        return [(L.KEYS[(i * 3 + len(src["gen_seed"])) % len(L.KEYS)], g.obj(src["kind"], src["ver"])) for i in range(src["n"])]
    if src["source"] == "bundled":
        import molli as ml
        lib = ml.MoleculeLibrary(src["file"], readonly=True)
        items = []
        with lib.reading(timeout=60):
            for k in src["keys"]:
                try:
                    o = lib[k]
                except Exception as e:      # an unreadable bundled record is reported by the bundled-raw session
                    src["skipped"] = f"{type(e).__name__}: {e}"[:200]
                    continue
                if src["ver"] == 1:
                    # a legacy library carries no formal charges / attributes: restrict the object to the v1 schema
                    for a in o.atoms:
                        a.formal_charge, a.formal_spin, a.attrib = 0, 0, {}
                    for b in o.bonds:
                        b.attrib = {}
                    o.attrib = {}
                items.append((k, o))
        L.forget(lib)
        return items
    if src["source"] == "bundled-raw":
        return []
    raise ValueError(src["source"])


def legacy_records(src, items, rnd):
    """For a legacy file: which objects are already in the file when the library objects are constructed, as
    records written by the harness's independent legacy encoder (or, source bundled-raw, genuine records of a
    bundled legacy library copied byte for byte)."""
    if src["ver"] != 1:
        return items, []
    if src["source"] == "bundled-raw":
        from molli.storage.ukvfile import UKVFile
        with UKVFile(src["file"], "r") as u:
            return [], [(k, u.get(k.encode())) for k in src["keys"]]
    puts, legacy = [], []
    for k, o in items:
        if rnd.random() < 0.4:
            legacy.append((k, L.legacy_encode(L.abstract(o), single_float_orders=rnd.random() < 0.5)))
        else:
            puts.append((k, o))
    return puts, legacy


def run_sessions(sources, seed, mutate=None):
    """-> traces, meta, number of real calls, problems.  An exception of the code under test while an input is built
    or a session is run (a constructor that raises, a hang) is a problem of THAT session, reported as a violation
    with a replay file; only failures of the machinery itself (TLC, the harness) abort the run with exit 2."""
    lab = L.LibLab()
    traces, meta, problems = [], {}, []
    try:
        for i, src in enumerate(sources):
            rnd = random.Random(f"{seed}/session/{src.get('sid', i)}")
            try:
                before = None
                if "before" in src:
                    b = {**src, **src["before"]}
                    before = (b["ver"],) + legacy_records(b, materialise(b), rnd)
                pre = None
                if "pre" in src:
                    b = {**src, **src["pre"]}
                    if b.get("raw_file"):
                        from molli.storage.ukvfile import UKVFile
                        with UKVFile(b["raw_file"], "r") as u:
                            pre = (1, [], [(k.decode(), u.get(k)) for k in sorted(u.keys())[:3]])
                    else:
                        pre = (b["ver"],) + (legacy_records(b, materialise(b), rnd) if b["ver"] else ([], []))
                items, legacy = legacy_records(src, materialise(src), rnd)
                if pre is not None:
                    # new keys (the old ones may still be in the file); everything goes through the library object
                    items = [(f"new {j}", o) for j, o in enumerate([o for _, o in items])] + \
                            [(f"new L{j}", L.build(L.legacy_decode(raw, src["kind"]))) for j, (_, raw) in enumerate(legacy)]
                    legacy = []
                ev = lab.session(src["kind"], src["ver"], items, rnd, mutate=mutate, legacy=legacy, before=before,
                                 fresh=bool(src.get("fresh")), pre=pre, overwrite=bool(src.get("overwrite")))
            except tlc.MachineryError:
                raise
            except Exception as e:
                import traceback
                where = traceback.extract_tb(e.__traceback__)[-1]
                problems.append({"source": src, "error": f"{type(e).__name__}: {e}"[:400],
                                 "where": f"{where.filename}:{where.lineno}"})
                continue
            tid = f"t{src.get('sid', i)}-{src['source']}-{src['kind']}-v{src['ver']}" + ("-reuse" if before else "") + \
                  (f"-pre{src['pre']['ver']}{'-ow' if src.get('overwrite') else ''}" if "pre" in src else "")
            traces.append({"tid": tid, "ev": ev})
            meta[tid] = src
        lab.finish_fresh()
    finally:
        lab.cleanup()
    return traces, meta, lab.calls, problems


def report_problems(rep, problems, tier, seed):
    seen = set()
    for pr in problems:
        sig = (pr["source"]["kind"], pr["source"]["ver"], pr["error"].split(":")[0], pr["where"])
        if sig in seen or len(seen) >= 6:
            continue
        seen.add(sig)
        rep.violation("lib-session", {"tier": tier, "seed": seed, "source": pr["source"], "error": pr["error"],
                                      "where": pr["where"]},
                      what=f"session {pr['source'].get('sid')} ({pr['source']['source']}, {pr['source']['kind']}, "
                           f"v{pr['source']['ver']}) could not be carried out: {pr['error']}"[:500])


# ------------------------------------------------------------------------------------------------ verdict handling
def signature(t, l):
    """(kind of failure) of a rejected trace, for de-duplication and the message.  Diagnostics only."""
    e = t["ev"][l - 1] if l and l <= len(t["ev"]) else {"ev": "?"}
    if e["ev"] == "get" and e["out"] == "ok":
        start = max([i + 1 for i, p in enumerate(t["ev"][:l - 1]) if p["ev"] == "remove"] or [0])   # the current file
        prior = t["ev"][start:l - 1]
        w = next((p["x"] for p in reversed(prior) if p["ev"] in ("put", "lput") and p["k"] == e["k"]), None)
        if w is None:
            return ("get", "unknown-key", ()), f"read of a key that was never stored: {e['k']}"
        again = any(p["ev"] == "scribble" and p["k"] == e["k"] and p["h"] == e["h"] for p in prior)
        diffs = L.explain(w, e["x"])
        # the fields that differ, without positions: /atoms[0]/attrib[4] -> atoms.attrib
        import re
        fields = sorted({".".join(re.sub(r"\[\d+\]", "", d.split(":")[0]).strip("/").split("/")[:2]) for d in diffs})
        if again:
            return ("get", "differs-after-edit", ()), ("a second read shows the edits the caller made to the object "
                                                         f"returned by the first read: {'; '.join(diffs[:3])}")
        return ("get", "differs", tuple(fields)[:6]), f"read-back differs: {'; '.join(diffs[:4])}"
    if e["ev"] == "get":
        return ("get", e["out"], (e.get("err", "")[:40],)), f"stored object cannot be read back: {e['out']}: {e.get('err', '')}"
    if e["ev"] == "put":
        return ("put", e["out"], ()), f"object of the schema's domain refused by the library: {e['out']}"
    return (e["ev"], e.get("out", ""), ()), f"no step of LibCodec explains event {l}: {json.dumps(e)[:200]}"


def judge(rep, traces, meta, verdicts, tier, seed):
    bad = {tid: v for tid, v in verdicts.items() if v[0] != "ACCEPT"}
    tmap = {t["tid"]: t for t in traces}
    seen, nrep = {}, 0
    for tid in sorted(bad, key=lambda s: (len(canon(tmap[s]["ev"])), s)):
        l = bad[tid][1]
        t = tmap[tid]
        e = t["ev"][l - 1] if l and l <= len(t["ev"]) else None
        if e and e["ev"] == "put" and e["out"] == "ok":
            raise tlc.MachineryError(f"{tid}: generated input outside the schema's domain or duplicate key at event {l}")
        try:
            sig, what = signature(t, l)
        except Exception as ex:          # diagnostics must never turn TLC's rejection into a machinery error
            sig, what = ((e or {}).get("ev", "?"), "undiagnosed", ()), f"rejected at event {l} (diagnostics failed: {ex!r})"
        k = known_for({"kind": meta[tid]["kind"], "ver": meta[tid]["ver"], "ev": sig[0], "out": sig[1], "fields": list(sig[2])})
        if k:
            rep.known(k[0], k[1]["what"])
            continue
        sig = (meta[tid]["kind"], meta[tid]["ver"]) + sig
        seen[sig] = seen.get(sig, 0) + 1
        if seen[sig] > 1 or nrep >= 10:
            continue
        nrep += 1
        rep.violation("lib-trace", {"tier": tier, "seed": seed, "source": meta[tid], "stuck_at": l,
                                    "event": {k: v for k, v in (e or {}).items() if k != "x"}, "signature": list(map(str, sig))},
                      what=f"{tid}: event {l}: {what}"[:500])
    return bad, seen


# ------------------------------------------------------------------------------------------------ the check
def background_models(ev, pool_exec):
    """The small TLC runs that do not feed the replay (two-key model, nine deviation runs) are started in the
    background and joined before the verdict; they run while the real library sessions are performed."""
    def tiny():
        return model_check(ev, "MCLibCodec", mc_cfg("PoolTiny", "K2"), tag="c01mc", workers=1, require_actions=ACTIONS,
                           role="LibCodec: two keys, writer + second read-only object, legacy and current file")

    def one(dev):
        cfg = mc_cfg("PoolDev", "K1", dev[:-2] if dev.endswith("RT") else dev)
        if dev in ("DevMagicAll", "DevAlias", "DevMemoRT", "DevOverwriteRT"):   # without the structural invariants: the read-back clause itself must catch it
            cfg["invariants"] = ("KeysAreWritten",)
        r = expect_violation("MCLibCodec", cfg, DEVIATIONS[dev], tag="c01dev", workers=1)
        if r.violated not in DEVIATIONS[dev]:
            raise tlc.MachineryError(f"deviation {dev} violated {r.violated}, expected one of {DEVIATIONS[dev]}")
        return dev, r.violated
    return [pool_exec.submit(tiny)] + [pool_exec.submit(one, d) for d in DEVIATIONS]


def check_and_emit(ev, mod, pool_name, workers=1):
    """One TLC run: RoundTrip & co. over the whole pool for both schema versions, and at the same time the Put
    arguments (object, version) are emitted for the spec->code direction.  Each argument is one PrintT line
    (println is atomic, the order of lines is irrelevant); the number of parsed lines is cross-checked."""
    import shutil
    wd = tlc.workdir("c01mc")
    try:
        cfg = tlc.write_cfg(wd / f"{mod}.cfg", **mc_cfg(pool_name, "K1", handles="H2"), action_constraints=("EmitPut",))
        r = tlc.run(mod, cfg, workers=workers, timeout=1500, coverage=True)
    finally:
        shutil.rmtree(wd, ignore_errors=True)
    if r.violated:
        raise tlc.MachineryError(f"model {mod} violates {r.violated} with no deviation enabled:\n" + tlc.counterexample(r.stdout))
    dead = [a for a in ACTIONS if r.coverage.get(a, (0, 0))[1] == 0]
    if dead:
        raise tlc.MachineryError(f"vacuity guard: actions never taken in {mod}: {dead}")
    pool = [x for x in r.printed if isinstance(x, dict) and x.get("act") == "put"]
    nlines = sum(1 for line in r.stdout.splitlines() if line.startswith('"{'))
    if not pool or nlines != len(pool):
        raise tlc.MachineryError(f"Put arguments emitted: {nlines} lines, {len(pool)} parsed")
    ev.add_tlc(r, f"LibCodec: RoundTrip, V1DomainClosed, PutAccepted, CodecByMagic, StoredInSchema over {pool_name} x both "
                  f"schema versions; Put arguments emitted for spec->code ({len(pool)})")
    return pool


def run(tier, seed, replay_path):
    ev = Evidence(PROP, tier, seed)
    rep = Reporter(PROP, ev)
    if replay_path:
        return do_replay(replay_path)
    big = tier == "thorough"
    mod, pool_name = ("MCLibCodecT", "PoolT") if big else ("MCLibCodecQ", "PoolQ")
    t0 = time.time()
    bg_exec = ThreadPoolExecutor(5)
    bg = background_models(ev, bg_exec)
    try:
        pool = check_and_emit(ev, mod, pool_name, workers=WORKERS)
        rep.note(f"LibCodec model checked over {pool_name}; {len(pool)} (object, version) pairs emitted by TLC  [{time.time() - t0:.0f}s]")
        sources = pool_sessions(pool, seed, per_lib=4)
        n_pool = len(sources)
        sources += gen_sessions(seed, n_per=2000 if big else 240, per_lib=4)
        sources += reuse_sessions(seed, n=40 if big else 6)
        sources += ctor_sessions(seed, n=12 if big else 3)
        if big:
            sources += bundled_sessions(seed, limit=60)
        for i, s in enumerate(sources):
            s["sid"] = i
        t1 = time.time()
        traces, meta, calls, problems = run_sessions(sources, seed)
        report_problems(rep, problems, tier, seed)
        rep.note(f"{len(sources)} real library files ({n_pool} from the TLC pool), {calls} put/get calls  [{time.time() - t1:.0f}s]")
        devs = dict(f.result() for f in bg[1:])
        bg[0].result()
    finally:
        bg_exec.shutdown(wait=True, cancel_futures=True)
    ev.set(deviations_caught=devs)
    rep.note(f"two-key model checked; {len(devs)} deviations violate their clause")
    t2 = time.time()
    verdicts, results = T.validate("LibCodecTrace", traces, TRACE_CFG, chunk=400 if big else 180, par=8, tag="c01tr", timeout=1500)
    ev.cov["tlc_runs"].append({"role": "trace validation (LibCodecTrace)", "batches": len(results),
                               "generated": sum(r.generated for r in results), "wall_s": round(time.time() - t2, 1)})
    bad, seen = judge(rep, traces, meta, verdicts, tier, seed)
    # what was really exercised: distinct (written object, version) pairs whose read-back TLC accepted
    distinct, gets = set(), 0
    for t in traces:
        if verdicts[t["tid"]][0] != "ACCEPT":
            continue
        ver = meta[t["tid"]]["ver"]
        for e in t["ev"]:
            if e["ev"] in ("put", "lput"):
                distinct.add(hashlib.sha1((str(ver) + canon(e["x"])).encode()).hexdigest())
            gets += e["ev"] == "get"
    ev.count(evaluations=gets, distinct_nontrivial=len(distinct), traces=len(traces))
    ev.set(rule="one evaluation = one real read-back (lib[k] inside writing() or through a second read-only library "
                "object) that TLC accepted as MolModel!Same as the object put under that key; distinct_nontrivial = "
                "distinct (abstract written object, schema version) pairs among the accepted traces",
           sessions={"pool": n_pool, "generated": sum(s["source"] == "gen" for s in sources),
                     "path_reused": sum("before" in s for s in sources),
                     "constructor_forms": sum("pre" in s for s in sources),
                     "bundled": sum(s["source"].startswith("bundled") for s in sources)},
           pool_objects=len(pool), rejected_traces=len(bad), sessions_not_carried_out=len(problems),
           rejected_signatures={" ".join(map(str, k)): v for k, v in seen.items()}, exhaustive=False)
    acc = [t for t in traces if verdicts[t["tid"]][0] == "ACCEPT"]
    ev.add_samples([[{k: (v if k != "x" else {"kind": v["kind"], "name": v["name"], "natoms": len(v["atoms"]),
                                              "nbonds": len(v["bonds"]), "nconf": v["nconf"]}) for k, v in e.items()}
                     for e in t["ev"][:7]] for t in (acc[:1] + acc[len(acc) // 2:len(acc) // 2 + 1] + acc[-1:])])
    ev.assumptions += [
        "value equality as in DESIGN 3.3: enum members equal their ints, list == tuple inside attributes, NaN == NaN; "
        "-0.0 is named like 0.0",
        "coordinates, partial charges, weights: equal after rounding to float32; fractional bond order and float "
        "attributes: the same double (they are user data, the property lists them under 'same')",
        "the legacy (v1) format is exercised through files whose type field is the legacy magic and through the two "
        "bundled legacy libraries; objects put there keep the fields outside the v1 schema at their defaults",
        "byte layout of the records is free; bounded pools (constants in tlc_runs) + seeded generation beyond them",
    ]
    rep.note(f"{len(traces)} traces validated by TLC, {len(bad)} rejected; {gets} accepted read-backs of {len(distinct)} "
             f"distinct objects  [{time.time() - t2:.0f}s]")
    return rep.finish()


def do_replay(path):
    doc = json.loads(open(path).read())
    traces, meta, _, problems = run_sessions([doc["source"]], doc["seed"])
    if problems:
        print(json.dumps({"error": problems[0]["error"], "where": problems[0]["where"]}, indent=1))
        print(f"VIOLATION property={PROP} replay={path}")
        return 1
    verdicts, _ = T.validate("LibCodecTrace", traces, TRACE_CFG, tag="c01rp")
    (tid, v), = verdicts.items()
    out = {"verdict": v}
    if v[0] != "ACCEPT":
        try:
            out["what"] = signature(traces[0], v[1])[1]
        except Exception as ex:
            out["what"] = f"rejected at event {v[1]} (diagnostics failed: {ex!r})"
    print(json.dumps(out, indent=1))
    if v[0] != "ACCEPT":
        print(f"VIOLATION property={PROP} replay={path}")
        return 1
    print("replay: behaviour now matches the specification")
    return 0
