"""X02 (growth beyond the listed properties, DESIGN 9.8) — Collection over DirCollectionBackend (DirMap.tla).

One file per record, last write wins.  TLC checks DirMap's properties for the required behaviour (Deviations = {}),
shows that each named deviation is caught, and every (state, action) pair of the model is replayed on real Collection
objects.  Where the pinned code is known to deviate (no key validation: EXTRA-FINDING below) the replay is made against
the model WITH that named deviation, so that everything else about the code is still compared step by step.
Not registered in MANIFEST.json (no listed property covers this backend); run with `bin/check X02 quick`."""
from __future__ import annotations
from ..common import Reporter, model_check, emit_graph, expect_violation
from ..evidence import Evidence
from .. import replay, findings
from ..adapters.dirmap import DirAdapter

PROP = "X02"
INV = ("TypeOK", "OnlyStorableKeys", "ListedIsReadable", "SessionSeesAll", "NothingLeftQueued")
PROPS = ("FailedOpIsNoOp", "ReadYourWrite", "OthersUntouched", "TruncateEmpties")
ACTIONS = ("Make", "Begin", "End", "Truncate", "CGet", "CPut")
BUFS = {"BufM1": -1, "BufS": 6, "BufL": 100000}
NOVAL = "DirCollectionBackend does not validate keys: a key the file system cannot store is listed and queued, the write fails later and the record is dropped"


def cfg(buf="BufM1", ro="ROrw", dev="DevNone", keys="KeysQ", vals="ValsQ", colls="C2", maxputs=3):
    return dict(spec="Spec", constants={
        "Key": f"<- {keys}", "Val": f"<- {vals}", "KeyLen": "<- KLen", "ValLen": "<- VLen", "KeyOK": "<- KOK", "KeyErr": "<- KErr",
        "Coll": f"<- {colls}", "RO": f"<- {ro}", "Buf": f"<- {buf}", "None": '"none"', "MaxPuts": maxputs,
        "Deviations": f"<- {dev}"}, invariants=INV, properties=PROPS, view="View")


def norm(o):
    o = dict(o)
    o["files"] = sorted(o.get("files") or [])
    for c in (o.get("c") or {}).values():
        if isinstance(c, dict) and isinstance(c.get("keys"), list):
            c["keys"] = sorted(c["keys"])
    return o


def run(tier, seed, replay_path):
    ev = Evidence(PROP, tier, seed)
    rep = Reporter(PROP, ev)
    # the required behaviour satisfies the properties; each named deviation is caught by TLC
    expect_violation("MCDirMap", cfg("BufS", dev="DevNoVal"), INV + PROPS, tag="x02dev")
    expect_violation("MCDirMap", cfg("BufL", dev="DevFirst"), PROPS, tag="x02dev")
    known = any(f["id"] == "X02-no-key-validation" and f["status"] == "known" for f in findings.load())
    code_dev = "DevNoVal" if known else "DevNone"
    if tier == "quick":
        configs = [("BufM1", "ROmix", "KeysQ", "ValsQ", "C2", 3, 25), ("BufS", "ROrw", "KeysQ", "ValsQ", "C1", 3, 25),
                   ("BufL", "ROrw", "KeysQ", "ValsT", "C1", 3, 25)]
    else:
        configs = [("BufM1", "ROmix", "KeysT", "ValsT", "C2", 3, 150), ("BufS", "ROrw", "KeysT", "ValsT", "C2", 3, 150),
                   ("BufL", "ROmix", "KeysQ", "ValsT", "C2", 3, 150), ("BufMix", "ROrw", "KeysQ", "ValsT", "C2", 3, 150),
                   ("BufL", "ROrw", "KeysT", "ValsT", "C1", 4, 150)]
    hits = 0
    for buf, ro, keys, vals, cn, mp, budget in configs:
        model_check(ev, "MCDirMap", cfg(buf, ro, "DevNone", keys, vals, cn, mp), role=f"DirMap required behaviour ({buf},{ro},{cn})",
                    tag="x02", require_actions=ACTIONS, timeout=1800)
        edges = emit_graph(ev, "MCDirMap", dict(cfg(buf, ro, code_dev, keys, vals, cn, mp), invariants=(), properties=()),
                           role=f"DirMap edges ({buf},{ro},{code_dev})", tag="x02emit", timeout=1800)
        for e in edges:
            e["obs"] = norm(e["obs"])
        hits += sum(1 for e in edges if e["act"].get("act") == "cput" and e["act"].get("k") in ("kSl", "kBig"))
        g = replay.Graph(edges)
        cl = ("c1", "c2") if cn == "C2" else ("c1",)
        bufmap = {"c1": 100000, "c2": -1} if buf == "BufMix" else {c: BUFS[buf] for c in cl}
        romap = {c: (ro == "ROmix" and c == "c2") for c in cl}
        stats, viol, *_ = replay.cover(g, lambda: DirAdapter(cl, ro=romap, buf=bufmap), seed=seed, budget_s=budget)
        ev.count(evaluations=stats["steps"], distinct_nontrivial=stats["pairs_exercised"], traces=stats["paths"])
        ev.cov.setdefault("dirmap_replay", {})[f"{buf},{ro}"] = stats
        for v in viol[:5]:
            v["config"] = {"buf": bufmap, "ro": romap}
            rep.violation("replay-dirmap", v, what=f"{v['action']}: " + "; ".join(v["differences"][:3]))
        rep.note(f"dir backend {buf},{ro}: {stats}")
    if code_dev == "DevNoVal":
        print(f"EXTRA-FINDING: check=X02 {NOVAL} (model with the named deviation NoKeyValidation matches the code on {hits} such transitions)")
    ev.set(rule="(state, action) pairs of DirMap.tla replayed on real Collection/DirCollectionBackend objects",
           replayed_against=code_dev)
    return rep.finish()
