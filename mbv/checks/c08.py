"""C08 — xyz round trip and unit handling: coordinates mean what the file says.

M: TLC checks XyzText (Make / Dump onto a stream / Foreign file in unit U / Load by every class-level entry
   point) for TextDenotesTruth, LoadFaithful, UnitsPreserveDistance over covering pools of geometries,
   ensembles and foreign files; five named deviations must each be caught.
A: every (state, action) pair of that graph is executed on the real classes (CartesianGeometry, Structure,
   Molecule, ConformerEnsemble; dumps_xyz / dump_xyz; load/loads/load_all/loads_all for path, stream and
   string; xyz and mol2 readers; every member of DistanceUnit).  What TLC computed (text lines, loaded
   frames in micro-Angstrom, return shape and class) must equal what the code did.
B: seeded random geometries / ensembles / multi-dump streams / foreign files in every unit (all 118
   elements + dummy, 0..12 atoms, coordinates up to +-2000 A, 0..8 decimals) and the bundled xyz files are
   run through the same real calls; each recorded history is validated by TLC against XyzTextTrace."""
from __future__ import annotations
import json, random, time
from ..common import Reporter, model_check, emit_graph, expect_violation
from ..evidence import Evidence
from .. import replay, tlc
from .. import trace as T
from concurrent.futures import ThreadPoolExecutor
from ..adapters.xyztext import Lab, XyzAdapter, walk, SYMBOLS, DUMMY, GEOM_CLASSES, ENS, NAMES
NAME_TOKENS = sorted(NAMES)

PROP = "C08"
WORKERS = 4

# Genuine defects of the pinned tree that this check found.  All three have small repairs (patch files under
# /verif/.work/fixes/C08-*.patch), so none is downgraded to a KNOWN-FINDING: while they are present the check exits 1.
KNOWN = {}

SPEC_UNITS = ("A", "Angstrom", "Bohr", "au", "fm", "pm", "nm")      # DOMAIN PerAngstrom in XyzText.tla
INV = ("TypeOK", "TextDenotesTruth")
PROPS = ("LoadFaithful", "UnitsPreserveDistance")
ACTIONS = ("Make", "Dump", "DumpLastConformer", "DumpFmt", "DumpLastConformerFmt", "Foreign", "Load")
DEVIATIONS = ("DevInverted", "DevEnsUnits", "DevEmpty", "DevFrames", "DevColumns", "DevDummy", "DevWide", "DevBlank", "DevFmt")


def tla_set(xs):
    return "{" + ", ".join(json.dumps(x) for x in xs) + "}"


def mc_cfg(tier, units, dec, seed, dev="DevNone"):
    if dev != "DevNone":
        gp = {"DevWide": "PoolW", "DevFmt": "PoolF"}.get(dev, "PoolD")
        pools = {"GeomPool": f"<- {gp}", "SmallPool": "<- SmallD", "FilePool": "<- FPoolD",
                 "FmtPool": "<- PoolF" if dev == "DevFmt" else "<- NoFmt", "FmtDecs": "<- FmtDecsQ"}
        units = [u for u in units if u in ("A", "Angstrom", "pm", "nm")]
    elif tier == "thorough":
        pools = {"GeomPool": "<- PoolT", "SmallPool": "<- SmallT", "FilePool": "<- FPoolT", "FmtPool": "<- FmtPoolT",
                 "FmtDecs": "<- FmtDecsT"}
    else:
        pools = {"GeomPool": "<- PoolQ", "SmallPool": "<- SmallQ", "FilePool": "<- FPoolQ", "FmtPool": "<- FmtPoolQ",
                 "FmtDecs": "<- FmtDecsQ"}
    return dict(spec="Spec", constants={**pools, "Units": tla_set(units), "Dec": dec, "MaxDumps": 3,
                                        "Deviations": f"<- {dev}", "Shift": seed % 11},
                invariants=INV, properties=PROPS, view="View")


def probe(lab):
    """Facts read off the code before the model is instantiated: the members of DistanceUnit and the number
    of decimals the xyz writer emits ("the written precision")."""
    units = lab.unit_names()
    g = {"cls": "CartesianGeometry", "frames": [[{"el": "C", "x": {"u": 1234567, "s": 3}, "y": {"u": -7, "s": -2},
                                                   "z": {"u": 0, "s": 0}}]]}
    text = lab.build(g).dumps_xyz()
    _, dec = lab.tokenize_xyz(text, None)
    return units, dec


def fix_edges(edges):
    for e in edges:
        if e["to"] == "=":
            e["to"] = e["from"]
            e["obs"] = None
    return edges


def direction_a(tier, seed, ev, rep, lab, units, dec):
    cfg = mc_cfg(tier, units, dec, seed)
    model_check(ev, "MCXyzText", cfg, role=f"XyzText invariants ({tier} pools, Dec={dec}, {len(units)} unit names)",
                tag="c08mc", workers=WORKERS, require_actions=ACTIONS)
    with ThreadPoolExecutor(len(DEVIATIONS)) as ex:              # non-vacuity: each named deviation must be caught
        # (with the pool rotation fixed: that a deviation is caught is a fact about the specification, not about the seed -
        #  with some rotations the small deviation pools do not contain the object that shows a particular deviation)
        list(ex.map(lambda dev: expect_violation("MCXyzText", mc_cfg(tier, units, dec, 1, dev), INV + PROPS,
                                                 tag="c08dev", workers=1), DEVIATIONS))
    # the graph falls into disjoint parts below the root (objects that are dumped / foreign files per unit family):
    # emitted by parallel single-worker TLC runs and merged
    fams = [[u for u in units if u in f] for f in (("A", "Angstrom", "pm"), ("Bohr", "au"), ("nm", "fm"))]
    t = "T" if tier == "thorough" else "Q"
    parts = [("objects at scale 0", {"FilePool": "<- NoFiles", "GeomPool": f"<- Pool{t}0", "FmtPool": f"<- Fmt{t}0"}),
             ("objects at scale 3 / -3", {"FilePool": "<- NoFiles", "GeomPool": f"<- Pool{t}x", "SmallPool": "<- NoGeoms",
                                          "FmtPool": f"<- Fmt{t}x"})] + \
            [("files " + "/".join(f), {"GeomPool": "<- NoGeoms", "SmallPool": "<- NoGeoms", "FmtPool": "<- NoFmt", "Units": tla_set(f)}) for f in fams if f]

    def emit(part):
        name, over = part
        c = dict(cfg, constants={**cfg["constants"], **over})
        return emit_graph(ev, "MCXyzText", c, role=f"XyzText edges for replay ({name})", tag="c08emit")
    with ThreadPoolExecutor(len(parts)) as ex:
        edges = fix_edges([e for es in ex.map(emit, parts) for e in es])
    g = replay.Graph(edges, key_fields_drop=("out", "val", "ret"))
    stats, viol, samples = walk(g, lambda: XyzAdapter(lab, dec), sig=signature, per_sig=1)
    loads = sum(1 for n in g.out for a in g.out[n] if g.out[n][a][0]["act"]["act"] == "load")
    ev.count(evaluations=stats["steps"], distinct_nontrivial=loads, traces=stats["paths"])
    ev.set(replay=stats, replay_load_cells=loads)
    ev.add_samples([{"direction": "A", "path": [compact(a) for a in s[:4]]} for s in samples], 1)
    for e in edges:                                           # one foreign-unit load cell with the values TLC demanded
        a = e["act"]
        if a["act"] == "load" and a.get("units") not in ("A", "Angstrom") and a.get("out") == "ok" and any(a["val"]):
            ev.add_samples([{"direction": "A", "cell": {k: a[k] for k in ("fmt", "cls", "entry", "units", "res", "ret")},
                             "spec_val": a["val"][:1], "matched_by_code": not viol}], 1)
            break
    if stats["unreached_pairs"] and not viol:
        rep.note(f"A: {stats['unreached_pairs']} pairs not reached")
    for v in viol:
        v["dec"] = dec
        rep.violation("replay-xyztext", v, what=f"{compact(v['action'])}: " + "; ".join(v["differences"][:2])[:300])
    rep.note(f"A: {stats}; load cells {loads}; {stats['mismatches']} mismatches, {len(viol)} distinct signatures")
    return len(viol)


def signature(v):
    """Class of a mismatch (one VIOLATION line per class): which call, which reader, string-loading ensemble or
    not, Angstrom or another unit, did the code raise, does the text hold a frame without atoms."""
    a = v["action"]
    exp = (v.get("allowed") or [{}])[0].get("act", {})
    empty = any(f == [] for f in exp.get("val") or [])
    return (a.get("act"), a.get("fmt"), a.get("cls") == ENS and a.get("entry") == "loads",
            a.get("units") in ("A", "Angstrom"), v["observed_outcome"].get("out"), empty)


def compact(a):
    a = dict(a)
    for k in ("g", "lines", "val"):
        if k in a:
            a[k] = "..."
    return a


# ---------------------------------------------------------------------------------------------------------
# Direction B: seeded random histories + bundled files, validated by TLC against XyzTextTrace
# ---------------------------------------------------------------------------------------------------------
TRACE_INV = ("TextDenotesTruth",)
LOADERS = [(c, e) for c in GEOM_CLASSES for e in ("load_path", "load_stream", "loads", "load_all_path", "load_all_stream",
                                                  "loads_all")] + [(ENS, e) for e in ("load_path", "load_stream", "loads")]
PER_A = {"A": (1, 0), "Angstrom": (1, 0), "Bohr": (188973, -5), "au": (188973, -5), "pm": (1, 2), "nm": (1, -1), "fm": (1, 5)}
BUNDLED = ("dendrobine.xyz", "pentane_confs.xyz", "dummy.xyz")


def trace_cfg(units):
    return dict(spec="TraceSpec", constants={"GeomPool": "<- NoPool", "SmallPool": "<- NoPool", "FilePool": "<- NoPool",
                                             "Units": tla_set(units), "Dec": 6, "MaxDumps": 0, "Deviations": "<- DevNone",
                                             "FmtPool": "<- NoPool", "FmtDecs": "<- NoPool"},
                invariants=TRACE_INV)


def rand_coord(rnd, world=0):
    r = rnd.random()
    if world == -3:                                         # 1e-9 A units: anything within +-2 A, digits down to 1e-10 A
        u = rnd.choice((rnd.randint(-2_000_000_000, 2_000_000_000), rnd.randint(-2_000_000, 2_000_000), rnd.randint(-600, 600)))
    elif world == 3:                                        # micro-kiloangstrom: 1e3 .. 2e6 A, the widths of 11 .. 14 characters
        u = rnd.choice((-1, 1)) * rnd.choice((rnd.randint(1_000_000, 9_999_999), rnd.randint(10_000_000, 99_999_999),
                                              rnd.randint(100_000_000, 999_999_999), rnd.randint(1_000_000_000, 2_000_000_000)))
    elif r < 0.08:
        u = 0
    elif r < 0.25:
        u = rnd.randint(-60, 60)
    elif r < 0.80:
        u = rnd.randint(-20_000_000, 20_000_000)
    else:
        u = rnd.choice((-1, 1)) * rnd.randint(100_000_000, 2_000_000_000)
    if rnd.random() < 0.3:
        u -= u % rnd.choice((10, 1000, 100000))            # "round" values: 1.5, 0.25, ...
    s = 0 if rnd.random() < 0.3 else rnd.randint(-4, 4)
    t = abs(u)
    while t and t % 10 == 0:
        t //= 10
    if s == 0 and t % 10 == 5:                             # never an exact half of a coarser written place
        s = rnd.choice((-1, 1))
    return {"u": u, "s": s}


def rand_els(rnd, n):
    """(element, atom type class): no-element dummies, and atoms of dummy TYPE that carry a real element."""
    out = []
    for _ in range(n):
        r = rnd.random()
        out.append((DUMMY, "dummy") if r < 0.08 else (rnd.choice(SYMBOLS), "dummy" if r < 0.22 else "regular"))
    return out


def rand_obj(rnd, cls=None, nmax=12, world=None):
    cls = cls or rnd.choice(GEOM_CLASSES + (ENS,))
    w = world if world is not None else rnd.choice((0, 0, 0, 3, -3))
    n = rnd.choice((0, 1, 2, 3, rnd.randint(0, nmax)))
    els = rand_els(rnd, n)
    k = rnd.randint(1, 5) if cls == ENS else 1
    return {"cls": cls, "world": w, "name": rnd.choice(NAME_TOKENS), "frames": [[{"el": e, "ty": t, "x": rand_coord(rnd, w), "y": rand_coord(rnd, w), "z": rand_coord(rnd, w)}
                                               for e, t in els] for _ in range(k)]}


def loads_for(rnd, fmt, unit, homogeneous, all_aliases):
    same = [u for u in all_aliases if PER_A[u] == PER_A[unit]]
    ops = []
    for c, e in LOADERS:
        if fmt == "mol2" and c == "CartesianGeometry":
            continue
        if c == ENS and not homogeneous:
            continue
        ops.append({"op": "load", "cls": c, "entry": e, "units": rnd.choice(same)})
    return ops


def rand_file(rnd, units):
    """A file of another program: random integers at a random number of decimals in a random unit, bounded so that
    file values and the Angstrom values they denote fit 32-bit integers in micro units."""
    unit = rnd.choice(units)
    fmt = rnd.choice(("xyz", "mol2"))
    n, p = PER_A[unit]
    while True:
        dec = rnd.randint(0, 8)
        e = 6 - dec - p
        # |t| * 10^e / n  <= 2e9  and |t| <= 2e9
        lim = 2_000_000_000 if e <= 0 else (2_000_000_000 * n) // (10 ** e)
        lim = min(lim, 2_000_000_000)
        if lim >= 1000:
            break
    k = rnd.randint(1, 4)
    na = rnd.randint(1 if fmt == "mol2" else 0, 10)
    homog = rnd.random() < 0.7
    frames = []
    els = [e for e, _ in rand_els(rnd, na)]
    for j in range(k):
        if not homog and j:
            na = rnd.randint(1 if fmt == "mol2" else 0, 10)
            els = [e for e, _ in rand_els(rnd, na)]
        mag = rnd.choice((lim, lim, max(1000, lim // 1000), 1000))
        frames.append([{"k": "atom", "el": el, "x": rnd.randint(-mag, mag), "y": rnd.randint(-mag, mag), "z": rnd.randint(-mag, mag)}
                       for el in els])
    if fmt == "xyz":
        lines = []
        for f in frames:
            lines += [{"k": "count", "n": len(f)}, {"k": "comment"}] + f
    else:
        lines = [{"k": "mol2", "atoms": f} for f in frames]
    hom = all([a["el"] for a in f] == [a["el"] for a in frames[0]] for f in frames)
    return {"op": "foreign", "fmt": fmt, "unit": unit, "dec": dec, "lines": lines}, hom


def bundled_scripts(lab, rnd, units):
    """Bundled xyz files as files of other programs, and -- built back from their own numbers -- as objects to dump."""
    import molli as ml
    out = []
    for name in BUNDLED:
        text = (ml.files.ROOT / name).read_text()
        lines, dec = lab.tokenize_xyz(text, None)
        if dec is None or any(ln["k"] == "bad" for ln in lines):
            continue
        frames, cur = [], None
        for ln in lines:
            if ln["k"] == "count":
                cur = []
                frames.append(cur)
            elif ln["k"] == "atom":
                cur.append(ln)
        hom = all([a["el"] for a in f] == [a["el"] for a in frames[0]] for f in frames)
        script = [{"op": "foreign", "fmt": "xyz", "unit": "Angstrom", "dec": dec, "lines": lines, "file": name}]
        script += loads_for(rnd, "xyz", "Angstrom", hom, units)
        out.append((f"file-{name}", script))
        q = 10 ** (6 - dec)
        mk = lambda f: [{"el": a["el"], "ty": "dummy" if a["el"] == DUMMY else "regular", "x": {"u": a["x"] * q, "s": 0}, "y": {"u": a["y"] * q, "s": 0}, "z": {"u": a["z"] * q, "s": 0}}
                        for a in f]
        if hom:
            g = {"cls": ENS, "world": 0, "name": "plain", "frames": [mk(f) for f in frames]}
        else:
            g = {"cls": "Molecule", "world": 0, "name": "plain", "frames": [mk(frames[0])]}
        script = [{"op": "make", "g": g}, {"op": "dump", "route": "dumps"}] + loads_for(rnd, "xyz", "Angstrom", True, units)
        out.append((f"redump-{name}", script))
    return out


def scripts(lab, tier, seed, units):
    rnd = random.Random(seed * 7919 + 8)
    n_obj, n_stream, n_file = (60, 25, 110) if tier == "quick" else (900, 300, 1800)
    out = []
    for i in range(n_obj):                                   # one object, written, read back by every entry point
        g = rand_obj(rnd, nmax=12 if tier == "quick" else 30)
        fmt = {"route": "dump_fmt", "D": rnd.randint(max(0, -g["world"]), 12)}   # the caller's format: 0..12 decimals
        wr = {"op": "dump", "route": rnd.choice(("dumps", "dump"))}
        if g["cls"] == ENS and rnd.random() < 0.4:           # one Conformer view writes its frame
            wr = {"op": "dumpconf", "route": rnd.choice(("dumps", "dump")), "i": rnd.randint(1, len(g["frames"]))}
            if rnd.random() < 0.5:
                wr.update(fmt)
        elif g["cls"] != ENS and rnd.random() < 0.4:
            wr.update(fmt)
        out.append((f"obj{i}", [{"op": "make", "g": g}, wr] + loads_for(rnd, "xyz", "Angstrom", True, units)))
    for i in range(n_stream):                                # several objects written one after another onto one stream
        sc, sig = [], []
        w = rnd.choice((0, 0, 0, 3, -3))                    # one length scale per stream
        for _ in range(rnd.randint(2, 4)):
            g = rand_obj(rnd, nmax=6, world=w)
            sc += [{"op": "make", "g": g}, {"op": "dump", "route": rnd.choice(("dumps", "dump"))}]
            sig += [[a["el"] for a in f] for f in g["frames"]]
        out.append((f"stream{i}", sc + loads_for(rnd, "xyz", "Angstrom", all(x == sig[0] for x in sig), units)))
    for i in range(n_file):                                  # files of other programs, every unit, xyz and mol2
        op, hom = rand_file(rnd, units)
        out.append((f"file{i}", [op] + loads_for(rnd, op["fmt"], op["unit"], hom, units)))
    out += bundled_scripts(lab, rnd, units)
    for cls in ("Molecule", "Structure", ENS):               # atoms of dummy TYPE with real elements, as a mol2 file gives them
        out.append((f"loaded-dummy.mol2-{cls}", [{"op": "make_loaded", "file": "dummy.mol2", "cls": cls},
                                                  {"op": "dump", "route": rnd.choice(("dumps", "dump"))}]
                    + loads_for(rnd, "xyz", "Angstrom", True, units)))
    return out


LIMIT = 2_100_000_000


def execute(lab, script):
    """Run a script on the real code; returns the event list (inputs + abstracted observations)."""
    import io
    obj, stream, text, fmt, world = None, io.StringIO(), "", "none", 0
    evs = []
    for op in script:
        o = op["op"]
        if o == "make":
            obj = lab.build(op["g"])
            world = op["g"].get("world", 0)
            evs.append({"ev": "make", "g": op["g"]})
        elif o == "make_loaded":                              # the object a real mol2 load returns; the model is told what it holds
            import molli as ml
            obj = lab.cls[op["cls"]].load_mol2(ml.files.ROOT / op["file"])
            world = 0
            evs.append({"ev": "make", "g": lab.abstract_obj(obj)})
        elif o in ("dump", "dumpconf"):
            if o == "dump":
                lab.dump(obj, op["route"], stream, op.get("D"))
            else:
                lab.dump_conformer(obj, op["i"], op["route"], stream, op.get("D"))
            text, fmt, obj = stream.getvalue(), "xyz", None
            if op["route"] == "dump_fmt":
                D = op["D"]                                   # the decimals the caller asked for
            else:
                _, found = lab.tokenize_xyz(text, None)       # the decimals the default format shows
                D = 6 if found is None else found
            lines, _ = lab.tokenize_xyz(text, D, world)
            evs.append({"ev": o, "route": op["route"], "D": D, "lines": lines, **({"i": op["i"]} if o == "dumpconf" else {})})
        elif o == "foreign":
            fmt, world = op["fmt"], 0
            if "file" in op:
                import molli as ml
                text = (ml.files.ROOT / op["file"]).read_text()
            else:
                text = (lab.render_xyz if fmt == "xyz" else lab.render_mol2)(op["lines"], op["dec"])
            evs.append({"ev": "foreign", "fmt": fmt, "unit": op["unit"], "dec": op["dec"], "lines": op["lines"]})
        elif o == "load":
            r = lab.load(text, fmt, op["cls"], op["entry"], op["units"], 1, world)
            e = {"ev": "load", "cls": op["cls"], "entry": op["entry"], "units": op["units"], "out": r["out"]}
            if r["out"] == "ok":
                flat = [c for f in r["val"] for a in f for c in a[1:]]
                if any((not isinstance(c, int)) or abs(c) > LIMIT for c in flat):
                    e["out"] = "unrepresentable"              # NaN / inf / beyond 32-bit micro-Angstrom: no step explains it
                    e["sample"] = str(flat[:3])
                else:
                    e.update(ret=r["ret"], rcls=r["cls"], val=r["val"])
            else:
                e["exc"] = r.get("exc")
            evs.append(e)
        else:
            raise AssertionError(o)
    return evs


def describe(ev_):
    e = {k: v for k, v in ev_.items() if k not in ("g", "lines", "val")}
    if "val" in ev_:
        e["val"] = str(ev_["val"])[:160]
    return e


def direction_b(tier, seed, ev, rep, lab, units):
    t0 = time.time()
    scs = scripts(lab, tier, seed, units)
    traces = [{"tid": tid, "ev": execute(lab, sc)} for tid, sc in scs]
    t1 = time.time()
    verdicts, results = T.validate("XyzTextTrace", traces, trace_cfg(units), chunk=120 if tier == "quick" else 300, par=WORKERS,
                                   tag="c08tr")
    ev.cov["tlc_runs"].append({"role": "trace validation (XyzTextTrace)", "batches": len(results),
                               "generated": sum(r.generated for r in results),
                               "wall_s": round(sum(r.wall_s for r in results), 1)})
    ev.cov["transitions"] += sum(r.generated for r in results)
    smap = dict(scs)
    tmap = {t["tid"]: t for t in traces}
    bad = sorted((tid, v) for tid, v in verdicts.items() if v[0] != "ACCEPT")
    seen = set()
    for tid, (_, l) in bad:
        t = tmap[tid]["ev"]
        e = t[l - 1] if l and l <= len(t) else {}
        sig = (e.get("ev"), e.get("fmt"), e.get("cls") == ENS and e.get("entry") == "loads", e.get("units") in ("A", "Angstrom"),
               e.get("out"), tid.rstrip("0123456789"))
        if sig in seen:
            continue
        seen.add(sig)
        rep.violation("trace-xyztext", {"tid": tid, "script": smap[tid], "stuck_at": l, "event": describe(e), "units": units},
                      what=f"{tid}: no step of XyzText explains event {l}: {json.dumps(describe(e))}"[:420])
    nload = sum(1 for t in traces for e in t["ev"] if e["ev"] == "load")
    nontriv = sum(1 for t in traces for e in t["ev"] if e["ev"] == "load" and e.get("val") and any(e["val"]))
    ev.count(evaluations=sum(len(t["ev"]) for t in traces), distinct_nontrivial=nontriv, traces=len(traces))
    ev.set(traces={"n": len(traces), "events": sum(len(t["ev"]) for t in traces), "load_events": nload,
                   "rejected": len(bad), "exec_s": round(t1 - t0, 1), "tlc_s": round(time.time() - t1, 1)})
    acc = [t for t in traces if verdicts[t["tid"]][0] == "ACCEPT"]
    ev.add_samples([{"direction": "B", "tid": t["tid"], "events": [describe(e) for e in t["ev"][:4]]} for t in acc[:1] + acc[-1:]], 2)
    rep.note(f"B: {len(traces)} traces, {nload} load events ({nontriv} with atoms), {len(bad)} rejected "
             f"({len(seen)} distinct signatures); exec {t1 - t0:.1f}s, TLC {time.time() - t1:.1f}s")


def run(tier, seed, replay_path):
    ev = Evidence(PROP, tier, seed)
    rep = Reporter(PROP, ev)
    if replay_path:
        return do_replay(replay_path)
    lab = Lab()
    try:
        code_units, dec = probe(lab)
        units = [u for u in code_units if u in SPEC_UNITS]
        extra = [u for u in code_units if u not in SPEC_UNITS]
        if extra:
            rep.note(f"DistanceUnit members without a row in the spec's physical table (not checked): {extra}")
            ev.assumptions.append(f"DistanceUnit members {extra} are not in XyzText!PerAngstrom and are not checked")
        if dec is None or dec < 1:
            raise tlc.MachineryError(f"could not read the written precision off dumps_xyz output (dec={dec})")
        rep.note(f"probe: DistanceUnit members {code_units}; xyz writer emits {dec} decimals")
        direction_a(tier, seed, ev, rep, lab, units, dec)
        direction_b(tier, seed, ev, rep, lab, units)
    finally:
        lab.cleanup()
    ev.set(rule="A: one case = one (spec state, action) pair of the TLC graph executed on the real classes; "
                "distinct_nontrivial = distinct (text, class, entry point, unit) load cells.  B: one case = one event of a "
                "recorded history (make / dump / foreign / load) validated by TLC; distinct_nontrivial = load events that "
                "returned at least one atom",
           units_checked=units, written_decimals=dec, deviations_caught_by_tlc=list(DEVIATIONS))
    ev.assumptions += ["coordinates within +-2147 A (micro-Angstrom in 32-bit TLC integers)",
                       "the Bohr constant is specified to six digits (1.88973): coordinates loaded from Bohr files are "
                       "compared at 1e-4 A for |x| <= 20 A; all other units at 1e-6 A",
                       "element of a dummy atom = 'no element' (Z=0); the atom *type* Dummy is not part of the statement",
                       "independent xyz tokenizer / foreign-file renderer of the harness are trusted"]
    return rep.finish()


def do_replay(path):
    doc = json.loads(open(path).read())
    lab = Lab()
    try:
        if doc["kind"] == "replay-xyztext":
            ad = XyzAdapter(lab, doc["dec"])
            res = replay.run_path(ad, doc["path"])
            last = res[-1]
            obs = ad.observe() if last["obs"] is None else last["obs"]
            print(json.dumps({"last_action": compact(last["act"]), "outcome": last["outcome"],
                              "allowed_by_spec": [{k: v for k, v in a["act"].items() if k in ("out", "ret", "val", "cls")}
                                                  for a in doc.get("allowed") or []]}, default=str)[:3000])
            for a in doc.get("allowed") or []:
                ok = all(last["outcome"].get(k) == a["act"][k] for k in last["outcome"] if k in a["act"])
                if ok and not replay.diff(a["obs"], last["obs"]):
                    print("replay: behaviour now matches the specification")
                    return 0
            print(f"VIOLATION property={PROP} replay={path}")
            return 1
        if doc["kind"] == "trace-xyztext":
            evs = execute(lab, doc["script"])
            verdicts, _ = T.validate("XyzTextTrace", [{"tid": doc["tid"], "ev": evs}], trace_cfg(doc["units"]), tag="c08rp")
            v, l = verdicts[doc["tid"]]
            print(json.dumps({"tid": doc["tid"], "verdict": v, "stuck_at": l,
                              "event": describe(evs[l - 1]) if l and l <= len(evs) else None}, default=str)[:2000])
            if v != "ACCEPT":
                print(f"VIOLATION property={PROP} replay={path}")
                return 1
            print("replay: the recorded history is now a behaviour of the specification")
            return 0
    finally:
        lab.cleanup()
    print(f"unknown replay kind {doc['kind']}")
    return 2
