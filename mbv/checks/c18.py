"""C18 — jobmap computes each item once, reuses only valid results, resumes cleanly.

M: TLC checks JobMap.tla (histories of jobmap runs with scripted per-item outcomes, argument changes,
   pre-populated and fresh destinations; plain and vectorised jobs); each deviation must be caught.
A: root paths of the emitted graph that cover every (state, action) pair are replayed on real libraries
   with real `_molli_run` subprocesses; execution counters and destination contents are compared
   after every run."""
from __future__ import annotations
import json, random
from ..common import Reporter, model_check, emit_graph, expect_violation
from ..evidence import Evidence
from .. import replay

PROP = "C18"
INV = ("DestIsExactlySuccesses",)
PROPS = ("ForeignKeysUntouched", "NoReuseOfStaleOrFailed", "AtMostOncePerValidInput", "RerunOnlyMissing", "MustExecuteInvalid")


def cfg(nsub, keys="K2", scripts="ScriptsQ", maxruns=3, dev="DevNone"):
    return dict(spec="Spec", constants={"Keys": f"<- {keys}", "Foreign": "<- F1", "NSub": nsub, "Scripts": f"<- {scripts}",
                                        "Vers": "<- V2", "MaxRuns": maxruns, "Deviations": f"<- {dev}"},
                invariants=INV, properties=PROPS, view="View")


def situations(state, act):
    """Abstract situation classes of one jobmap run: per key / sub-item (keys are independent and symmetric):
    (in destination?, cache relation to the run's version, cached ok?, outcome of the next execution)."""
    if act["act"] != "run":
        return [("act", act["act"], len(act.get("pre", [])))]
    v, out = act["ver"], []
    state = dict(zip(("phase", "script", "dst", "cache", "execs", "runs"), state))
    for k, subs in state["script"].items():
        subs_l = subs if isinstance(subs, list) else [subs[str(i + 1)] for i in range(len(subs))]
        cl = state["cache"][k]
        cl = cl if isinstance(cl, list) else [cl[str(i + 1)] for i in range(len(cl))]
        ex = state["execs"][k]
        ex = ex if isinstance(ex, list) else [ex[str(i + 1)] for i in range(len(ex))]
        key_cls = []
        for sc, c, n in zip(subs_l, cl, ex):
            nxt = sc[min(n, len(sc) - 1)]
            rel = "none" if c["hash"] == 0 else ("same" if c["hash"] == v else "other")
            key_cls.append((rel, c["ok"], nxt))
        indst = (k in state["dst"]) if isinstance(state["dst"], dict) else False
        out.append(("key", indst, tuple(sorted(key_cls))))
    return out


def one_config(tier, seed, ev, rep, nsub, keys, scripts, maxruns, max_paths):
    from ..adapters.jobmap import JobMapAdapter
    c = cfg(nsub, keys, scripts, maxruns)
    model_check(ev, "MCJobMap", c, role=f"JobMap NSub={nsub} {keys}", tag="c18mc", require_actions=("Setup", "Run", "FreshDst"))
    edges = emit_graph(ev, "MCJobMap", c, role=f"JobMap edges NSub={nsub}", tag="c18emit")
    g = replay.Graph(edges, key_fields_drop=("out",))
    paths = replay.enumerate_paths(g, maxruns + 2)
    rnd = random.Random(seed)
    chosen, cov = replay.greedy_cover(g, paths, rnd, max_paths=max_paths, feat=situations)
    rest = [p for p in paths if p not in chosen]
    rnd.shuffle(rest)
    chosen += rest[:max(0, max_paths - len(chosen))]          # situation classes first, then seeded random paths
    kk = ("m1", "m2", "m3") if keys == "K3" else ("m1", "m2")
    stats, viol, samples = replay.run_paths(g, chosen, lambda: JobMapAdapter(kk, nsub=nsub, workers=3), nproc=12)
    stats["paths_available"] = len(paths)
    stats["situation_classes"] = cov
    ev.count(evaluations=stats["steps"], distinct_nontrivial=stats["pairs_exercised"], traces=stats["paths"])
    ev.cov.setdefault("replay", {})[f"nsub={nsub},{keys}"] = stats
    ev.add_samples([{"nsub": nsub, "path": s} for s in samples], 1)
    seen = set()
    for v in viol:
        sig = json.dumps(v["differences"][:1])
        if sig in seen:
            continue
        seen.add(sig)
        rep.violation("replay-jobmap", {**v, "nsub": nsub, "keys": list(kk)}, what="; ".join(v["differences"][:3]))
    rep.note(f"nsub={nsub} {keys}: {stats}")


def run(tier, seed, replay_path):
    ev = Evidence(PROP, tier, seed)
    rep = Reporter(PROP, ev)
    if replay_path:
        return do_replay(replay_path)
    for dev in ("DevReuseFailed", "DevReuseStale", "DevRedo", "DevStoreFailed"):
        expect_violation("MCJobMap", cfg(1, dev=dev), INV + PROPS, tag="c18dev")
    if tier == "quick":
        one_config(tier, seed, ev, rep, 1, "K2", "ScriptsQ", 3, max_paths=24)
        one_config(tier, seed, ev, rep, 2, "K2", "ScriptsV", 2, max_paths=20)
    else:
        one_config(tier, seed, ev, rep, 1, "K2", "ScriptsQ", 3, max_paths=400)
        one_config(tier, seed, ev, rep, 2, "K2", "ScriptsVK", 3, max_paths=300)
        one_config(tier, seed, ev, rep, 1, "K3", "ScriptsV", 2, max_paths=200)
    ev.set(rule="one case = one (model state, jobmap run) pair executed with real _molli_run subprocesses on real libraries; "
                "paths chosen by greedy cover of the TLC graph; distinct_nontrivial = distinct pairs exercised")
    ev.assumptions += ["commands are `sh -c` scripts driven by per-item outcome files; job arguments enter the command text",
                       "source/destination are UKV-backed Collections with JSON values"]
    return rep.finish()


def do_replay(path):
    from ..adapters.jobmap import JobMapAdapter
    doc = json.loads(open(path).read())
    ad = JobMapAdapter(tuple(doc["keys"]), nsub=doc["nsub"], workers=3)
    try:
        res = replay.run_path(ad, doc["path"])
    finally:
        ad.cleanup()
    last = res[-1]
    print(json.dumps({"last": last, "allowed": doc.get("allowed")}, indent=1, default=str))
    for a in doc.get("allowed") or []:
        if not replay._match({"act": a["act"], "obs": a["obs"]}, last["outcome"], last["obs"]):
            print("replay: behaviour now matches the specification")
            return 0
    print(f"VIOLATION property={PROP} replay={path}")
    return 1
