"""C15 — graph queries of Connectivity agree with graph theory.

M: TLC checks GraphQ.tla on every labelled graph with <= 4 (quick) / <= 5 (thorough) atoms: the
   implementation-shaped model of yield_bfsd / yield_bfs / is_bond_in_ring / bonds_with_atom takes only steps
   that the property (Part 2 of the spec) accepts, for every start, direction, bond, atom and every order of
   the neighbours; the efficient definitions used for big graphs (DistMap, Bridge) equal the declarative ones
   (Ball) on every labelled graph with <= 5 / <= 6 atoms; the matcher by extension (EmbRec) equals the
   declarative set of induced embeddings (EmbDecl) for every target with <= 4 atoms x every connected pattern
   with <= 3 atoms.  Eight named deviations must each violate a clause.
B: the real queries are executed on real Connectivity / Structure / Molecule / ConformerEnsemble objects -
   exhaustively on every labelled graph with <= 5 (quick) / <= 6 (thorough) atoms (every start, every
   direction, every bond, every atom), on every labelled target with <= 4 / <= 5 atoms x every small connected
   pattern, and on random graphs with up to 40 atoms (random elements, bond types, bond-list order and
   orientation, cut-out patterns) - and every yield / flag / listing / mapping list is validated by TLC
   against GraphQTrace.tla (one TLC step per yield).
Binding self-test in every run: single-field corruptions of accepted traces and traces recorded with realistic
wrong implementations patched over the real methods must all be rejected by TLC (else exit 2)."""
from __future__ import annotations
import copy, hashlib, json, multiprocessing, os, random, re, time
import threading
from concurrent.futures import ProcessPoolExecutor, ThreadPoolExecutor, as_completed
from ..common import Reporter, model_check, expect_violation
from ..evidence import Evidence
from .. import trace as T, tlc
from ..adapters import graphq as G

PROP = "C15"
# Defects of the pinned tree that would need a redesign would be listed here (id -> signature, what).
# None was found for C15: every recorded execution of the pinned tree is accepted by the specification.
KNOWN: dict = {}

WORKERS = int(os.environ.get("MBV_TLC_WORKERS", "4"))       # TLC worker threads per model-checking run
LANES = int(os.environ.get("MBV_LANES", "6"))               # concurrent record+validate lanes (1 JVM thread each)
PROCS = int(os.environ.get("MBV_PROCS", "4"))               # processes performing the real calls

# every TLC run of this check is short: fewer GC / JIT threads per JVM (many JVMs run side by side)
os.environ.setdefault("JAVA_TOOL_OPTIONS", "-XX:ParallelGCThreads=2 -XX:CICompilerCount=2")

INV = ("YieldExactlyOnce", "YieldOnlyTarget", "YieldTrueDistance", "YieldNonDecreasing", "YieldsAll",
       "RingIffNotBridge", "LocalAgrees", "MatchExact", "DefsAgree")
DEVIATIONS = {   # name in MCGraphQ -> (config kind, smallest graph size that shows it)
    "DevLIFO": ("bfs", 5, 5), "DevStart": ("trav", 1, 3), "DevDirection": ("trav", 1, 4), "DevDirZero": ("trav", 1, 3),
    "DevRing": ("trav", 1, 3), "DevValence": ("trav", 1, 3), "DevNonInduced": ("match", 1, 3), "DevWildcard": ("match", 1, 3),
    "DevStaleAttr": ("hist1", 3, 3), "DevStaleAdj": ("hist1", 3, 3),     # memoised conversion / adjacency: histories only
    "DevPerHandle": ("hist", 3, 3),                                    # a cache per handle, dropped only by edits through it
}
TRACE_CFG = dict(spec="TraceSpec", constants={"MinN": 0, "MaxN": 0, "Elems": "<- NoElems", "PatPool": "<- NoPat",
                                              "Kinds": "<- NoKinds", "DeclLimit": 700, "MaxEdits": 0, "Handles": "<- NoHandles", "Deviations": "<- DevNone"})


def mc_cfg(kind, minn, maxn, dev="DevNone", elems=None):
    if kind == "trav":
        c = {"Elems": "<- ElC", "PatPool": "<- NoPat", "Kinds": "<- KTrav"}
    elif kind == "bfs":
        c = {"Elems": "<- ElC", "PatPool": "<- NoPat", "Kinds": "<- KBfs"}
    elif kind in ("hist", "hist1"):
        c = {"Elems": "<- ElCN", "PatPool": "<- Pat2", "Kinds": "<- KHist"}
    elif kind == "defs":
        c = {"Elems": "<- ElC", "PatPool": "<- NoPat", "Kinds": "<- KDefs"}
    else:
        c = {"Elems": f"<- {elems or 'ElC'}", "PatPool": "<- Pat3", "Kinds": "<- KMatch"}
    return dict(spec="Spec", constants={"MinN": minn, "MaxN": maxn, **c, "DeclLimit": 4096,
                                        "MaxEdits": 1 if kind in ("hist", "hist1") else 0,
                                        "Handles": "<- HTwo" if kind == "hist" else "<- HOne", "Deviations": f"<- {dev}"},
                invariants=INV, view="View")


def model_runs(ev, tier):
    """All TLC runs on the model, concurrently (they are independent)."""
    big = tier == "thorough"
    t0 = time.time()
    jobs = [
        lambda: model_check(ev, "MCGraphQ", mc_cfg("trav", 1, 5 if big else 4),
                            role=f"GraphQ traversal/ring/local model on all labelled graphs with <= {5 if big else 4} atoms, "
                                 "every start, direction, bond, atom and neighbour order",
                            tag="c15mc", workers=WORKERS, require_actions=("DoBegin", "Pop", "DoYield", "End", "DoLocal", "Defs")),
        lambda: model_check(ev, "MCGraphQ", mc_cfg("defs", 1, 6 if big else 5),
                            role=f"DefsAgree (DistMap/Bridge = declarative Ball definitions) on all labelled graphs with <= {6 if big else 5} atoms",
                            tag="c15defs", workers=WORKERS, require_actions=("Defs",)),
        lambda: model_check(ev, "MCGraphQ", mc_cfg("match", 1, 4, elems="ElCN" if big else "ElC"),
                            role="matcher model: EmbRec = EmbDecl for every target with <= 4 atoms x every connected pattern "
                                 "with <= 3 atoms over {C, N, Unknown}",
                            tag="c15mm", workers=WORKERS, require_actions=("Match",)),
        lambda: model_check(ev, "MCGraphQ", mc_cfg("hist", 3, 3),
                            role="history model: query through one of two handles, edit (element of an atom / bond added or removed) "
                                 "through either handle, query again through either, on every 3-atom graph over {C, N} x patterns "
                                 "with <= 2 atoms; every query is decided on the edited graph",
                            tag="c15mh", workers=WORKERS, require_actions=("DoEdit", "Match", "DoBegin", "DoYield")),
    ]
    nmodel = len(jobs)
    for dev, (kind, minn, maxn) in DEVIATIONS.items():
        jobs.append(lambda dev=dev, kind=kind, minn=minn, maxn=maxn:
                    expect_violation("MCGraphQ", mc_cfg(kind, minn, maxn, dev), INV, tag="c15dev", workers=2))
    with ThreadPoolExecutor(4) as ex:
        futs = [ex.submit(j) for j in jobs]
        res = [f.result() for f in futs]
    ev.set(model_wall_s=round(time.time() - t0, 1))
    return {dev: r.violated for dev, r in zip(DEVIATIONS, res[nmodel:])}


# --------------------------------------------------------------------------------------------------
def slices(total, size):
    return [(lo, min(total, lo + size)) for lo in range(0, total, size)]


def plan(tier, seed):
    """(label, function, args) for every slice of real work."""
    big = tier == "thorough"
    jobs = [("exhaustive n<=3", G.job_small, (1, 3, 0, seed))]
    for n in range(4, (6 if big else 5) + 1):
        total = 1 << (n * (n - 1) // 2)
        for lo, hi in slices(total, 512):
            jobs.append((f"exhaustive-traversal n={n}", G.job_exhaustive_traversal, (n, lo, hi, seed, n <= 5)))
    for n in range(4, (5 if big else 4) + 1):
        total = 1 << (n * (n - 1) // 2)
        for lo, hi in slices(total, 128):
            jobs.append((f"exhaustive-match n={n}", G.job_exhaustive_match, (n, lo, hi, seed, 4)))
    nsmall, nbig = (1200, 240) if big else (160, 24)
    for lo, hi in slices(nsmall, 50):
        jobs.append(("random n<=12", G.job_random, (lo, hi, seed, 12)))
    for lo, hi in slices(nbig, 8):
        jobs.append(("random n<=40", G.job_random, (lo, hi, seed, 40)))
    nh = (1600, 400) if big else (160, 0)
    for lo, hi in slices(nh[0], 100 if big else 80):
        jobs.append(("history n<=8", G.job_history, (lo, hi, seed, 8)))
    for lo, hi in slices(nh[1], 100):
        jobs.append(("history n<=14", G.job_history, (lo, hi, seed, 14)))
    # costly slices first: better packing of the lanes
    cost = lambda j: (j[2][2] - j[2][1]) * (60 if "n<=40" in j[0] else 8 if "random" in j[0] else 12 if "match" in j[0] else 10 if "history" in j[0] else 1)
    jobs.sort(key=lambda j: -cost(j))
    return jobs


def nontrivial(e):
    """A query whose answer is not forced by an empty neighbourhood."""
    k = e["ev"]
    if k == "bfs":
        return len(e["y"]) >= 2
    if k == "ring":
        return True
    if k == "local":
        return len(e["nbrs"]) >= 1
    if k == "match":
        return e["pn"] >= 2
    if k == "matchp":
        return len(e["pel"]) >= 2
    return False


def digest(graph_ev, e):
    return hashlib.blake2b(json.dumps([graph_ev, {k: v for k, v in e.items() if k not in ("maps", "y", "res", "nbrs", "bonds", "v2")}],
                                      sort_keys=True).encode(), digest_size=8).digest()


SETUP_EVENTS = ("graph", "pattern", "open", "edit", "pedit", "edit-raised")     # not queries: a trace stuck there is outside C15


class Tally:
    def __init__(self):
        self.events = {"bfs": 0, "ring": 0, "local": 0, "match": 0, "matchp": 0, "raised": 0}
        self.yields = 0
        self.maps = 0
        self.graphs = 0
        self.traces = 0
        self.distinct = set()
        self.edits = {}        # in-place edits between queries of a history, by kind
        self.hist = {"histories": 0, "fully_validated": 0, "rejected_at_query": 0, "abandoned_at_edit": 0}
        self.forms = {}        # role:form -> number of real calls with an atom passed in that AtomLike form
        self.by_label = {}
        self.max_atoms = 0
        self.generated = 0
        self.tlc_wall = 0.0

    def add(self, label, tr):
        self.traces += 1
        self.graphs += 1
        gev = tr["ev"][0]
        self.max_atoms = max(self.max_atoms, gev["n"])
        d = self.by_label.setdefault(label, {"graphs": 0, "queries": 0})
        d["graphs"] += 1
        if tr.get("hist"):
            self.hist["histories"] += 1
        k = f"graph class:{(tr.get('case') or {}).get('cls') or 'Connectivity'}"
        self.forms[k] = self.forms.get(k, 0) + 1
        for e in tr["ev"][1:]:
            if e["ev"] in SETUP_EVENTS:
                if e["ev"] in ("edit", "pedit"):
                    k = ("pattern " if e["ev"] == "pedit" else "") + e["op"] + (f" via {e['via']}" if e.get("via") else "")
                    self.edits[k] = self.edits.get(k, 0) + 1
                if e["ev"] == "edit":
                    gev = {"ev": "graph", "n": e["n"], "el": e["el"], "bonds": e["bonds"]}
                continue
            self.events[e["ev"]] = self.events.get(e["ev"], 0) + 1
            d["queries"] += 1
            if tr.get("hist"):
                k = f"history query through {e.get('h')}"
                self.forms[k] = self.forms.get(k, 0) + 1
            if e["ev"] == "bfs":
                self.yields += len(e["y"])
                for k in (f"start:{e.get('fs')}", f"direction:{e.get('fd')}"):
                    self.forms[k] = self.forms.get(k, 0) + 1
                if e["d"] == 1 and e.get("fd") == "index":
                    self.forms["direction passed as the integer 0"] = self.forms.get("direction passed as the integer 0", 0) + 1
                if e["s"] == 1 and e.get("fs") == "index":
                    self.forms["start passed as the integer 0"] = self.forms.get("start passed as the integer 0", 0) + 1
            if e["ev"] == "local":
                for k in e.get("fa", ()):
                    self.forms[f"atom-argument:{k}"] = self.forms.get(f"atom-argument:{k}", 0) + 1
            if e["ev"] in ("match", "matchp"):
                self.maps += len(e["maps"])
            if nontrivial(e):
                self.distinct.add(digest(gev, e))


def validate(traces, tag):
    return T.validate("GraphQTrace", [{"tid": t["tid"], "ev": t["ev"]} for t in traces], TRACE_CFG,
                      chunk=max(1, len(traces)), par=1, tag=tag)


_RE_WHY = re.compile(r'<<\s*"WHY",\s*"([^"]*)",\s*(\d+),\s*(\{[^}]*\})\s*>>')


def reasons(results):
    """tid -> (yield number, clauses broken) from the diagnostic part of the STUCK lines."""
    out = {}
    for r in results:
        for m in _RE_WHY.finditer(r.stdout):
            out[m.group(1)] = (int(m.group(2)), " ".join(m.group(3).split()))
    return out


def lane(pool, job, tally, lock):
    """Record one slice in a worker process, validate it with TLC, keep only what is needed afterwards."""
    label, fn, args = job
    traces = pool.submit(fn, *args).result()
    verdicts, results = validate(traces, "c15tr")
    bad, keep, skipped = [], [], []
    why = reasons(results)
    with lock:
        for r in results:
            tally.generated += r.generated
            tally.tlc_wall += r.wall_s
        for t in traces:
            tally.add(label, t)
            v = verdicts[t["tid"]]
            if v[0] != "ACCEPT" and t.get("hist") and v[1] and t["ev"][v[1] - 1]["ev"] in SETUP_EVENTS:
                # the EDIT (not a query) did not produce the graph the model expects: not a matter of C15;
                # the rest of this history is not judged
                tally.hist["abandoned_at_edit"] += 1
                skipped.append((t["tid"], t["ev"][v[1] - 1]))
            elif v[0] != "ACCEPT":
                bad.append((label, t, v[1], why.get(t["tid"])))
                if t.get("hist"):
                    tally.hist["rejected_at_query"] += 1
            elif t.get("hist"):
                tally.hist["fully_validated"] += 1
            elif len(keep) < 12 and int(hashlib.md5(t["tid"].encode()).hexdigest(), 16) % 5 == 0:
                keep.append({"tid": t["tid"], "ev": t["ev"]})
    bad.sort(key=size_key)
    return bad[:20], len(bad), keep, skipped[:3]


def size_key(b):
    case = b[1]["case"]
    return (case["n"], len(case["bonds"]), b[1]["tid"])


def failing_query(tr, l):
    """Event number l of the trace (1 = the graph) -> the query that produced it."""
    if l is None or l < 2 or l > len(tr["ev"]):
        return None, (tr["ev"][l - 1] if l and 1 <= l <= len(tr["ev"]) else None)
    if tr.get("hist"):                       # events: graph, pattern, open.., then one per script step
        k = l - 1 - (len(tr["ev"]) - len(tr["script"]))
        return (tr["script"][k] if k >= 0 else None), tr["ev"][l - 1]
    return tr["queries"][l - 2], tr["ev"][l - 1]


def describe_history(t, l):
    e = t["ev"][l - 1]
    edits = [f"{'pattern ' if x['ev'] == 'pedit' else ''}{x['op']}" + (f" via {x['via']}" if x.get("via") else "") + (
             f"({x.get('deco')})" if x["op"] == "attr" else f"(atom {x['a']} -> {x['e']})" if x["op"] == "relabel" else
             f"({x['a']},{x['b']})" if x["op"] == "connect" else f"(bond {x['i']})" if x["op"] in ("delbond", "rebond") else
             f"(atom {x['a']})" if x["op"] in ("delatom", "label") else f"({x['e']})")
             for x in t["ev"][:l - 1] if x["ev"] in ("edit", "pedit")]
    cur = [x for x in t["ev"][:l - 1] if x["ev"] in ("graph", "edit")][-1]
    now = {"n": cur["n"], "el": cur["el"], "bonds": [[a, b, "?"] for a, b, _ in cur["bonds"]]}
    if e["ev"] == "matchp":
        what = (f"graph n={now['n']} el={now['el']} bonds={[(a, b) for a, b, _ in now['bonds']]}: {e['api']} of the pattern object "
                f"(el={e['pel']}, bonds={t['pattern']['bonds']}) returned {len(e['maps'])} maps {e['maps'][:6]}")
    else:
        what = describe(now, None, e)
    return f"{t['case'].get('cls')} graph after the edits {edits}, asked through handle '{e.get('h')}': {what}"


def describe(case, q, e):
    g = f"graph n={case['n']} bonds={[(a, b) for a, b, _ in case['bonds']]}"
    if e is None:
        return g
    if e["ev"] == "bfs":
        how = {"atom": "Atom", "index": "int index", "label": "label", None: "Atom"}
        arg = lambda a, f: f"atom {a} as {how.get(f, f)}" + (f" {a - 1}" if f == "index" else "")
        return (f"{g}: yield_{e['api']}(start={arg(e['s'], e.get('fs'))}, "
                f"direction={arg(e['d'], e.get('fd')) if e['d'] else None}) yielded {e['y']}")
    if e["ev"] == "ring":
        return f"{g}: is_bond_in_ring(bond {case['bonds'][e['b'] - 1][:2]}) = {e['res']}"
    if e["ev"] == "local":
        return f"{g}: atom {e['a']}: connected_atoms={e['nbrs']} bonds_with_atom={e['bonds']} 2*bonded_valence={e['v2']}"
    if e["ev"] == "match":
        deco = ""
        if case.get("deco") or (q or {}).get("pat", {}).get("deco"):
            deco = (f"; attributes that must not matter - target atoms {case.get('deco')}, "
                    f"pattern atoms {(q or {}).get('pat', {}).get('deco')}")
        return (f"{g} el={case['el']}: {e['api']} of pattern n={e['pn']} el={e['pel']} bonds={e['pb']} ({e['mode']}) "
                f"returned {len(e['maps'])} maps {e['maps'][:6]}{deco}")
    return f"{g}: query {q or e.get('q')} raised {e.get('exc')}: {e.get('msg')}"


# --------------------------------------------------------------------------------------------------
# binding self-test: corrupted traces and code mutants must be rejected

def corruptions(tr, rnd):
    """Single-field corruptions of accepted events; each yields (name, [graph event, corrupted event])."""
    gev = tr["ev"][0]
    out = []
    for e in tr["ev"][1:]:
        c = copy.deepcopy(e)
        if e["ev"] == "bfs" and e["api"] == "bfsd" and e["y"]:
            i = rnd.randrange(len(e["y"]))
            c["y"][i][1] += 1
            out.append(("distance+1", c))
            c2 = copy.deepcopy(e); c2["y"].pop()
            out.append(("last-yield-dropped", c2))
            c3 = copy.deepcopy(e); c3["y"].append(list(c3["y"][0]))
            out.append(("yield-repeated", c3))
            ks = [k for _, k in e["y"]]
            if ks[0] != ks[-1]:
                c4 = copy.deepcopy(e); c4["y"][0], c4["y"][-1] = c4["y"][-1], c4["y"][0]
                out.append(("levels-out-of-order", c4))
            c5 = copy.deepcopy(e); c5["y"].append([e["s"], 2])
            out.append(("start-yielded", c5))
        elif e["ev"] == "bfs" and e["y"]:
            c["y"].pop()
            out.append(("bfs-last-yield-dropped", c))
            ks = len(e["y"])
            if ks >= 2:
                c2 = copy.deepcopy(e); c2["y"][0] = list(c2["y"][1])
                out.append(("bfs-yield-repeated", c2))
        elif e["ev"] == "ring":
            c["res"] = not c["res"]
            out.append(("ring-flag-flipped", c))
        elif e["ev"] == "local":
            c["v2"] += 1
            out.append(("valence+half", c))
            if e["nbrs"]:
                c2 = copy.deepcopy(e); c2["nbrs"].pop()
                out.append(("neighbour-dropped", c2))
                c3 = copy.deepcopy(e); c3["bonds"][0] = c3["bonds"][0] % len(gev["bonds"]) + 1
                if len(gev["bonds"]) > 1:
                    out.append(("wrong-bond-listed", c3))
        elif e["ev"] == "match" and e["maps"]:
            if e["mode"] == "exact":
                c["maps"].pop(rnd.randrange(len(c["maps"])))
                out.append(("embedding-dropped", c))
            c2 = copy.deepcopy(e)
            if e["pn"] >= 2:
                m = list(c2["maps"][0]); m[1] = m[0]
                c2["maps"].append(m)
                out.append(("non-injective-map-added", c2))
    return [(name, {"tid": None, "ev": [gev, c]}) for name, c in out]


def self_test(pool, accepted, seed, rep, ev):
    rnd = random.Random(f"{seed}/canary")
    # (1) corrupted traces
    pool_tr = [t for t in accepted if 3 <= t["ev"][0]["n"]]
    rnd.shuffle(pool_tr)
    canaries, per_kind = [], {}
    for t in pool_tr[:400]:
        for name, c in corruptions(t, rnd):
            if per_kind.get(name, 0) < 12:
                per_kind[name] = per_kind.get(name, 0) + 1
                c["tid"] = f"canary-{name}-{per_kind[name]}"
                canaries.append(c)
    verdicts, _ = T.validate("GraphQTrace", canaries, TRACE_CFG, chunk=100, par=4, tag="c15can")
    survived = [tid for tid, v in verdicts.items() if v[0] == "ACCEPT"]
    if survived or len(per_kind) < 10:
        raise tlc.MachineryError(f"binding self-test: corrupted traces accepted by GraphQTrace: {survived[:5]} "
                                 f"(kinds built: {sorted(per_kind)})")
    # (2) wrong implementations patched over the real methods
    names = sorted(G.mutants())
    futs = {n: pool.submit(G.job_mutant, n, seed) for n in names}
    mres = {}
    alltr = []
    for n in names:
        trs = futs[n].result()
        alltr += [{"tid": t["tid"], "ev": t["ev"]} for t in trs]
    verdicts2, _ = T.validate("GraphQTrace", alltr, TRACE_CFG, chunk=125, par=LANES, tag="c15mut")
    for n in names:
        rej = [tid for tid, v in verdicts2.items() if tid.startswith(f"mut-{n}-") and v[0] != "ACCEPT"]
        tot = sum(1 for tid in verdicts2 if tid.startswith(f"mut-{n}-"))
        mres[n] = {"traces": tot, "rejected": len(rej)}
        if not rej:
            raise tlc.MachineryError(f"binding self-test: code mutant {n} was accepted on all {tot} traces")
    ev.set(self_test={"corrupted_traces": len(canaries), "corruption_kinds": per_kind, "all_rejected": True,
                      "code_mutants": mres})
    rep.note(f"self-test: {len(canaries)} corrupted traces ({len(per_kind)} kinds) all rejected; "
             f"{len(names)} code mutants all rejected: " + ", ".join(f"{n} {m['rejected']}/{m['traces']}" for n, m in mres.items()))


# --------------------------------------------------------------------------------------------------
def run(tier, seed, replay_path):
    if replay_path:
        return do_replay(replay_path)
    ev = Evidence(PROP, tier, seed)
    rep = Reporter(PROP, ev)
    t0 = time.time()
    tally = Tally()
    bad = []            # (label, trace, stuck event number)
    keep = []           # some accepted traces for the self-test and the samples
    jobs = plan(tier, seed)
    lock = threading.Lock()
    nbad = 0
    skipped = []
    # spawn (not fork): the pool is used from several threads, and a fork while another thread holds the import
    # lock leaves the child blocked for ever; the children are started and import molli before any thread exists
    with ProcessPoolExecutor(PROCS, mp_context=multiprocessing.get_context("spawn")) as pool, \
            ThreadPoolExecutor(LANES + 1) as lanes:
        if sum(pool.map(G.warm, range(PROCS * 2))) < 1:
            raise tlc.MachineryError("worker processes did not start")
        fmodel = lanes.submit(model_runs, ev, tier)
        futs = [lanes.submit(lane, pool, j, tally, lock) for j in jobs]
        for f in as_completed(futs):
            b, nb, k, sk = f.result()
            skipped += sk
            bad += b
            nbad += nb
            keep += k
        del futs
        h = tally.hist
        for tid, e in skipped[:3]:
            rep.note(f"history {tid}: edit outside the model (not judged by C15): {json.dumps(e)[:300]}")
        if h["histories"] and h["abandoned_at_edit"] * 2 > h["histories"]:
            raise tlc.MachineryError(f"vacuity guard: most histories were abandoned at an edit: {h}")
        need = [f"{r}:{f}" for r in ("start", "direction", "atom-argument") for f in G.FORMS] + \
               ["direction passed as the integer 0", "start passed as the integer 0", "history query through view",
                "graph class:Substructure"]
        if any(tally.forms.get(k, 0) < 20 for k in need):
            raise tlc.MachineryError(f"vacuity guard: an AtomLike form was (almost) never used: {tally.forms}")
        t_lanes = time.time() - t0
        bad.sort(key=size_key)                  # smallest graphs first: the report is the smallest reproducer found
        keep.sort(key=lambda t: t["tid"])
        devs = fmodel.result()
        rep.note(f"model: {len(ev.cov['tlc_runs'])} TLC runs hold; deviations caught: {devs}")
        t1 = time.time()
        if not bad:
            self_test(pool, keep, seed, rep, ev)
        ev.set(wall_s_parts={"record+validate": round(t_lanes, 1), "model (concurrent)": ev.cov.get("model_wall_s"),
                             "self-test": round(time.time() - t1, 1)})
        rep.note(f"wall: {ev.cov['wall_s_parts']}")
    ev.cov["tlc_runs"].append({"role": "trace validation of recorded executions (GraphQTrace)", "batches": len(jobs),
                               "generated": tally.generated, "tlc_wall_s_sum": round(tally.tlc_wall, 1)})
    ev.cov["transitions"] += tally.generated
    # violations: one report per (kind of query, api/mode), at most 8
    reported = {}
    for label, t, l, why in bad:
        q, e = failing_query(t, l)
        sig = (e or {}).get("ev"), (e or {}).get("api"), (e or {}).get("mode"), bool(t.get("hist"))
        if sig in reported:
            reported[sig] += 1
            continue
        if len(reported) >= 8:
            continue
        reported[sig] = 1
        if t.get("hist"):
            rep.violation("graphq-history", {"case": t["case"], "pattern": t["pattern"], "flavour": t["flavour"],
                                             "script": t["script"][:l - (len(t["ev"]) - len(t["script"]))], "event": e, "stuck_at": l, "why": why,
                                             "where": label, "tier": tier, "seed": seed},
                          what=f"no step of GraphQ explains: {describe_history(t, l)}"[:900])
            continue
        rep.violation("graphq-trace", {"case": t["case"], "query": q, "event": e, "stuck_at": l, "why": why, "where": label,
                                       "tier": tier, "seed": seed},
                      what=(f"no step of GraphQ explains: {describe(t['case'], q, e)}"
                            + (f"; at yield {why[0]}: breaks {why[1]}" if why and e and e.get("ev") == "bfs" else ""))[:700])
    nq = sum(tally.events.values())
    ev.count(evaluations=nq, distinct_nontrivial=len(tally.distinct), traces=tally.traces)
    ev.set(rule="one evaluation = one real query (one traversal with all its yields, one ring flag, one neighbour/bond/"
                "valence listing, one match call with its full result list) validated by TLC against GraphQ; "
                "distinct_nontrivial = distinct (graph, query) pairs whose answer is not forced (traversal with >= 2 yields, "
                "ring flag, atom with a neighbour, pattern with >= 2 atoms)",
           queries=tally.events, histories=tally.hist, edits_between_queries=tally.edits, atomlike_forms=tally.forms, yields_validated=tally.yields, mappings_validated=tally.maps, graphs=tally.graphs,
           max_atoms=tally.max_atoms, workload=tally.by_label, rejected_traces=nbad, deviations_caught=devs,
           exhaustive=True,
           exhaustive_scope=f"every labelled graph on <= {6 if tier == 'thorough' else 5} atoms x every start x every direction "
                            f"x every bond x every atom; every labelled target on <= {5 if tier == 'thorough' else 4} atoms x every "
                            "connected pattern on <= 3 atoms and one relabelled member of each class on 4 atoms; random beyond")
    smp = [t for t in keep if t["ev"][0]["n"] >= 5][:400]
    pick = []
    for want in ("bfs", "ring", "match"):
        for t in smp:
            es = [e for e in t["ev"][1:] if e["ev"] == want and nontrivial(e)]
            if es:
                e = dict(es[len(es) // 2])
                if "maps" in e:
                    e["maps"] = e["maps"][:8]
                pick.append({"graph": t["ev"][0], "accepted_event": e})
                break
    ev.add_samples(pick, 3)
    ev.assumptions += [
        "molecular graph = simple graph (no loop, no parallel bond); atoms and bonds identified by their position in the lists",
        "directed traversal: the distance required is the length of the shortest path that starts with the bond start-direction "
        "and never returns to the start (what a breadth-first search through that neighbour measures)",
        "matching: Unknown is a wildcard in the PATTERN only (targets of matching carry no Unknown atoms); exact equality of the "
        "result set is demanded where all bonds have one type or all pattern bonds are Unknown; with mixed bond types the code "
        "may filter by type, so only validity of every returned map and presence of the cut-out position are demanded",
        "bond types of matching limited to those the matcher implements (Single, Double, Triple, Aromatic, Amide, Unknown)",
        "order of yields inside one distance level, order of result lists, exception-free construction are not constrained",
        "atoms are passed to the queries as Atom objects, integer indices (0 included) and unique labels, rotating per query; "
        "the Element form (first atom of that element) is not used",
        "histories: element / label / bond-type edits in place and connect / del_bond on every class, append_atom / del_atom on "
        "Connectivity only; after an edit the bond-list order is free, atoms keep their relative order; an edit whose visible "
        "result is not the edited graph is reported as a note and the rest of that history is not judged (edits are not C15)",
        "several handles: an ensemble and two held Conformer views of it (queries and connect / del_bond through any of them), the "
        "live bond list (append / remove) for every class; all denote the one graph of the specification",
        "attributes the property does not name (atom type, geometry, label, formal charge / spin, attrib on both sides; isotope, "
        "stereo descriptor, bond stereo / label / f_order on the target side) are varied independently and must not change a "
        "match; isotope and stereo of PATTERN atoms, which the matcher documents as query fields, stay at their defaults",
        "trusted: TLC, the Json module, the adapter's position bookkeeping",
    ]
    rep.note(f"{tally.graphs} graphs (max {tally.max_atoms} atoms), {nq} queries {tally.events}, {tally.yields} yields, "
             f"{tally.maps} mappings validated; {nbad} traces rejected; {time.time() - t0:.0f} s")
    return rep.finish()


def do_replay(path):
    doc = json.loads(open(path).read())
    if doc.get("kind") == "graphq-history":
        evs, script = G.history(doc["case"], doc["pattern"], doc["flavour"], script=doc["script"])
        t = {"tid": "replay", "ev": evs, "case": doc["case"], "pattern": doc["pattern"], "script": script, "hist": True}
        verdicts, results = T.validate("GraphQTrace", [{"tid": "replay", "ev": evs}], TRACE_CFG, tag="c15rp")
        v = verdicts["replay"]
        print(json.dumps({"events": evs[-4:], "verdict": v})[:3000])
        if v[0] != "ACCEPT" and evs[v[1] - 1]["ev"] not in SETUP_EVENTS:
            print(f"VIOLATION property={PROP} replay={path}")
            print(f"  no step of GraphQ explains: {describe_history(t, v[1])}"[:900])
            return 1
        return 0
    case, q = doc["case"], doc["query"]
    if q is None:
        evs = G.record(case, [])
    else:
        evs = G.record(case, [q])
    verdicts, results = T.validate("GraphQTrace", [{"tid": "replay", "ev": evs}], TRACE_CFG, tag="c15rp")
    print(json.dumps({"events": evs, "verdict": verdicts["replay"], "why": reasons(results).get("replay")})[:3000])
    if verdicts["replay"][0] != "ACCEPT":
        print(f"VIOLATION property={PROP} replay={path}")
        print(f"  no step of GraphQ explains: {describe(case, q, evs[-1])}"[:700])
        return 1
    return 0
