"""C03 — a crash while appending never damages committed records or shows a torn one.

M: TLC checks UKVCrash (every crash offset of sessions with tiny lengths; deviation TornTailAccepted
   must violate).  B (primary): real append sessions, byte stream recorded by a stream wrapper,
   every byte offset turned into a crash image, real recovery histories run on it, and every event
   trace validated by TLC against UKVCrash (UKVCrashTrace)."""
from __future__ import annotations
import json, random, itertools
from ..common import Reporter, model_check, expect_violation
from ..evidence import Evidence
from .. import trace as T
from ..drivers_crash import CrashLab, offsets, boundaries

PROP = "C03"
INV = ("CommittedSurvive", "ViewIsComplete", "NoPartialKey", "NoGapOnAppend", "NoDuplicate")


def mc_cfg(dev="DevNone"):
    return dict(spec="Spec", constants={"RecPool": "<- Pool", "MaxRecs": 3, "Bof": 32, "MaxStream": 24, "Deviations": f"<- {dev}"},
                invariants=INV, properties=("RecoveredAppendable",), view="View")


TRACE_CFG = dict(spec="TraceSpec", constants={"RecPool": "<- Pool0", "MaxRecs": 100000, "Bof": 0, "MaxStream": 0,
                                              "Deviations": "<- DevNone"},
                 invariants=INV)


def key(n, c=b"k"):
    return (c * n)[:n]


def catalogue(tier, seed):
    """(hdr, base records, session puts).  Key lengths {1,2,255}, value lengths {0,1,7,4096,70000}."""
    rnd = random.Random(seed)
    val = lambda n, s=0: bytes(random.Random(1000 + n + s).getrandbits(8) for _ in range(n))
    full = (b"MBVTYPE1", b"a comment", b"\x00\x01desc")
    cat = [
        (None, [], [(b"a", b"")]),
        (None, [], [(b"a", b"x"), (b"bb", val(7))]),
        (full, [(b"c0", val(7, 1))], [(b"a", val(7)), (b"bb", b""), (b"ccc", b"z")]),
        (None, [(b"c0", b""), (b"c1", val(4096))], [(key(255), val(1))]),
        (full, [(b"c0", val(1))], [(key(255, b"q"), b""), (b"s", val(7))]),
        (None, [(key(255, b"z"), val(7))], [(b"a", val(4096)), (b"b", val(1))]),
    ]
    if tier == "thorough":
        cat += [
            (None, [(b"c0", val(70000))], [(b"a", val(70000, 3)), (b"bb", val(7))]),
            (full, [], [(b"a", val(4096)), (key(255), val(4096, 2)), (b"c", b"")]),
        ]
        for i in range(90):
            nb, ns = rnd.randint(0, 2), rnd.randint(1, 4)
            ks = [key(rnd.choice([1, 2, 3, 255]), bytes([97 + j])) + bytes([48 + j]) for j in range(nb + ns)]
            ks = [k[:255] for k in ks]
            vs = [val(rnd.choice([0, 1, 7, 33, 300, 4096]), j) for j in range(nb + ns)]
            cat.append((rnd.choice([None, full]), list(zip(ks[:nb], vs[:nb])), list(zip(ks[nb:], vs[nb:]))))
    else:
        for i in range(3):
            nb, ns = rnd.randint(0, 2), rnd.randint(1, 3)
            ks = [bytes([97 + j]) * rnd.choice([1, 2, 3]) for j in range(nb + ns)]
            vs = [val(rnd.choice([0, 1, 7, 33]), j) for j in range(nb + ns)]
            cat.append((rnd.choice([None, full]), list(zip(ks[:nb], vs[:nb])), list(zip(ks[nb:], vs[nb:]))))
    return cat


def build_traces(lab, si, hdr, base, puts, tier):
    s = lab.session(hdr, base, puts)
    traces, meta = [], {}
    problems = list(s["problems"])
    # the un-crashed session itself is a trace, too
    traces.append({"tid": f"s{si}-full", "ev": s["ev"] + [s["full_close"]]})
    meta[f"s{si}-full"] = {"session": si, "kind": "full"}
    offs = offsets(len(s["stream"]), boundaries(puts), exhaustive_below=700 if tier == "quick" else 2000)
    exhaustive = len(offs) == len(s["stream"]) + 1
    for p in offs:
        # first incomplete record of the session at offset p (for the "re-put the torn key" history)
        pos, torn = 0, None
        for k, v in puts:
            if pos + 5 + len(k) + len(v) > p:
                torn = k
                break
            pos += 5 + len(k) + len(v)
        kinds = ["r", "anew", "coll_r", "ra_same", "same_ara", "coll_rw"] + (["atorn"] if torn is not None else [])
        for kind in kinds:
            ev, info = lab.recover(s, p, kind, extra=torn)
            tid = f"s{si}-p{p}-{kind}"
            traces.append({"tid": tid, "ev": s["ev"] + ev})
            meta[tid] = {"session": si, "p": p, "kind": kind}
            near = any(abs(p - b_) <= 2 for b_ in boundaries(puts))
            if kind == "anew" and "ops" in info and (near or p % (7 if tier == "quick" else 5) == 0):
                # second crash at every offset of the put that followed recovery
                qs = list(range(0, 5 + 22 + 36 + 1))
                pre = [e for e in ev if e["ev"] in ("crash",)] + [e for e in ev[1:3]]   # crash, open a, put
                res, n = lab.second_crash(s, p, info, qs)
                for q, ev2 in res:
                    tid2 = f"s{si}-p{p}-anew-q{q}"
                    traces.append({"tid": tid2, "ev": s["ev"] + ev[:3] + ev2})
                    meta[tid2] = {"session": si, "p": p, "kind": "crash2", "q": q}
    return traces, meta, problems, {"stream_len": len(s["stream"]), "offsets": len(offs), "exhaustive": exhaustive}


def run(tier, seed, replay_path):
    ev = Evidence(PROP, tier, seed)
    rep = Reporter(PROP, ev)
    if replay_path:
        return do_replay(replay_path)
    model_check(ev, "MCUKVCrash", mc_cfg(), role="UKVCrash: all crash offsets of sessions with lengths 0..3",
                tag="c03mc", require_actions=("Open", "Put", "Close", "Crash"))
    expect_violation("MCUKVCrash", mc_cfg("DevTorn"), INV, tag="c03dev")
    cat = catalogue(tier, seed)
    lab = CrashLab()
    all_traces, all_meta, sess_info = [], {}, []
    try:
        for si, (hdr, base, puts) in enumerate(cat):
            traces, meta, problems, info = build_traces(lab, si, hdr, base, puts, tier)
            for t in traces:
                all_meta[t["tid"]] = {**meta[t["tid"]], "cat": si}
            all_traces += traces
            sess_info.append({"session": si, "base": [(len(k), len(v)) for k, v in base],
                              "puts": [(len(k), len(v)) for k, v in puts], **info})
            for pr in problems:
                rep.violation("append-only", {"session": si, "problem": pr}, what=pr)
    finally:
        lab.cleanup()
    verdicts, results = T.validate("UKVCrashTrace", all_traces, TRACE_CFG, chunk=1500, par=12, tag="c03tr")
    for r in results:
        ev.add_tlc(r, "trace validation batch")
    ev.cov["tlc_runs"] = ev.cov["tlc_runs"][:2] + [{"role": "trace validation", "batches": len(results),
                                                   "generated": sum(r.generated for r in results)}]
    bad = [(tid, v) for tid, v in verdicts.items() if v[0] != "ACCEPT"]
    tmap = {t["tid"]: t for t in all_traces}
    reported = set()
    for tid, (v, l) in sorted(bad)[:400]:
        m = all_meta[tid]
        t = tmap[tid]
        sig = (m["cat"], m["kind"], t["ev"][l - 1]["ev"] if l and l <= len(t["ev"]) else "?")
        if sig in reported:
            continue
        reported.add(sig)
        hdr, base, puts = cat[m["cat"]]
        rep.violation("crash-trace", {"meta": m, "tier": tier, "seed": seed, "stuck_at": l,
                                      "event": t["ev"][l - 1] if l and l <= len(t["ev"]) else None,
                                      "trace": t["ev"]},
                      what=f"{tid}: no step of UKVCrash explains event {l}: {json.dumps(t['ev'][l-1]) if l and l <= len(t['ev']) else ''}"[:400])
        if len(reported) >= 8:
            break
    n_img = len({(m["cat"], m.get("p")) for m in all_meta.values() if "p" in m})
    ev.count(evaluations=len(all_traces), distinct_nontrivial=n_img, traces=len(all_traces))
    ev.set(rule="one case = one (session, crash offset, recovery history) executed on the real code and validated as "
                "a trace of UKVCrash; distinct_nontrivial = distinct crash images",
           sessions=sess_info, rejected_traces=len(bad), exhaustive=False)
    ev.add_samples([all_traces[len(all_traces) // 3]["ev"][-4:], all_traces[-1]["ev"][-5:]])
    ev.assumptions += ["a crash leaves a prefix of the logical byte stream of the session (no reordering of OS writes)",
                       "the file header of an existing library is intact",
                       "all offsets exhaustive for session streams up to 700 (quick) / 5000 (thorough) bytes, "
                       "+-6 bytes around every structural boundary beyond"]
    rep.note(f"{len(cat)} sessions, {n_img} crash images, {len(all_traces)} traces validated, {len(bad)} rejected")
    return rep.finish()


def do_replay(path):
    doc = json.loads(open(path).read())
    if doc["kind"] != "crash-trace":
        print(json.dumps(doc, indent=1)[:2000])
        return 1
    m = doc["meta"]
    cat = catalogue(doc["tier"], doc["seed"])
    hdr, base, puts = cat[m["cat"]]
    lab = CrashLab()
    try:
        traces, meta, problems, info = build_traces(lab, m["cat"], hdr, base, puts, doc["tier"])
    finally:
        lab.cleanup()
    want = [t for t in traces if meta[t["tid"]].get("p") == m.get("p") and meta[t["tid"]]["kind"] == m["kind"]
            and meta[t["tid"]].get("q") == m.get("q")]
    verdicts, _ = T.validate("UKVCrashTrace", want, TRACE_CFG, tag="c03rp")
    bad = {k: v for k, v in verdicts.items() if v[0] != "ACCEPT"}
    print(json.dumps({"verdicts": verdicts}, indent=1))
    if bad:
        print(f"VIOLATION property={PROP} replay={path}")
        return 1
    return 0
