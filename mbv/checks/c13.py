"""C13 — CDXML parsing reproduces the drawing: constitution, charges, and handedness.

M: TLC checks Cdxml.tla (MCCdxml): the reference model of the parser (node / bond tables, nested-fragment
   expansion, label cache) over a pool of small drawings satisfies every clause of the property for every
   look-up history; every named deviation must violate its clause.
B: every bundled CDXML file and seeded variants of it (stereo marks mirrored, page translated, page children
   permuted, ids renumbered, atom records reordered, and compositions) are parsed by the real CDXMLFile through
   several objects and look-up orders (by text and by position, with keys()/len() in between); after every look-up
   the caller edits the molecule it was given through public calls (hydrogens added, charge edited, atom deleted,
   coordinates moved) and looks the label up again, on the same object and on a fresh one: every look-up must yield
   the drawing's content (object identity is only counted, never judged); an independent ElementTree walk supplies the abstract drawing; each
   file is one trace (Drawn, Open, Keys, Parsed, Mutated, Again, Related) that TLC validates against CdxmlTrace / Cdxml."""
from __future__ import annotations
import json, math, random, re, shutil, time
from concurrent.futures import ThreadPoolExecutor
from pathlib import Path
from ..common import Reporter, model_check, expect_violation
from ..evidence import Evidence
from .. import trace as T, tlc
from ..adapters import cdxml as A

PROP = "C13"
WORKERS = 4

# Defects of the pinned tree that would need a redesign (none for C13: the pinned tree satisfies the property
# on every bundled file and generated variant).  Format: id -> {"signature": {...}, "what": str}
KNOWN: dict = {}

PROPS = ("P_ParsesAtAll", "P_ResolvesAsDrawn", "P_ResolvesStably", "P_Deterministic", "P_AtomsAsDrawn",
         "P_AttachmentPoints", "P_BondsAsDrawn", "P_ChargeMultFollow", "P_MirrorKeepsConstitution",
         "P_MirrorFlipsHandedness", "P_DistinctObject", "P_Accepts")
DEVS = {"DevMemo": "P_Deterministic", "DevMemoContent": "P_AtomsAsDrawn", "DevMemoCharge": "P_ChargeMultFollow", "DevChargeSign": "P_AtomsAsDrawn", "DevIsotope": "P_AtomsAsDrawn", "DevRadical": "P_AtomsAsDrawn",
        "DevAromatic": "P_BondsAsDrawn", "DevNestedBond": "P_BondsAsDrawn", "DevNestedCharge": "P_ChargeMultFollow",
        "DevAP": "P_AttachmentPoints", "DevCache": "P_ResolvesAsDrawn", "DevHashEnd": "P_MirrorFlipsHandedness",
        "DevHashLigand": "P_MirrorKeepsConstitution"}
TRACE_CFG = dict(spec="TraceSpec", constants={"Files": "<- NoFiles", "MaxLookups": 0, "Deviations": "<- DevNone"})

# variant plans: (name, kinds, base).  rel = "mirror" iff "mirror" in kinds, else "same"; base = "orig" or an earlier name
PLAN_QUICK = [("m", ("mirror",), "orig"), ("tp", ("translate", "permute"), "orig"),
              ("rl", ("renumber", "low"), "orig"), ("rlm", ("mirror", "shuffle", "nodes"), "rl")]
# outside the quantifier of C13 (bond records reordered): reported as a note, never as a violation
PLAN_EXTRA = [("xb1", ("shuffle", "bonds"), "orig"), ("xb2", ("shuffle", "bonds"), "orig"), ("xb3", ("shuffle", "bonds"), "orig")]


def plan(tier):
    if tier != "thorough":
        return list(PLAN_QUICK)
    p = list(PLAN_QUICK)
    for i in range(3):
        p += [(f"t{i}", ("translate",), "orig"), (f"p{i}", ("permute",), "orig"), (f"r{i}", ("renumber",), "orig"),
              (f"s{i}", ("renumber", "small"), "orig"), (f"a{i}", ("shuffle", "nodes"), "orig"),
              (f"c{i}", ("translate", "permute", "renumber", "low", "shuffle", "nodes"), "orig"),
              (f"cm{i}", ("mirror",), f"c{i}"), (f"am{i}", ("mirror",), f"a{i}"),
              (f"mc{i}", ("mirror", "translate", "permute", "renumber", "shuffle", "nodes"), "orig")]
    return p


def bundled():
    import molli
    d = Path(molli.__file__).parent / "files"
    return sorted(p for p in d.glob("*.cdxml"))


def labels_of(drawn):
    out = []
    for t in drawn["labels"]:
        if t["ns"] == 1 and t["face"] == "1" and t["text"] not in out:
            out.append(t["text"])
    return out


def guesses(drawn, label):
    valid = {k: v for k, v in drawn["frags"].items() if v["nb"] > 0}
    ts = [t for t in drawn["labels"] if t["ns"] == 1 and t["face"] == "1" and t["text"] == label]
    order = []
    for t in ts:
        order += [k for k, v in valid.items() if t["grp"] and v["grp"] == t["grp"]]
        order += sorted(valid, key=lambda k: abs(valid[k]["x"] - t["x"]) + abs(valid[k]["y"] - t["y"]))[:6]
    seen, out = set(), []
    for k in order:
        if k not in seen:
            seen.add(k)
            out.append(k)
    return out or list(valid)[:1]


STUB = {"fid": "", "oid": "", "atoms": {"_": {"el": 0, "iso": 0, "q": 0, "nrad": 0, "ap": False}},
        "bonds": {"_": {"a": "_", "b": "_", "ord": ""}},
        "charge": 0, "mult": 0, "natoms": 0, "nbonds": 0, "cdig": "", "gdig": ""}


def jsonable_drawn(drawn):
    """TLC-friendly copy: no empty objects where the spec takes DOMAIN of a possibly heterogeneous value."""
    d = json.loads(json.dumps(drawn))
    for fr in d["frags"].values():
        fr["multi"] = {**fr["multi"], "_": []}
        if not fr["bonds"]:
            fr["bonds"] = {"_": {"a": "_", "b": "_", "ord": "", "disp": "", "own": ""}}
            fr["nb"] = 0
    return d


def run_file(path, tid, rnd, base=None, rel=None, keymap=None, stats=None):
    """All real calls on one file -> (trace, results {label: (out, R, aux)}, drawn)."""
    drawn = A.walk(path)
    labs = labels_of(drawn)
    ev = [jsonable_drawn(drawn)]
    res = {}

    alive, tokens = [], {}            # every molecule ever handed out stays alive, so id() is a faithful object token

    def token(mol):
        alive.append(mol)
        if id(mol) in tokens and stats is not None:
            stats["reused_objects"] += 1           # informational only: object identity never decides a verdict
        return tokens.setdefault(id(mol), f"o{len(tokens) + 1}")

    def look(h, hid, lab, full=True, by_index=False, edit=None):
        """One public look-up (by label text or by position in keys()), observed at once; then, optionally, the caller
        edits the molecule it was given (that must never show in a later look-up)."""
        out, mol = h.get(keys_of[hid].index(lab) if by_index else lab)
        via = "index" if by_index else "label"
        if out != "ok":
            if full:
                res.setdefault(lab, (out, None, None))
                ev.append({"ev": "Parsed", "h": hid, "label": lab, "via": via, "out": out, "R": STUB})
            else:
                ev.append({"ev": "Again", "h": hid, "label": lab, "via": via, "out": out, "fid": "", "cdig": "", "gdig": "", "oid": ""})
            return
        R, aux = A.observe(mol, drawn, lab, guesses(drawn, lab))
        R["oid"] = token(mol)
        if full:
            res.setdefault(lab, (out, R, aux))
            ev.append({"ev": "Parsed", "h": hid, "label": lab, "via": via, "out": "ok", "R": R})
        else:
            ev.append({"ev": "Again", "h": hid, "label": lab, "via": via, "out": "ok", "fid": R["fid"], "cdig": R["cdig"],
                       "gdig": R["gdig"], "oid": R["oid"]})
        if stats is not None:
            stats["calls"] += 1
            stats["digests"].add((R["cdig"], R["gdig"]))
        if edit:
            how = A.mutate(mol, edit)
            ev.append({"ev": "Mutated", "h": hid, "label": lab, "oid": R["oid"], "how": how or ["none"]})
            if stats is not None:
                stats["mutations"] += len(how)

    def keys_event(h, hid):
        ev.append({"ev": "Keys", "h": hid, "keys": h.keys(), "n": h.n()})

    keys_of = {}
    h1 = A.Handle(path)
    keys_of[1] = h1.keys()
    ev.append({"ev": "Open", "h": 1, "keys": keys_of[1]})
    k0 = rnd.randrange(len(A.EDITS))
    # pass 1: every label once, by text; the caller then works on what it got (kind of edit rotates over the labels)
    for i, lab in enumerate(labs):
        look(h1, 1, lab, edit=A.EDITS[(i + k0) % len(A.EDITS)])
        if i % 7 == 3:
            keys_event(h1, 1)
    # pass 2: same object, other order, interleaved with keys()/len(), alternately by position and by text; every
    # look-up must again give the drawing (a new object), not what the caller made of the earlier one; then edit again
    for i, lab in enumerate(reversed(labs)):
        look(h1, 1, lab, full=(i % 3 == 0), by_index=(i % 2 == 0), edit=A.EDITS[(i + k0 + 2) % len(A.EDITS)])
        if i % 7 == 5:
            keys_event(h1, 1)
    # pass 3: a third look-up of a few labels, after two rounds of edits
    for lab in rnd.sample(labs, min(len(labs), 8)):
        look(h1, 1, lab, full=False, by_index=rnd.random() < 0.5)
    h2 = A.Handle(path)                        # a second object, seeded order: nothing may depend on the history
    keys_of[2] = h2.keys()
    ev.append({"ev": "Open", "h": 2, "keys": keys_of[2]})
    order = labs[:]
    rnd.shuffle(order)
    for i, lab in enumerate(order):
        look(h2, 2, lab, full=(i % 3 == 0), edit=("all" if i % 4 == 1 else None))
    for lab in order[1::4][:6]:                # ... and again after the edits on the second object
        look(h2, 2, lab, full=False)
    if base is not None:
        km = keymap or {}
        for lab in labs:
            if lab not in res or lab not in base or res[lab][0] != "ok" or base[lab][0] != "ok":
                continue
            _, R, aux = res[lab]
            _, Rb, auxb = base[lab]
            pairs = A.volumes(auxb, aux, km)
            kmf = {k: km[k] for k in list(R["atoms"]) + [R["fid"]] if k in km and km[k] != k}
            kmf["_"] = "_"
            ev.append({"ev": "Related", "label": lab, "rel": rel, "keymap": kmf, "R": R,
                       "base": {k: Rb[k] for k in ("atoms", "bonds", "charge", "mult", "natoms", "nbonds")},
                       "pairs": [{"cv": p["cv"], "c": p["c"], "v0": p["v0"], "v1": p["v1"]} for p in pairs]})
            if stats is not None:
                for p in pairs:
                    stats["pairs"] += 1
                    if abs(p["v0"]) > 50 or abs(p["v1"]) > 50:
                        stats["nonplanar_" + rel] += 1
    return {"tid": tid, "ev": ev}, res, drawn


def build(tier, seed, work, only_file=None, extra=False):
    """-> traces, meta {tid: {...}}, stats"""
    stats = {"calls": 0, "mutations": 0, "reused_objects": 0, "digests": set(), "pairs": 0, "nonplanar_mirror": 0, "nonplanar_same": 0}
    traces, meta = [], {}
    pl = plan(tier) + (PLAN_EXTRA if extra else [])
    for fpath in bundled():
        fname = fpath.name
        if only_file and fname != only_file:
            continue
        stem = fpath.stem
        results, paths = {}, {"orig": fpath}
        tid = f"{stem}|orig"
        tr, res, drawn = run_file(fpath, tid, random.Random(f"{seed}|{fname}|orig|order"), stats=stats)
        if not labels_of(drawn):
            continue                                   # no labelled fragment in this file (substituents.cdxml)
        results["orig"] = res
        traces.append(tr)
        meta[tid] = {"file": fname, "variant": "orig", "kinds": [], "base": None, "extra": False}
        for name, kinds, basename in pl:
            dst = work / f"{stem}.{name}.cdxml"
            km = A.make_variant(paths[basename], dst, kinds, random.Random(f"{seed}|{fname}|{name}"))
            paths[name] = dst
            rel = "mirror" if "mirror" in kinds else "same"
            tid = f"{stem}|{name}"
            tr, res, _ = run_file(dst, tid, random.Random(f"{seed}|{fname}|{name}|order"), base=results[basename], rel=rel,
                                  keymap=km, stats=None if name.startswith("x") else stats)
            results[name] = res
            traces.append(tr)
            meta[tid] = {"file": fname, "variant": name, "kinds": list(kinds), "base": basename, "extra": name.startswith("x")}
    return traces, meta, stats


_RE_WHY = re.compile(r'<<\s*"WHY",\s*"([^"]*)",\s*(\d+),\s*(\{.*?\})\s*>>', re.S)   # TLC wraps long tuples over several lines


def whys(results):
    out = {}
    for r in results:
        for m in _RE_WHY.finditer(r.stdout):
            out[(m.group(1), int(m.group(2)))] = sorted(re.findall(r'"([^"]+)"', m.group(3)))
    return out


def validate(traces, tag):
    # big traces: few per TLC run, several runs in parallel (each TLC run is single-threaded)
    traces = sorted(traces, key=lambda t: -sum(len(e.get("R", {}).get("atoms", ())) + 5 for e in t["ev"]))
    n = max(1, math.ceil(len(traces) / (WORKERS * 3)))
    # interleave so that every batch gets a mix of large and small traces
    k = math.ceil(len(traces) / n)
    mixed = [t for i in range(k) for t in traces[i::k]]
    return T.validate("CdxmlTrace", mixed, TRACE_CFG, chunk=n, par=WORKERS, tag=tag, timeout=900)


def slim(e):
    if not isinstance(e, dict):
        return e
    if e.get("ev") == "Drawn":
        return {"ev": "Drawn", "fragments": len(e["frags"]), "labels": len(e["labels"])}
    return e


def run(tier, seed, replay_path):
    ev = Evidence(PROP, tier, seed)
    rep = Reporter(PROP, ev)
    if replay_path:
        return do_replay(replay_path)
    files = "FilesT" if tier == "thorough" else "FilesQ"
    nl = 3
    mc = lambda dev="DevNone", props=PROPS: dict(spec="Spec", constants={"Files": f"<- {files}", "MaxLookups": nl, "Deviations": f"<- {dev}"},
                                                 properties=props)
    props = PROPS if tier == "thorough" else ("P_Accepts", "P_MirrorKeepsConstitution", "P_MirrorFlipsHandedness")
    model_check(ev, "MCCdxml", mc(props=props), role=f"Cdxml reference parser model over {files}: every look-up history satisfies every clause",
                tag="c13mc", workers=WORKERS, require_actions=("AnyLookup", "AnyMutate", "Reopen"), timeout=1500)
    def one_dev(item):
        dev, prop = item
        return expect_violation("MCCdxml", dict(spec="Spec", constants={"Files": "<- FilesQ", "MaxLookups": 3, "Deviations": f"<- {dev}"},
                                                properties=(prop,)), (prop,), tag="c13dev", workers=1)
    with ThreadPoolExecutor(WORKERS) as ex:                      # non-vacuity: every deviation must break its clause
        for r in ex.map(one_dev, DEVS.items()):
            pass
    ev.cov["deviations_caught"] = dict(DEVS)
    work = tlc.workdir("c13files")
    t0 = time.time()
    try:
        traces, meta, stats = build(tier, seed, work, extra=(tier == "thorough"))
    finally:
        shutil.rmtree(work, ignore_errors=True)
    t_calls = time.time() - t0
    verdicts, results = validate(traces, "c13tr")
    ev.cov["tlc_runs"].append({"role": "trace validation (CdxmlTrace)", "batches": len(results),
                               "generated": sum(r.generated for r in results), "wall_s": round(sum(r.wall_s for r in results), 1)})
    why = whys(results)
    tmap = {t["tid"]: t for t in traces}
    bad = sorted((tid, v) for tid, v in verdicts.items() if v[0] != "ACCEPT")
    n_extra_bad = 0
    reported = set()
    for tid, (v, l) in bad:
        m = meta[tid]
        t = tmap[tid]
        e = t["ev"][l - 1] if l and l <= len(t["ev"]) else None
        w = why.get((tid, l), [])
        what = f"{tid}: event {l} ({(e or {}).get('ev')} label={(e or {}).get('label')!r}) breaks {w}"
        if m["extra"]:
            n_extra_bad += 1
            rep.note("outside the quantifier (bond records reordered), not a violation: " + what)
            continue
        sig = {"clauses": w, "file": m["file"], "label": (e or {}).get("label")}
        kn = next((k for k, f in KNOWN.items() if all(sig.get(a) == b for a, b in f["signature"].items())), None)
        if kn:
            rep.known(kn, KNOWN[kn]["what"])
            continue
        key = (m["file"], sig["label"], tuple(w))
        if key in reported or len(reported) >= 8:      # one replay per (file, label, clauses); the count stays in the evidence
            continue
        reported.add(key)
        rep.violation("cdxml-trace", {"meta": m, "tid": tid, "tier": tier, "seed": seed, "stuck_at": l, "why": w,
                                      "event": slim(e)}, what=what)
    n_main = sum(1 for t in traces if not meta[t["tid"]]["extra"])
    n_events = sum(len(t["ev"]) - 1 for t in traces if not meta[t["tid"]]["extra"])
    ev.count(evaluations=n_events, distinct_nontrivial=len(stats["digests"]), traces=n_main)
    ev.set(rule="one evaluation = one recorded event (keys()/len() of an object, a look-up by text or by position, a repeated "
                "look-up after the caller edited the molecule it had been given, such an edit, or a base/variant "
                "relation of one label) explained by a step of CdxmlTrace; distinct_nontrivial = distinct parsed results "
                "(constitution digest, geometry digest) among them",
           files=sorted({m["file"] for m in meta.values()}), variants_per_file=len(plan(tier)),
           real_lookups=stats["calls"], caller_edits_between_lookups=stats["mutations"],
           lookups_returning_an_already_handed_out_object=stats["reused_objects"], centre_pairs=stats["pairs"], nonplanar_pairs_mirror=stats["nonplanar_mirror"],
           nonplanar_pairs_same=stats["nonplanar_same"], rejected_traces=len(bad) - n_extra_bad,
           beyond_quantifier={"bond_record_order_traces": sum(1 for m in meta.values() if m["extra"]), "rejected": n_extra_bad},
           real_calls_wall_s=round(t_calls, 1), exhaustive=False)
    acc = [t for t in traces if verdicts[t["tid"]][0] == "ACCEPT"]
    if acc:
        small = min(acc, key=lambda t: len(json.dumps(t["ev"])))
        ev.add_samples([[slim(e) for e in small["ev"][:4]]], limit=1)
        rel = [e for t in acc for e in t["ev"] if e.get("ev") == "Related" and any(abs(p["v0"]) > 50 for p in e["pairs"])]
        if rel:
            e = min(rel, key=lambda e: len(json.dumps(e)))
            ev.add_samples([{"ev": "Related", "label": e["label"], "rel": e["rel"], "pairs": e["pairs"][:6],
                             "natoms": e["R"]["natoms"]}], limit=1)
    ev.assumptions += [
        "labels are text boxes with exactly one run of bold text (molli's documented convention); candidate fragments are "
        "children of the page or of a first-level group with at least one bond",
        "a label may resolve to the fragment grouped with it or to the nearest fragment above it (L1 or L2 metric): the "
        "property only demands that the answer is one of these and never changes",
        "nested fragments: one outer bond, one inner connection point (all bundled drawings); other shapes are out of scope",
        "Dash bonds and order tokens outside {1, 2, 3, 1.5} leave the bond type free; radical tokens outside "
        "{Doublet, Singlet} leave the count free",
        "handedness token of a centre: signed volume of its three neighbours seen from the centre (3 neighbours) or of every "
        "neighbour tetrahedron (>= 4 neighbours), 1e-3 A^3, non-planar iff |v| > 50 in either model; hapto centres, attached "
        "atoms and atoms bonded to them are excluded",
        "the atom correspondence parsed -> drawn is a witness found by the harness (document order, else graph matching) and "
        "checked by the specification; trusted: TLC, CommunityModules Json, ElementTree, networkx (witness search only)",
    ]
    rep.note(f"{n_main} files/variants, {n_events} events, {stats['calls']} real look-ups in {t_calls:.1f}s, "
             f"{stats['nonplanar_mirror']} non-planar centre pairs under mirroring, {stats['nonplanar_same']} under other variants, "
             f"{len(bad) - n_extra_bad} rejected")
    return rep.finish()


def do_replay(path):
    doc = json.loads(open(path).read())
    if doc.get("kind") != "cdxml-trace":
        print(json.dumps(doc, indent=1)[:2000])
        return 1
    m = doc["meta"]
    work = tlc.workdir("c13files")
    try:
        traces, meta, _ = build(doc["tier"], doc["seed"], work, only_file=m["file"])
    finally:
        shutil.rmtree(work, ignore_errors=True)
    want = [t for t in traces if t["tid"] == doc["tid"]]
    if not want:
        raise tlc.MachineryError(f"replay: trace {doc['tid']} cannot be regenerated")
    verdicts, results = validate(want, "c13rp")
    why = whys(results)
    print(json.dumps({"verdicts": verdicts, "why": {f"{k[0]}@{k[1]}": v for k, v in why.items()}}, indent=1))
    if any(v[0] != "ACCEPT" for v in verdicts.values()):
        print(f"VIOLATION property={PROP} replay={path}")
        return 1
    return 0
