"""C05 — atoms, bonds, coordinates and charges stay aligned under every edit history.

M: TLC exhausts MolEdit.tla (3-4 atom identities, <= 3 live atoms, library-created atoms, every public edit call,
   substructure translation, cloning) for Aligned, KeepsGiven, BondsInside, DeleteRemovesExactlyIncident, ...
A: (state, action) pairs of the graph are replayed on real Molecule and Structure objects; identity-keyed observation."""
from __future__ import annotations
import json
from ..common import Reporter, model_check, emit_graph, expect_violation
from ..evidence import Evidence
from .. import replay

PROP = "C05"
INV = ("Aligned", "NoDupAtoms", "BondsInside")
PROPS = ("KeepsGiven", "MovesExactlySelected", "DeleteRemovesExactlyIncident", "FailedIsNoOp")
ACTIONS = ("AddAtom", "NewAtom", "AppendAtom", "Connect", "AppendBond", "AppendBonds2", "DelBond", "DelAtomObj", "DelAtomIdx", "DelAtomLabel",
           "DelAtomElem", "RemoveSubstituent", "AddH", "SubTranslate", "Clone", "MakeView", "ViewTranslate")


def cfg(ids, fresh, maxlive, charges, dev="DevNone", maxview=1, maxpar=0, ap="AP1", withnew=False):
    return dict(spec="Spec", constants={"AtomId": f"<- {ids}", "Fresh": f"<- {fresh}", "FreshAP": f"<- {ap}", "ElemOf": "<- ElemM", "LabelOf": "<- LabelM",
                                        "Valence": "<- ValM", "QGiven": "<- QG", "MaxLive": maxlive, "MaxView": maxview, "MaxPar": maxpar, "WithNew": "TRUE" if withnew else "FALSE",
                                        "HasCharges": "TRUE" if charges else "FALSE", "Deviations": f"<- {dev}"},
                invariants=INV, properties=PROPS, view="View")


def norm(o):
    o = dict(o)
    o["bonds"] = sorted(sorted(b) for b in o["bonds"])
    o["dbl"] = sorted(sorted(b) for b in o.get("dbl", []))
    o["atoms"] = list(o["atoms"])
    o["coords"] = [None if c.get("base") == "any" else c for c in o["coords"]]   # library-placed: not constrained
    o["chgs"] = list(o["chgs"])
    return o


def norm_act(a):
    if "S" in a:
        a["S"] = sorted(a["S"])
    if "b" in a:
        a["b"] = sorted(a["b"])
    return a


def workers_for(g, tier):
    """Forked replay workers each end up with their own copy of the graph (reference counts touch every page): keep the
    product of graph size and workers within memory."""
    n = g.nedges
    if tier == "quick":
        return 6
    return 12 if n < 150000 else (6 if n < 400000 else 3)


def one(tier, seed, ev, rep, kind, ids, fresh, maxlive, budget, maxview=1, maxpar=0, ap="AP1", withnew=False):
    from ..adapters.moledit import MolEditAdapter
    c = cfg(ids, fresh, maxlive, kind == "Molecule", maxview=maxview, maxpar=maxpar, ap=ap, withnew=withnew)
    skip = set()
    if not withnew:
        skip |= {"NewAtom"}
    if maxview == 0:
        skip |= {"MakeView", "ViewTranslate"}
    if fresh == "Fr0":
        skip |= {"AddH"}
    if ap == "AP0":
        skip |= {"RemoveSubstituent"}
    if maxlive < 3:
        skip |= {"AppendBonds2"}                 # a batch of two different bonds needs three atoms
    acts = tuple(a for a in ACTIONS if a not in skip) + (("AppendBondPar",) if maxpar > 0 else ())
    model_check(ev, "MCMolEdit", c, role=f"MolEdit {kind} {ids} {fresh} live<={maxlive} view<={maxview}", tag="c05mc",
                require_actions=acts, timeout=1800)
    edges = emit_graph(ev, "MCMolEdit", c, role=f"MolEdit edges {kind}", tag="c05emit", timeout=1800)
    for e in edges:
        e["obs"] = norm(e["obs"])
        e["act"] = norm_act(e["act"])
    g = replay.Graph(edges, key_fields_drop=("out",))
    del edges
    stats, viol, _, _, samples = replay.cover_parallel(g, lambda: MolEditAdapter(kind), seed=seed, nproc=workers_for(g, tier),
                                                       max_path=40, budget_s=budget)
    ev.count(evaluations=stats["steps"], distinct_nontrivial=stats["pairs_exercised"], traces=stats["paths"])
    ev.cov.setdefault("replay", {})[f"{kind},{ids},{fresh},{ap},{maxlive},view{maxview},par{maxpar}"] = stats
    ev.add_samples([{"kind": kind, "path": s} for s in samples], 1)
    seen = set()
    for v in viol:
        sig = (v["action"]["act"], v["action"].get("by"), v["differences"][0].split(":")[0])
        if sig in seen:
            continue
        seen.add(sig)
        rep.violation("replay-moledit", {**v, "kind": kind}, what=f"{v['action']}: " + "; ".join(v["differences"][:3]))
    rep.note(f"{kind} {ids} {fresh} live<={maxlive}: {stats}")


def trace_cfg(kind):
    return dict(spec="TraceSpec", constants={
        "AtomId": "<- TraceIds", "Fresh": "<- TraceFresh", "FreshAP": "<- TraceFreshAP", "ElemOf": "<- TraceElem",
        "LabelOf": "<- TraceLabel", "Valence": "<- TraceVal", "QGiven": "<- TraceQ", "MaxLive": 100000, "MaxView": 100000,
        "MaxPar": 100000, "WithNew": "TRUE",
        "HasCharges": "TRUE" if kind == "Molecule" else "FALSE", "Deviations": "<- DevNone"},
        invariants=("NoDupAtoms", "BondsInside"))


SOURCES = ("dendrobine_mol2", "benzene_mol2", "dmf_mol2", "fxyl_mol2", "isornitrate_mol2", "hadd_test_mol2")


def direction_b(tier, seed, ev, rep):
    """Random edit histories of length 40 on file-loaded / cloned molecules, validated by TLC (MolEditTrace)."""
    from ..drivers_moledit import history
    from .. import trace as T
    n = 8 if tier == "quick" else 120
    jobs = [(seed * 1000 + i, SOURCES[i % len(SOURCES)], "Molecule" if i % 4 else "Structure") for i in range(n)]
    traces = {"Molecule": [], "Structure": []}
    for sd, src, kind in jobs:
        traces[kind].append(history(sd, 40, src, kind))
    bad, nev = 0, 0
    for kind, ts in traces.items():
        if not ts:
            continue
        verdicts, results = T.validate("MolEditTrace", ts, trace_cfg(kind), chunk=1, par=8, tag="c05tr", timeout=900)
        ev.add_tlc(results[0], f"MolEditTrace validation ({kind}, first batch)")
        for t in ts:
            nev += len(t["ev"])
            v, l = verdicts[t["tid"]]
            if v != "ACCEPT":
                bad += 1
                e = dict(t["ev"][l - 1]); o = e.pop("obs", None)
                prev = t["ev"][l - 2]["obs"] if l >= 2 else None
                rep.violation("moledit-trace", {"tid": t["tid"], "stuck_at": l, "event": e, "observed_after": o,
                                                "observed_before": prev, "history": [{k: v for k, v in x.items() if k != "obs"} for x in t["ev"][:l]]},
                              what=f"{t['tid']}: event {l} {json.dumps(e)[:200]} is not a step of MolEdit")
    ev.count(evaluations=nev, distinct_nontrivial=nev, traces=n)
    ev.set(random_histories={"traces": n, "events": nev, "rejected": bad, "length": 40, "sources": list(SOURCES)})
    if traces["Molecule"]:
        ev.add_samples([{"direction": "B", "events": [{k: v for k, v in x.items() if k != "obs"} for x in traces["Molecule"][0]["ev"][1:7]]}], 1)
    rep.note(f"direction B: {n} histories on file-loaded molecules, {nev} events, {bad} rejected")


def run(tier, seed, replay_path):
    ev = Evidence(PROP, tier, seed)
    rep = Reporter(PROP, ev)
    if replay_path:
        return do_replay(replay_path)
    from concurrent.futures import ThreadPoolExecutor
    jobs = [lambda d=dev: expect_violation("MCMolEdit", cfg("Ids3", "Fr1", 3, True, d), INV + PROPS, tag="c05dev", workers=4)
            for dev in ("DevNoneCharge", "DevKeepBonds", "DevWrongRow")]
    if tier == "quick":
        # (the held-view config without library-created hydrogens: they multiply its states by four; hydrogens x views is thorough-only)
        jobs += [lambda: one(tier, seed, ev, rep, "Molecule", "Ids3", "Fr0", 2, budget=15, maxview=1),
                 lambda: one(tier, seed, ev, rep, "Structure", "Ids3", "Fr1", 2, budget=12, maxview=0, withnew=True),
                 # three live atoms, parallel bonds and the batch forms; no library-created atoms (keeps the graph small)
                 lambda: one(tier, seed, ev, rep, "Molecule", "Ids3", "Fr0", 3, budget=25, maxview=0, maxpar=1, ap="AP0"),
                 lambda: direction_b(tier, seed, ev, rep)]
        with ThreadPoolExecutor(6) as ex:            # TLC runs in subprocesses: the pieces overlap
            for f in [ex.submit(j) for j in jobs]:
                f.result()
    else:
        with ThreadPoolExecutor(3) as ex:
            for f in [ex.submit(j) for j in jobs]:
                f.result()
        one(tier, seed, ev, rep, "Molecule", "Ids3", "Fr1", 3, budget=240, maxview=0)
        one(tier, seed, ev, rep, "Molecule", "Ids3", "Fr1", 2, budget=150, maxview=2)
        one(tier, seed, ev, rep, "Structure", "Ids3", "Fr1", 2, budget=90, maxview=1)
        one(tier, seed, ev, rep, "Molecule", "Ids3", "Fr0", 3, budget=120, maxview=0, maxpar=1, ap="AP0")
        one(tier, seed, ev, rep, "Structure", "Ids3", "Fr1", 2, budget=90, maxview=1, maxpar=1, withnew=True)
        direction_b(tier, seed, ev, rep)
    ev.set(rule="one case = one (model state, edit call) pair of the TLC graph replayed on a real Molecule/Structure; the "
                "observation is keyed by atom identity; distinct_nontrivial = distinct pairs exercised within the time budget")
    ev.assumptions += ["self-bonds and parallel bonds are not generated", "coordinates of library-placed hydrogens are not compared"]
    return rep.finish()


def do_replay(path):
    from ..adapters.moledit import MolEditAdapter
    doc = json.loads(open(path).read())
    if doc["kind"] == "moledit-trace":
        from ..drivers_moledit import history
        from .. import trace as T
        src, kind, sd = doc["tid"].rsplit("-", 2)
        t = history(int(sd), 40, src, kind)
        verdicts, _ = T.validate("MolEditTrace", [t], trace_cfg(kind), chunk=1, tag="c05rp")
        print(json.dumps(verdicts))
        if verdicts[t["tid"]][0] != "ACCEPT":
            print(f"VIOLATION property={PROP} replay={path}")
            return 1
        return 0
    ad = MolEditAdapter(doc.get("kind", "Molecule"))
    res = replay.run_path(ad, doc["path"])
    last = res[-1]
    print(json.dumps({"last": last, "allowed": doc.get("allowed")}, indent=1, default=str))
    for a in doc.get("allowed") or []:
        if not replay._match({"act": a["act"], "obs": a["obs"]}, last["outcome"], last["obs"]):
            print("replay: behaviour now matches the specification")
            return 0
    print(f"VIOLATION property={PROP} replay={path}")
    return 1
