"""X01 (growth beyond the listed properties, DESIGN 8.4 / 9.7) — truncate() and handles with stale caches.

UKVFile.tla with WithTruncate = TRUE: a writable handle may discard every record; handles that cached their table
of contents before the truncation must show the file's real content when they are re-opened.  Not registered in
MANIFEST.json (no listed property covers truncation); run with `bin/check X01 quick`."""
from __future__ import annotations
import json
from ..common import Reporter, model_check, emit_graph, expect_violation
from ..evidence import Evidence
from .. import replay
from ..adapters.ukv import UKVAdapter
from .c02 import norm_obs
RAW_INV = ("TypeOK", "NoDuplicateRecord", "TocSoundG", "TocComplete", "KeyLenOK", "HandleHdrOK", "OneWriter")

PROP = "X01"
PROPS = ("FailedOpIsNoOp", "GetReturnsThePut", "HeadersPreserved", "RecordsImmutable", "TruncateEmpties", "Refines")
# a cache taken before a truncation is trusted when the file has the same SIZE again (the format has no generation
# counter): documented limit, reported as EXTRA-FINDING, not as a violation
KNOWN_SAME_SIZE = "stale table of contents trusted after truncate + refill to the same byte size (no generation counter in the format)"


def cfg(dev="DevNone", vals="ValsE"):
    return dict(spec="Spec", constants={
        "Key": "<- KeysX", "Val": f"<- {vals}", "KeyLen": "<- KLen", "ValLen": "<- VLen", "Handle": "<- H2",
        "Hdr": "<- HdrX", "NoHdr": '"none"', "HdrLen": "<- HL", "MaxRecs": 2, "WithTruncate": "TRUE", "MaxGen": 2,
        "Deviations": f"<- {dev}"}, invariants=RAW_INV, properties=PROPS, view="View")


def run(tier, seed, replay_path):
    ev = Evidence(PROP, tier, seed)
    rep = Reporter(PROP, ev)
    for dev in ("DevSizeOnly", "DevNeverClears", "DevTruncKeeps"):
        expect_violation("MCUKVFile", cfg(dev), RAW_INV, tag="x01dev")
    c = cfg()
    model_check(ev, "MCUKVFile", c, role="UKVFile with truncate", tag="x01", require_actions=("Truncate", "Reopen", "Put", "Get"))
    edges = emit_graph(ev, "MCUKVFile", c, role="edges", tag="x01emit")
    for e in edges:
        e["obs"] = norm_obs(e["obs"])
    g = replay.Graph(edges)
    stats, viol, *_ = replay.cover(g, lambda: UKVAdapter(("h1", "h2")), seed=seed, stop_after=200,
                                   budget_s=60 if tier == "quick" else 600)
    same_size, other = [], []
    for v in viol:
        path = v["path"]
        truncated = any(a["act"] == "truncate" for a in path)
        if truncated and v["action"]["act"] == "reopen":
            same_size.append(v)
        else:
            other.append(v)
    if same_size:
        print(f"EXTRA-FINDING: check=X01 {KNOWN_SAME_SIZE} ({len(same_size)} replayed situations)")
    for v in other[:5]:
        rep.violation("replay-ukvfile", v, what=f"{v['action']}: " + "; ".join(v["differences"][:3]))
    ev.count(evaluations=stats["steps"], distinct_nontrivial=stats["pairs_exercised"], traces=stats["paths"])
    ev.set(replay=stats, rule="(state, action) pairs of UKVFile.tla with truncate replayed on real UKVFile handles",
           same_size_shortcut_hits=len(same_size))
    rep.note(str(stats))
    rep.ev.violations = len(rep.viol)
    return 1 if rep.viol else 0
