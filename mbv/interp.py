"""Fixed, deterministic interpretation of abstract spec tokens as concrete values (DESIGN §2.3)."""
import random

KEYS = {
    "k1": b"k1", "k2": b"k2", "k3": b"k3",
    "kBig": b"K" * 256, "k255": b"L" * 255, "kBin": b"\x00\xff\n\x80",
}
_r = random.Random(70000)
VALS = {
    "vE": b"", "v1": b"abc", "v1b": b"xyz", "v2": b"\x00\x01\xfe\xff" * 5, "v70k": bytes(_r.getrandbits(8) for _ in range(70000)),
}
HDRS = {  # (h1, h2/comment, b0)
    "hdDef": (None, None, None),
    "hdFull": (b"MBVTYPE1", b"a comment \xc3\xa9", b"\x00\x01descriptor\xff"),
}
HDR_OBS = {"hdDef": (b"ML10UKV01", b"", b""), "hdFull": HDRS["hdFull"]}
RKEYS = {v: k for k, v in KEYS.items()}
RVALS = {v: k for k, v in VALS.items()}


def key_tok(b: bytes) -> str:
    return RKEYS.get(bytes(b), "?" + bytes(b)[:8].hex())


def val_tok(b: bytes) -> str:
    return RVALS.get(bytes(b), "?" + str(len(b)) + ":" + bytes(b)[:8].hex())


def hdr_tok(h1: bytes, h2: bytes, b0: bytes) -> str:
    t = (h1.rstrip(b"\x00"), h2, b0)
    for k, v in HDR_OBS.items():
        if v == t:
            return k
    return "?" + repr(t)
