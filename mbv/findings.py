"""known_findings.json: genuine defects recorded (status known) or repaired (status fixed).
A known entry is identified by a signature; only a violation with that signature is downgraded to a
KNOWN-FINDING line.  Fixed entries suppress nothing.  Never modified at run time."""
from __future__ import annotations
import json
from pathlib import Path

FILE = Path(__file__).resolve().parent.parent / "known_findings.json"


def load():
    if not FILE.exists():
        return []
    return json.loads(FILE.read_text())["findings"]


def known_for(prop: str):
    return [f for f in load() if f["property"] == prop and f["status"] == "known"]


def match(prop: str, signature: dict):
    """Return the known finding whose signature is a sub-dict of `signature`, else None."""
    for f in known_for(prop):
        sig = f["signature"]
        if all(signature.get(k) == v for k, v in sig.items()):
            return f
    return None
