"""Evidence files (/verif/evidence/<id>.json, EVIDENCE.schema.json) written by every run."""
from __future__ import annotations
import json, time
from pathlib import Path

VERIF = Path(__file__).resolve().parent.parent


class Evidence:
    def __init__(self, prop: str, tier: str, seed: int, level: str = "model_checking"):
        self.prop, self.tier, self.seed, self.level = prop, tier, seed, level
        self.t0 = time.time()
        self.cov = {"states": 0, "transitions": 0, "traces_validated_against_impl": 0, "samples": [],
                    "evaluations": 0, "distinct_nontrivial": 0, "rule": "", "tlc_runs": [], "exhaustive": False}
        self.assumptions: list[str] = []
        self.violations = 0
        self.known = []

    def add_tlc(self, r, role: str):
        self.cov["tlc_runs"].append({"role": role, **r.stats()})
        self.cov["states"] += r.distinct
        self.cov["transitions"] += r.generated

    def add_samples(self, xs, limit=3):
        for x in xs:
            if len(self.cov["samples"]) < 12 and limit > 0:
                self.cov["samples"].append(x)
                limit -= 1

    def count(self, evaluations=0, distinct_nontrivial=0, traces=0):
        self.cov["evaluations"] += int(evaluations)
        self.cov["distinct_nontrivial"] += int(distinct_nontrivial)
        self.cov["traces_validated_against_impl"] += int(traces)

    def set(self, **kw):
        self.cov.update(kw)

    def write(self):
        d = VERIF / "evidence"
        d.mkdir(exist_ok=True)
        if not self.cov["samples"]:
            self.cov["samples"] = ["(no sample recorded)"]
        doc = {"property_id": self.prop, "tier": self.tier, "seed": int(self.seed), "level": self.level,
               "coverage": self.cov, "assumptions": self.assumptions, "wall_s": round(time.time() - self.t0, 2),
               "violations": int(self.violations), "known_findings_reported": self.known}
        (d / f"{self.prop}.json").write_text(json.dumps(doc, indent=1, default=str))
        return doc
