"""Direction B: executions recorded from the real code are validated by TLC against a trace
specification.  Traces are batched (one JVM start per few thousand traces); verdicts are total:
every trace must end in ACCEPT or STUCK(l); a missing verdict is a machinery failure."""
from __future__ import annotations
import json, re, shutil
from concurrent.futures import ThreadPoolExecutor
from pathlib import Path
from . import tlc

_RE_V = re.compile(r'^<<"VERDICT", "([^"]*)", "(ACCEPT|STUCK)"(?:, (\d+))?')


def validate(module: str, traces: list[dict], cfg_kwargs: dict, *, chunk=2000, par=8, timeout=900, tag="trace",
             dfs=False):
    """traces: [{"tid": str, "ev": [event dicts]}].  Returns {tid: ("ACCEPT", None) | ("STUCK", l)} and TLC stats."""
    if not traces:
        return {}, []
    tids = [t["tid"] for t in traces]
    assert len(set(tids)) == len(tids), "duplicate trace ids"
    chunks = [traces[i:i + chunk] for i in range(0, len(traces), chunk)]
    wd = tlc.workdir(tag)
    results = []

    def one(i):
        f = wd / f"t{i}.ndjson"
        with f.open("w") as fh:
            for t in chunks[i]:
                fh.write(json.dumps(t, separators=(",", ":")) + "\n")
        cfg = tlc.write_cfg(wd / f"t{i}.cfg", **cfg_kwargs)
        md = wd / f"meta{i}"
        return tlc.run(module, cfg, workers=1, timeout=timeout, env={"TRACE_FILE": str(f)}, metadir=md,
                       dfs_queue=dfs)
    try:
        with ThreadPoolExecutor(par) as ex:
            results = list(ex.map(one, range(len(chunks))))
    finally:
        shutil.rmtree(wd, ignore_errors=True)
    verdicts = {}
    for r in results:
        if r.violated:
            raise tlc.MachineryError(f"trace spec {module} reported {r.violated}:\n{tlc.counterexample(r.stdout)}")
        for line in r.stdout.splitlines():
            m = _RE_V.match(line.strip())
            if m:
                tid, v, l = m.group(1), m.group(2), m.group(3)
                if v == "ACCEPT":
                    verdicts[tid] = ("ACCEPT", None)
                elif verdicts.get(tid, ("", 0))[0] != "ACCEPT":
                    prev = verdicts.get(tid)
                    ll = int(l) if l else 0
                    if prev is None or ll > (prev[1] or 0):
                        verdicts[tid] = ("STUCK", ll)
    missing = [t for t in tids if t not in verdicts]
    if missing:
        raise tlc.MachineryError(f"trace validation printed no verdict for {len(missing)} traces, e.g. {missing[:3]}")
    return verdicts, results
