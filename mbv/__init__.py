"""mbv — model-based verification harness for molli (TLA+ specs + TLC + conformance)."""
