"""C05 direction B: seeded random edit histories on file-loaded (and cloned) molecules, recorded as traces
for MolEditTrace.tla.  Uses the MolEdit adapter for the real calls and the identity-keyed observation."""
from __future__ import annotations
import random
import numpy as np
from .adapters.moledit import MolEditAdapter, SHIFT

EXTRA = [("b1", "N", "X1"), ("b2", "O", "X2"), ("b3", "C", "X1"), ("b4", "S", "X4"), ("b5", "Cl", "X5"), ("b6", "C", "X6")]
NF, NAP = 90, 8


def history(seed, length, source="dendrobine_mol2", kind="Molecule"):
    import molli as ml
    rnd = random.Random(seed)
    ad = MolEditAdapter(kind)
    cls = ad.cls
    mol = cls.load_mol2(getattr(ml.files, source))
    if rnd.random() < 0.4:
        mol = cls(mol)                                  # start from a clone of the loaded molecule
    ad.mol = mol
    ad.idx, ad.elem, ad.label, ad.coordtab, ad.chgtab = {}, {}, {}, {}, {}
    for i, a in enumerate(mol.atoms):
        t = f"a{i+1}"
        ad.tag[id(a)] = t; ad.obj[t] = a; ad.keep.append(a)
        ad.idx[t] = i + 1
        ad.elem[t] = a.element.name
        ad.label[t] = a.label if a.label else "none"
        ad.coordtab[t] = np.array(mol.coords[i], dtype=float)
        ad.chgtab[t] = float(mol.atomic_charges[i]) if kind == "Molecule" else 0.0
    for j, (t, e, lb) in enumerate(EXTRA):
        ad.idx[t] = 1000 + j
        ad.elem[t], ad.label[t] = e, lb
        ad.coordtab[t] = np.array([50.0 + j, -7.5 * (j + 1), 3.25 + j])
        ad.chgtab[t] = 0.011 * (j + 1)
    fresh = [f"f{k}" for k in range(1, NF + 1)]
    freshap = [f"p{k}" for k in range(1, NAP + 1)]
    elem = dict(ad.elem); label = dict(ad.label)
    for t in fresh:
        elem[t], label[t] = "H", "none"
    for t in freshap:
        elem[t], label[t] = "X", "none"
    ev = []

    def obs():
        o = ad.observe()
        o["coords"] = [c if c is not None else {"base": "any", "sh": 0} for c in o["coords"]]
        return o

    def log(_evname, _out="ok", **kw):
        ev.append({"ev": _evname, "out": _out, **kw, "obs": obs()})

    o0 = obs()
    ev.append({"ev": "load", "out": "ok", "atoms": o0["atoms"], "bonds": o0["bonds"], "obs": o0})
    translated = False
    view_tags = []
    for _ in range(length):
        o = ad.observe()
        live = o["atoms"]
        bonds = o["bonds"]
        harness_live = [t for t in live if t in ad.idx]
        free_extra = [t for t, _, _ in EXTRA if t not in live]
        ops = []
        if free_extra:
            ops += ["add_atom"] * 2 + ["append_atom", "append_bond", "new_atom"]
            if len(free_extra) >= 2:
                ops += ["append_bond2"]
        if len(live) >= 2:
            ops += ["connect"] * 2
        if len(free_extra) >= 1 and len(live) >= 1:
            ops += ["append_bonds"] * 2
        if bonds:
            ops += ["parallel"]
        if bonds:
            ops += ["del_bond"] * 2 + ["remove_substituent"] * (2 if ad.nap < NAP else 0)
        if live:
            ops += ["del_obj", "del_idx", "del_label", "del_elem"] * 2 + ["clone"]
        ops += ["del_fail", "add_h"]
        if not translated and harness_live:
            ops += ["sub_translate"]
            if ad.view is None:
                ops += ["make_view"] * 2
            elif all(t in live for t in view_tags):
                ops += ["view_translate"] * 3
        op = rnd.choice(ops)
        if op == "add_atom":
            t = rnd.choice(free_extra); q = kind == "Molecule" and rnd.random() < 0.5
            r = ad.apply({"act": "add_atom", "a": t, "q": q})
            log("add_atom", r["out"], a=t, q=bool(q))
        elif op == "new_atom":
            t = rnd.choice(free_extra)
            r = ad.apply({"act": "new_atom", "a": t}); log("new_atom", r["out"], a=t)
            if ad.view is None:
                view_tags = []
        elif op == "append_atom":
            t = rnd.choice(free_extra)
            r = ad.apply({"act": "append_atom", "a": t}); log("append_atom", r["out"], a=t)
        elif op in ("append_bond", "append_bond2"):
            y = rnd.choice(free_extra)
            if op == "append_bond2":
                x = rnd.choice([t for t in free_extra if t != y])
            elif live:
                x = rnd.choice(live)
            else:
                continue
            r = ad.apply({"act": "append_bond", "x": x, "y": y}); log("append_bond", r["out"], x=x, y=y)
        elif op == "connect":
            for _try in range(20):
                i, j = sorted(rnd.sample(range(len(live)), 2))
                if sorted([live[i], live[j]]) not in bonds:
                    r = ad.apply({"act": "connect", "i": i, "j": j}); log("connect", r["out"], i=i, j=j)
                    break
        elif op == "append_bonds":
            # batch forms: a new atom that appears in both bonds (as first end of the first one), or two new atoms
            form = rnd.choice(["append_bonds", "extend_bonds"])
            x = rnd.choice(free_extra)
            others = [t for t in live + free_extra if t != x]
            if len(others) < 2:
                continue
            y1, y2 = rnd.sample(others, 2)
            e1, e2 = ([x, y1], [x, y2])
            if rnd.random() < 0.3:
                e1 = e1[::-1]
            if rnd.random() < 0.3:
                e2 = e2[::-1]
            if sorted(e1) in bonds or sorted(e2) in bonds:
                continue
            act = {"act": form, "x1": e1[0], "y1": e1[1], "x2": e2[0], "y2": e2[1]}
            r = ad.apply(act); log(form, r["out"], **{k: v for k, v in act.items() if k != "act"})
        elif op == "parallel":
            cand = [b for b in bonds if b not in o.get("dbl", [])]
            if not cand:
                continue
            b = rnd.choice(cand)
            if rnd.random() < 0.5:
                i, j = sorted((live.index(b[0]), live.index(b[1])))
                r = ad.apply({"act": "connect", "i": i, "j": j}); log("connect", r["out"], i=i, j=j)
            else:
                r = ad.apply({"act": "append_bond_par", "x": b[0], "y": b[1]}); log("append_bond_par", r["out"], x=b[0], y=b[1])
        elif op == "del_bond":
            b = rnd.choice(bonds)
            which = rnd.choice(["first", "second"]) if b in o.get("dbl", []) else "only"
            r = ad.apply({"act": "del_bond", "b": b, "which": which}); log("del_bond", r["out"], b=b, which=which)
        elif op == "remove_substituent":
            b = rnd.choice(bonds); s, d = (b if rnd.random() < 0.5 else b[::-1])
            r = ad.apply({"act": "remove_substituent", "s": s, "d": d}); log("remove_substituent", r["out"], s=s, d=d)
        elif op == "del_obj":
            t = rnd.choice(live)
            r = ad.apply({"act": "del_atom", "by": "object", "a": t}); log("del_atom", r["out"], by="object", a=t)
        elif op == "del_idx":
            i = rnd.randrange(len(live))
            r = ad.apply({"act": "del_atom", "by": "index", "i": i}); log("del_atom", r["out"], by="index", i=i)
        elif op == "del_label":
            cands = [label[t] for t in live if label[t] != "none"]
            if cands:
                lb = rnd.choice(cands)
                r = ad.apply({"act": "del_atom", "by": "label", "l": lb}); log("del_atom", r["out"], by="label", l=lb)
        elif op == "del_elem":
            cands = [elem[t] for t in live if elem[t] != "X"]
            if cands:
                e = rnd.choice(cands)
                r = ad.apply({"act": "del_atom", "by": "element", "e": e}); log("del_atom", r["out"], by="element", e=e)
        elif op == "del_fail":
            which = rnd.choice(["index", "label", "element"])
            if which == "index":
                r = ad.apply({"act": "del_atom", "by": "index", "i": len(live)}); log("del_atom", r["out"], by="index", i=len(live))
            elif which == "label":
                r = ad.apply({"act": "del_atom", "by": "label", "l": "no-such-label"}); log("del_atom", r["out"], by="label", l="no-such-label")
            else:
                absent = [e for e in ("Xe", "Kr", "Au") if e not in {elem[t] for t in live}]
                r = ad.apply({"act": "del_atom", "by": "element", "e": absent[0]}); log("del_atom", r["out"], by="element", e=absent[0])
        elif op == "add_h":
            before = list(live)
            if ad.nfresh + 4 * len(live) > NF:
                continue
            ad.apply({"act": "add_h"})
            o2 = ad.observe()
            new = [t for t in o2["atoms"] if t not in before]
            centres = []
            for t in new:
                partners = [x for b in o2["bonds"] if t in b for x in b if x != t]
                centres.append(partners[0] if len(partners) == 1 and ad.obj[t].element.name == "H" else "not-a-single-bonded-hydrogen")
            log("add_h", "ok", centres=centres)
        elif op == "sub_translate":
            cands = [t for t, c in zip(live, o["coords"]) if t in ad.idx and c is not None and c.get("sh") == 0 and c.get("base") in ad.idx]
            ok_all = all((c is None) or c.get("sh") == 0 for c in o["coords"])
            if cands and ok_all:
                S = sorted(rnd.sample(cands, rnd.randint(1, min(5, len(cands)))))
                r = ad.apply({"act": "sub_translate", "S": S}); log("sub_translate", r["out"], S=S)
                translated = True
        elif op == "make_view":
            cands = [t for t, c in zip(live, o["coords"]) if t in ad.idx and c is not None and c.get("sh") == 0 and c.get("base") in ad.idx]
            if cands:
                view_tags = sorted(rnd.sample(cands, rnd.randint(1, min(6, len(cands)))))
                r = ad.apply({"act": "make_view", "S": view_tags}); log("make_view", r["out"], S=view_tags)
        elif op == "view_translate":
            ok_all = all((c is None) or c.get("sh") == 0 for c in o["coords"])
            ok_view = all(c is not None and c.get("base") in ad.idx for t, c in zip(live, o["coords"]) if t in view_tags)
            if ok_all and ok_view:
                r = ad.apply({"act": "view_translate"}); log("view_translate", r["out"], S=view_tags)
                translated = True
        elif op == "clone":
            r = ad.apply({"act": "clone"}); log("clone", r["out"])
    return {"tid": f"{source}-{kind}-{seed}", "elem": elem, "label": label, "fresh": fresh, "freshap": freshap, "ev": ev}
