import importlib, sys
from .common import main_wrapper


def main():
    prop = sys.argv[1]
    sys.argv = [sys.argv[0]] + sys.argv[2:]
    mod = importlib.import_module(f"mbv.checks.{prop.lower()}")
    sys.exit(main_wrapper(prop, mod.run))


if __name__ == "__main__":
    main()
