"""Shared plumbing for checks: emitting TLC graphs, reporting, exit codes."""
from __future__ import annotations
import json, os, sys, shutil, time
from pathlib import Path
from . import tlc, replay, findings
from .evidence import Evidence

VERIF = Path(__file__).resolve().parent.parent


class Reporter:
    """Collects violations / known findings; prints the interface lines; decides the exit code."""
    def __init__(self, prop, ev: Evidence):
        self.prop, self.ev = prop, ev
        self.viol = []
        self.known_printed = set()

    def violation(self, kind, payload, what=""):
        p = replay.save_replay(self.prop, kind, payload)
        self.viol.append(p)
        print(f"VIOLATION property={self.prop} replay={p}", flush=True)
        if what:
            print(f"  {what}", flush=True)
        return p

    def known(self, fid, what):
        if fid in self.known_printed:
            return
        self.known_printed.add(fid)
        self.ev.known.append(fid)
        print(f"KNOWN-FINDING: property={self.prop} {what}", flush=True)

    def note(self, msg):
        print(f"[{self.prop}] {msg}", flush=True)

    def finish(self):
        self.ev.violations = len(self.viol)
        self.ev.write()
        return 1 if self.viol else 0


def model_check(ev, module, cfg_kwargs, *, role, tag, workers=16, timeout=900, coverage=True, require_actions=(),
                **run_kw):
    """Run TLC for invariants/properties; a violation of the *model* is a machinery error (the spec is
    expected to satisfy its own properties with Deviations = {})."""
    wd = tlc.workdir(tag)
    try:
        cfg = tlc.write_cfg(wd / f"{module}.cfg", **cfg_kwargs)
        r = tlc.run(module, cfg, workers=workers, timeout=timeout, coverage=coverage, **run_kw)
    finally:
        shutil.rmtree(wd, ignore_errors=True)
    if r.violated:
        raise tlc.MachineryError(f"model {module} violates {r.violated} with no deviation enabled:\n"
                                 + tlc.counterexample(r.stdout))
    ev.add_tlc(r, role)
    if coverage and require_actions:
        dead = [a for a in require_actions if r.coverage.get(a, (0, 0))[1] == 0]
        if dead:
            raise tlc.MachineryError(f"vacuity guard: actions never taken in {module}: {dead}")
    return r


def expect_violation(module, cfg_kwargs, invariant_names, *, tag, workers=16, timeout=300):
    """Non-vacuity: with a deviation switched on TLC must report one of the named properties violated."""
    wd = tlc.workdir(tag)
    try:
        cfg = tlc.write_cfg(wd / f"{module}.cfg", **cfg_kwargs)
        r = tlc.run(module, cfg, workers=workers, timeout=timeout, expect_violation=True)
    finally:
        shutil.rmtree(wd, ignore_errors=True)
    if not r.violated:
        raise tlc.MachineryError(f"non-vacuity: deviation did not violate any of {invariant_names} in {module}")
    return r


def emit_graph(ev, module, cfg_kwargs, *, role, tag, timeout=900, emit="Emit", simulate=None, depth=None, seed=None):
    """Run TLC with ACTION_CONSTRAINT Emit (workers 1) and return the parsed edges."""
    wd = tlc.workdir(tag)
    try:
        kw = dict(cfg_kwargs)
        kw["action_constraints"] = tuple(kw.get("action_constraints", ())) + (emit,)
        kw["invariants"] = ()
        kw["properties"] = ()
        cfg = tlc.write_cfg(wd / f"{module}.cfg", **kw)
        r = tlc.run(module, cfg, workers=1, timeout=timeout, simulate=simulate, depth=depth, seed=seed)
    finally:
        shutil.rmtree(wd, ignore_errors=True)
    if r.violated:
        raise tlc.MachineryError(f"emit run of {module} reported {r.violated}")
    edges = [x for x in r.printed if isinstance(x, dict) and "act" in x]
    if not edges:
        raise tlc.MachineryError(f"emit run of {module} produced no edges")
    ev.cov["tlc_runs"].append({"role": role, **r.stats(), "edges_emitted": len(edges)})
    return edges


def main_wrapper(prop, fn):
    """fn(tier, seed, replay_path) -> exit code. Converts machinery failures into exit 2."""
    import traceback
    args = sys.argv[1:]
    tier = os.environ.get("VERIF_TIER") or "quick"
    replay_path = None
    rest = []
    i = 0
    while i < len(args):
        if args[i] == "--replay":
            replay_path = args[i + 1]; i += 2
        else:
            rest.append(args[i]); i += 1
    if rest:
        tier = rest[0]
    seed = int(os.environ.get("VERIF_SEED", "0") or 0)
    try:
        rc = fn(tier, seed, replay_path)
    except tlc.MachineryError as e:
        print(f"MACHINERY-ERROR property={prop}: {e}", file=sys.stderr, flush=True)
        rc = 2
    except Exception:
        traceback.print_exc()
        print(f"MACHINERY-ERROR property={prop}: unexpected exception", file=sys.stderr, flush=True)
        rc = 2
    return rc
