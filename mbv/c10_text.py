"""C10: the text side of the Readers check, independent of molli.

* lex_mol2 / lex_xyz: purely lexical reading of one text line -> the line records of spec/Readers.tla
  (kind, integer tokens, atom / bond fields as integers in micro-Angstrom and 1e-4 e).  No context, no
  molli code: this is the "independent decoder" of the check.
* render(): concrete text for the abstract files that TLC enumerates in MCReaders (one text line per
  abstract line) and for seeded larger files.
* damages(): the damage catalogue of C10 on a concrete text: every line-boundary truncation, every byte
  offset of the last record, line deletions / duplications, corruption of every constrained token to an
  invalid one, declared counts +-1, seeded combinations.  Each damage = (recipe, damaged text, ops) where
  ops is the same damage as line operations over lexical lines (what ReadersTrace.tla applies).
"""
from __future__ import annotations
import re, random, hashlib

SYMBOLS = set("""H He Li Be B C N O F Ne Na Mg Al Si P S Cl Ar K Ca Sc Ti V Cr Mn Fe Co Ni Cu Zn Ga Ge As Se Br Kr
Rb Sr Y Zr Nb Mo Tc Ru Rh Pd Ag Cd In Sn Sb Te I Xe Cs Ba La Ce Pr Nd Pm Sm Eu Gd Tb Dy Ho Er Tm Yb Lu Hf Ta W Re
Os Ir Pt Au Hg Tl Pb Bi Po At Rn Fr Ra Ac Th Pa U Np Pu Am Cm Bk Cf Es Fm Md No Lr Rf Db Sg Bh Hs Mt Ds Rg Cn Nh
Fl Mc Lv Ts Og""".split())
BOND_WORDS = {"am", "ar", "du", "un", "nc"}
RE_INT = re.compile(r"^[+-]?\d{1,9}$")
RE_FLOAT = re.compile(r"^[+-]?(\d+\.?\d*|\.\d+)([eE][+-]?\d+)?$")
RE_TAG = re.compile(r"^@<TRIPOS>([A-Z_]+)$")
BLANK = {"k": "blank", "nt": 0}


def ua(tok):           # micro-Angstrom
    return int(round(float(tok) * 1e6))


def me(tok):           # 1e-4 e
    return int(round(float(tok) * 1e4))


def _isint(t):
    return bool(RE_INT.match(t))


def _isfloat(t):
    return bool(RE_FLOAT.match(t)) and abs(float(t)) < 2000.0


def _text(s, toks):
    return {"k": "text", "s": s[:32], "nt": len(toks)}


def lex_mol2(raw: str) -> dict:
    s = raw.strip()
    if s == "":
        return dict(BLANK)
    toks = s.split()
    if s.startswith("#"):
        return {"k": "cmt", "nt": len(toks)}
    m = RE_TAG.match(s)
    if m:
        return {"k": "tag", "t": m[1], "nt": 1}
    if all(_isint(t) for t in toks):
        return {"k": "ints", "c": [int(t) for t in toks], "nt": len(toks)}
    if len(toks) >= 6 and _isint(toks[0]) and all(_isfloat(t) for t in toks[2:5]):
        el = toks[5].split(".")[0]
        ok = el in SYMBOLS or el in ("Du", "LP", "Any", "Hal", "Het", "Hev")
        hq = len(toks) >= 9 and _isfloat(toks[8])
        return {"k": "atom", "n": int(toks[0]), "ok": ok, "hq": hq, "lab": toks[1], "x": ua(toks[2]), "y": ua(toks[3]), "z": ua(toks[4]),
                "q": me(toks[8]) if hq else 0, "ty": toks[5], "nt": len(toks)}
    if 4 <= len(toks) <= 6 and all(_isint(t) for t in toks[:3]):
        return {"k": "bond", "n": int(toks[0]), "a1": int(toks[1]), "a2": int(toks[2]), "ok": toks[3] in BOND_WORDS, "bt": toks[3],
                "nt": len(toks)}
    return _text(s, toks)


def lex_xyz(raw: str) -> dict:
    s = raw.strip()
    if s == "":
        return dict(BLANK)
    toks = s.split()
    if all(_isint(t) for t in toks):
        return {"k": "ints", "c": [int(t) for t in toks], "nt": len(toks)}
    if len(toks) == 4 and all(_isfloat(t) for t in toks[1:]):
        return {"k": "atom", "ok": toks[0] in SYMBOLS or toks[0] == "*", "hq": False, "sym": toks[0],
                "x": ua(toks[1]), "y": ua(toks[2]), "z": ua(toks[3]), "nt": 4}
    return _text(s, toks)


def lex(fmt, raw):
    return lex_mol2(raw) if fmt == "mol2" else lex_xyz(raw)


def lex_text(fmt, text):
    return [lex(fmt, l) for l in text.splitlines()]


def split(text):
    return text.splitlines(keepends=True)


# ----------------------------------------------------------------------------------------------------------
# rendering of abstract files (MCReaders.Render) and of seeded larger files
# ----------------------------------------------------------------------------------------------------------
ELS = ["C", "N", "O", "H", "S", "Cl"]
TYS = {"C": "C.3", "N": "N.3", "O": "O.3", "H": "H", "S": "S.3", "Cl": "Cl"}
BTS = ["1", "2", "ar", "am"]


def atom_fields(aid):
    el = ELS[aid % len(ELS)]
    return el, f"{el}{aid}", aid + 0.125, -0.5 * aid, 0.001 * aid + 1.0, 0.01 * (aid % 37) - 0.1


def render(fmt, style, shapes, *, bonds=None, ids=None):
    """shapes: [{'na':..,'nb':..}]; one text line per line of Readers!Render.  `bonds` optionally gives the
    endpoint pairs per molecule (default (1,2) for every bond as in the spec)."""
    out = []
    if fmt == "mol2":
        out.append("# generated for C10")
    for m, sh in enumerate(shapes, 1):
        na, nb = sh["na"], sh["nb"]
        if fmt == "xyz":
            out += [f"{na}", f"frame {m}"]
            for j in range(1, na + 1):
                el, lab, x, y, z, q = atom_fields(10 * m + j)
                out.append(f"{el:<3} {x:>14.5f} {y:>14.5f} {z:>14.5f}")
            continue
        out += ["@<TRIPOS>MOLECULE", f"mol_{m}", f" {na} {nb} 0 0 0", "SMALL", "USER_CHARGES"]
        if style == "nostatus":
            pass
        elif style == "stars":
            out += ["****", f"comment of molecule {m}"]
        else:
            out.append("")
        out.append("@<TRIPOS>ATOM")
        for j in range(1, na + 1):
            el, lab, x, y, z, q = atom_fields(10 * m + j)
            out.append(f"{j:>7} {lab:<6} {x:>10.4f} {y:>10.4f} {z:>10.4f} {TYS[el]:<6} 1  UNL1   {q:>10.4f}")
        if style == "unity" and na >= 1:
            out += ["@<TRIPOS>UNITY_ATOM_ATTR", "1 1", "charge 1"]
        out.append("@<TRIPOS>BOND")
        for j in range(1, nb + 1):
            a1, a2 = (bonds[m - 1][j - 1] if bonds else (1, 2))
            out.append(f"{j:>6} {a1:>5} {a2:>5} {BTS[(m - 1) % len(BTS)]:>4}")
        if style == "sub":
            out += ["@<TRIPOS>SUBSTRUCTURE", "1 UNL1 1"]
    return "\n".join(out) + "\n"


def random_file(fmt, rnd: random.Random):
    nm = rnd.randint(1, 5)
    shapes, bonds = [], []
    for _ in range(nm):
        na = rnd.randint(0, 7) if fmt == "mol2" else rnd.randint(1, 7)      # molli has no geometry without atoms
        nb = rnd.randint(0, min(6, na * (na - 1) // 2)) if fmt == "mol2" else 0
        shapes.append({"na": na, "nb": nb})
        bonds.append([tuple(rnd.sample(range(1, na + 1), 2)) for _ in range(nb)])
    style = rnd.choice(["blank", "nostatus", "stars", "unity", "sub"]) if fmt == "mol2" else "plain"
    text = render(fmt, style, shapes, bonds=bonds)
    if rnd.random() < 0.3:
        text = text[:-1]                       # no newline at the end of the file
    return {"style": style, "shapes": shapes}, text


# ----------------------------------------------------------------------------------------------------------
# damages
# ----------------------------------------------------------------------------------------------------------
def _join(ls):
    return "".join(ls)


def _repl_tok(line, j, new):
    """replace the j-th whitespace-separated token of a line, keeping the layout"""
    parts = re.split(r"(\s+)", line)
    idx = [i for i, p in enumerate(parts) if p and not p.isspace()]
    parts[idx[j]] = new if not callable(new) else new(parts[idx[j]])
    return "".join(parts)


def _keep_toks(line, j):
    """the line up to the end of its j-th token"""
    parts = re.split(r"(\s+)", line.rstrip("\n"))
    out, n = [], 0
    for p in parts:
        if p and not p.isspace():
            n += 1
        out.append(p)
        if n == j and p and not p.isspace():
            break
    return "".join(out)


def constrained_tokens(fmt, lx):
    """indices of the tokens of a line whose vocabulary is closed (an invalid token exists)"""
    k = lx["k"]
    if fmt == "mol2":
        if k == "tag":
            return [0]
        if k == "ints":
            return list(range(lx["nt"]))
        if k == "atom":
            return [j for j in (0, 2, 3, 4, 5, 6, 8) if j < lx["nt"]]
        if k == "bond":
            return [0, 1, 2, 3]
    else:
        if k == "ints":
            return list(range(lx["nt"]))
        if k == "atom":
            return [0, 1, 2, 3]
    return []


def count_lines(fmt, L):
    """0-based indices of the lines that declare counts in an undamaged text (context needed)"""
    if fmt == "mol2":
        return [i + 2 for i, l in enumerate(L) if l["k"] == "tag" and l["t"] == "MOLECULE" and i + 2 < len(L)
                and L[i + 2]["k"] == "ints"]
    out, i = [], 0
    while i < len(L) and L[i]["k"] == "ints" and len(L[i]["c"]) == 1 and L[i]["c"][0] >= 0:
        out.append(i)
        i += 2 + L[i]["c"][0]
    return out


def in_optional_block(L, i):
    """is line i (0-based) inside a block other than MOLECULE / ATOM / BOND?"""
    for j in range(i, -1, -1):
        if L[j]["k"] == "tag":
            return j != i and L[j]["t"] not in ("MOLECULE", "ATOM", "BOND")
    return False


class Damager:
    """Applies recipes to one text; recipes are small JSON-able lists so that a replay can redo them."""

    def __init__(self, fmt, text):
        self.fmt, self.text = fmt, text
        self.lines = split(text)
        self.L = [lex(fmt, l) for l in self.lines]
        n = len(self.lines)
        while n > 0 and self.lines[n - 1].strip() == "":
            n -= 1
        self.nlast = n                                   # 1-based index of the last record
        self.last_start = len(_join(self.lines[:n - 1])) if n else 0
        self.last_end = len(_join(self.lines[:n]))

    def apply(self, recipe):
        """recipe: list of text-level operations, applied in order.  Returns (damaged text, ops for the spec)."""
        lines = list(self.lines)
        ops = []
        for r in recipe:
            op = r[0]
            if op == "cut":                              # keep the first n lines
                lines = lines[:r[1]]
                ops.append({"op": "cut", "i": r[1], "line": BLANK})
            elif op == "cutbyte":                        # keep p characters of the text (p inside the last record)
                p = r[1]
                assert self.last_start < p < self.last_end and lines == self.lines
                frag = self.text[self.last_start:p]
                lines = self.lines[:self.nlast - 1] + [frag]
                ops.append({"op": "cut", "i": self.nlast, "line": BLANK})
                ops.append({"op": "repl", "i": self.nlast, "line": lex(self.fmt, frag)})
            elif op == "del":
                i = r[1]
                lines = lines[:i - 1] + lines[i:]
                ops.append({"op": "del", "i": i, "line": BLANK})
            elif op == "dup":
                i = r[1]
                lines = lines[:i] + lines[i - 1:]
                if not lines[i - 1].endswith("\n"):      # duplicating an unterminated last line
                    lines[i - 1] += "\n"
                ops.append({"op": "dup", "i": i, "line": BLANK})
            elif op == "tok":                            # token j of line i -> new token
                i, j, new = r[1], r[2], r[3]
                lines[i - 1] = _repl_tok(lines[i - 1], j, new)
                ops.append({"op": "repl", "i": i, "line": lex(self.fmt, lines[i - 1])})
            elif op == "droptok":                        # token j of line i is lost (the later columns shift left)
                i, j = r[1], r[2]
                lines[i - 1] = _repl_tok(lines[i - 1], j, "")
                ops.append({"op": "repl", "i": i, "line": lex(self.fmt, lines[i - 1])})
            elif op == "trunc":                          # line i is cut short after its j-th token, the rest of the text stays
                i, j = r[1], r[2]
                nl = "\n" if lines[i - 1].endswith("\n") else ""
                lines[i - 1] = _keep_toks(lines[i - 1], j) + nl
                ops.append({"op": "repl", "i": i, "line": lex(self.fmt, lines[i - 1])})
            elif op == "cutmid":                         # the TEXT ends after the j-th token of line i
                i, j = r[1], r[2]
                frag = _keep_toks(lines[i - 1], j)
                lines = lines[:i - 1] + [frag]
                ops.append({"op": "cut", "i": i, "line": BLANK})
                ops.append({"op": "repl", "i": i, "line": lex(self.fmt, frag)})
            elif op in ("bset", "bins"):                 # byte level: overwrite / insert bytes at offset r[1] of the FILE
                assert lines == self.lines and len(recipe) == 1
                raw = self.text.encode("utf-8")
                new = bytes.fromhex(r[2])
                data = raw[:r[1]] + new + raw[r[1] + (len(new) if op == "bset" else 0):]
                i = raw[:r[1]].count(b"\n") + 1
                dl = data.split(b"\n")[i - 1].decode("utf-8", errors="replace")
                ops.append({"op": "repl", "i": i, "line": lex(self.fmt, dl)})
                return data, ops
            elif op == "set":                            # whole line i -> new text
                i, new = r[1], r[2]
                nl = "\n" if lines[i - 1].endswith("\n") else ""
                lines[i - 1] = new + nl
                ops.append({"op": "repl", "i": i, "line": lex(self.fmt, new)})
            else:
                raise ValueError(op)
        return _join(lines), ops

    # ---- catalogues ----
    def line_cuts(self, sample=None, rnd=None):
        ns = list(range(0, len(self.lines)))
        if sample and len(ns) > sample:
            keep = set(ns[:12]) | set(ns[-12:]) | {i + d for i in count_lines(self.fmt, self.L) for d in range(-3, 8)}
            rest = [n for n in ns if n not in keep]
            keep |= set(rnd.sample(rest, max(0, min(len(rest), sample - len(keep)))))
            ns = sorted(n for n in keep if 0 <= n < len(self.lines))
        return [[["cut", n]] for n in ns]

    def byte_cuts(self):
        return [[["cutbyte", p]] for p in range(self.last_start + 1, self.last_end)]

    def del_dup(self, idx):
        return [[[op, i]] for i in idx for op in ("del", "dup")]

    def tok_corruptions(self, idx, rnd=None, per_line=None):
        out = []
        for i in idx:
            lx = self.L[i - 1]
            js = constrained_tokens(self.fmt, lx)
            if per_line and len(js) > per_line:
                js = rnd.sample(js, per_line)
            toks = self.lines[i - 1].split()
            for j in js:
                out.append([["tok", i, j, "?!" + toks[j]]])
            if lx["k"] == "tag" and lx["t"] in ("MOLECULE", "ATOM", "BOND"):
                # a tag that is still a tag, of an unknown block (only blocks announced by the header: the loss
                # of an optional block leaves a well-formed text that no reader can tell from the original)
                out.append([["set", i, "@<TRIPOS>" + lx["t"] + "X"]])
                out.append([["set", i, "@<TRIPOS>" + lx["t"][:-1]]] if len(lx["t"]) > 1 else [["set", i, "@<TRIPOS>Q"]])
        return out

    def record_lines(self):
        """1-based indices of the record lines (atom / bond / integer lines) of the text"""
        return [i + 1 for i, l in enumerate(self.L) if l["k"] in ("atom", "bond", "ints") and l["nt"] >= 2 or
                (self.fmt == "xyz" and l["k"] == "ints")]

    def token_level(self, idx, cutmid=True):
        """every single token of a record line lost; the line (and, separately, the whole text) cut short after each token"""
        out = []
        for i in idx:
            nt = self.L[i - 1]["nt"]
            out += [[["droptok", i, j]] for j in range(nt)]
            out += [[["trunc", i, j]] for j in range(1, nt)]
            if cutmid:
                out += [[["cutmid", i, j]] for j in range(1, nt)]
        return out

    def byte_level(self, n, rnd: random.Random):
        """invalid UTF-8 bytes written over / inserted into multi-character tokens of record, count and tag lines
        (and atom labels), a valid two-byte character inserted into closed-vocabulary tokens"""
        raw = self.text.encode("utf-8")
        spots, off = [], 0
        for li, line in enumerate(self.lines):
            lx = self.L[li]
            if lx["k"] in ("atom", "bond", "ints", "tag"):
                closed = set(constrained_tokens(self.fmt, lx))
                for tj, m in enumerate(re.finditer(r"\S+", line)):
                    if len(m.group()) >= 2:
                        b0 = off + len(line[:m.start()].encode("utf-8"))
                        # a valid non-ASCII character is damage only where the vocabulary is closed as a whole: numbers
                        # and tags (the sub-type part of an atom type is open: unknown sub-types are read as the bare element)
                        numeric = tj in closed and (_isint(m.group()) or _isfloat(m.group()) or
                                                   (lx["k"] == "tag" and lx["t"] in ("MOLECULE", "ATOM", "BOND")))
                        spots.append((b0, len(m.group().encode("utf-8")), numeric))
            off += len(line.encode("utf-8"))
        out = []
        if not spots:
            return out
        for b0, ln, closed in (rnd.sample(spots, n) if len(spots) > n else spots):
            p = b0 + rnd.randint(1, ln - 1)                  # strictly inside the token
            q = b0 + rnd.randint(0, ln - 1)
            out.append([["bset", q, rnd.choice(["ff", "80", "fe"])]])
            out.append([["bins", p, rnd.choice(["ff", "80", "c0"])]])
            if closed:
                out.append([["bins", p, "c3a9"]])
        return out

    def valid_other(self, idx, rnd: random.Random):
        """a token replaced by ANOTHER VALID value of its column (mol2): the serial number of a record (atom id, bond id)
        duplicated from another record of the block / off by one / swapped with the next record's, the substructure id off
        by one, a bond endpoint off by one across the border of 1..n_atoms.  (An endpoint that stays inside 1..n_atoms, a
        coordinate, a type: another well-formed text, not generated.)"""
        out = []
        if self.fmt != "mol2":
            return out
        hdr = count_lines(self.fmt, self.L)
        for i in idx:
            lx, toks = self.L[i - 1], self.lines[i - 1].split()
            isbond = lx["k"] == "bond" or (lx["k"] == "ints" and 4 <= lx["nt"] <= 6 and (i - 1) not in hdr)
            if lx["k"] != "atom" and not isbond:
                continue
            n = int(toks[0])
            out.append([["tok", i, 0, str(n + 1)]])
            if n > 1:
                out.append([["tok", i, 0, str(n - 1)]])
                out.append([["tok", i, 0, "1"]])
            nxt = self.L[i] if i < len(self.L) else None
            if nxt is not None and nxt["k"] == lx["k"] and nxt["nt"] == lx["nt"]:
                out.append([["tok", i, 0, self.lines[i].split()[0]], ["tok", i + 1, 0, toks[0]]])      # swapped
            if lx["k"] == "atom" and lx["nt"] >= 7 and _isint(toks[6]):
                out.append([["tok", i, 6, str(int(toks[6]) + 1)]])
            if isbond:
                h = max((j for j in hdr if j < i - 1), default=None)
                na = self.L[h]["c"][0] if h is not None else None
                for j in (1, 2):
                    e = int(toks[j])
                    if e == 1:
                        out.append([["tok", i, j, "0"]])
                    if na is not None and e == na:
                        out.append([["tok", i, j, str(na + 1)]])
        return out

    def border_bonds(self):
        """1-based indices of bond lines that touch atom 1 or atom n_atoms (an off-by-one there leaves the range)"""
        hdr = count_lines(self.fmt, self.L)
        out = []
        for i0, lx in enumerate(self.L):
            if lx["k"] == "bond" or (lx["k"] == "ints" and 4 <= lx["nt"] <= 6 and i0 not in hdr):
                h = max((j for j in hdr if j < i0), default=None)
                if h is None:
                    continue
                ends = (lx["a1"], lx["a2"]) if lx["k"] == "bond" else (lx["c"][1], lx["c"][2])
                if 1 in ends or self.L[h]["c"][0] in ends:
                    out.append(i0 + 1)
        return out

    def count_changes(self):
        out = []
        for i0 in count_lines(self.fmt, self.L):
            c = self.L[i0]["c"]
            for j in range(min(2, len(c)) if self.fmt == "mol2" else 1):
                out.append([["tok", i0 + 1, j, str(c[j] + 1)]])
                if c[j] > 0:
                    out.append([["tok", i0 + 1, j, str(c[j] - 1)]])
        return out

    def random_combo(self, rnd: random.Random):
        """2-3 successive random line operations (indices refer to the text as damaged so far).  Deletions and
        duplications are never mixed: one of each inside one block gives a well-formed text with other content
        (record ids are 'for reference only' in mol2 and absent in xyz), which no reader can notice."""
        recipe, n = [], len(self.lines)
        lines = list(self.lines)
        mode = rnd.choice(["del", "dup"])
        for _ in range(rnd.randint(2, 3)):
            if n < 2:
                break
            kind = rnd.choice([mode, mode, "tok"])
            i = rnd.randint(1, n)
            if self.fmt == "mol2" and in_optional_block([lex_mol2(l) for l in lines], i - 1):
                continue          # name/value records of optional blocks are free-form: two edits can compose a valid record
            if kind == "del":
                recipe.append(["del", i]); lines = lines[:i - 1] + lines[i:]; n -= 1
            elif kind == "dup":
                recipe.append(["dup", i]); lines = lines[:i] + lines[i - 1:]; n += 1
            else:
                js = constrained_tokens(self.fmt, lex(self.fmt, lines[i - 1]))
                if not js:
                    continue
                j = rnd.choice(js)
                new = "?!" + lines[i - 1].split()[j]
                recipe.append(["tok", i, j, new]); lines[i - 1] = _repl_tok(lines[i - 1], j, new)
        return recipe or [["dup", 1]]


def sha(text):
    return hashlib.sha1(text.encode()).hexdigest()[:16]
