"""C03 driver: real append sessions -> byte stream (recorded by a stream wrapper) -> one crash image
per byte offset -> real recovery histories -> event traces for UKVCrashTrace."""
from __future__ import annotations
import hashlib, os, pathlib, random, shutil, tempfile
from pathlib import Path
from .ukvparse import parse
from .tlc import WORK


def vd(b: bytes) -> str:
    return hashlib.sha1(bytes(b)).hexdigest()[:8]


class RecStream:
    """Proxy around the binary stream of a UKVFile that records write / truncate operations with
    their positions (the logical byte stream of the session)."""
    def __init__(self, raw, ops):
        self._raw, self._ops = raw, ops

    def write(self, data):
        self._ops.append(("write", self._raw.tell(), bytes(data)))
        return self._raw.write(data)

    def truncate(self, size=None):
        if size is None:
            size = self._raw.tell()
        self._ops.append(("truncate", size, b""))
        return self._raw.truncate(size)

    def __getattr__(self, name):
        return getattr(self._raw, name)


class Recording:
    """Context manager: streams opened on `path` through pathlib.Path.open are wrapped."""
    def __init__(self, path):
        self.path, self.ops = Path(path), []

    def __enter__(self):
        self._orig = pathlib.Path.open
        rec = self

        def opener(p, *a, **kw):
            f = rec._orig(p, *a, **kw)
            if Path(p) == rec.path and a and "b" in a[0]:
                return RecStream(f, rec.ops)
            return f
        pathlib.Path.open = opener
        return self

    def __exit__(self, *exc):
        pathlib.Path.open = self._orig


class Keys:
    """tokens for keys in traces (real keys may be 255 bytes / binary)."""
    def __init__(self):
        self.m = {}

    def tok(self, k: bytes) -> str:
        k = bytes(k)
        if k not in self.m:
            self.m[k] = f"K{len(self.m)}"
        return self.m[k]


def observe_open(h, kt: Keys):
    gets = {}
    for k in list(h.keys()):
        try:
            gets[kt.tok(k)] = vd(h.get(k))
        except Exception as e:
            gets[kt.tok(k)] = "!" + type(e).__name__
    return sorted(kt.tok(k) for k in h.keys()), gets


class CrashLab:
    def __init__(self):
        from molli.storage.ukvfile import UKVFile
        self.UKVFile = UKVFile
        WORK.mkdir(exist_ok=True)
        self.dir = Path(tempfile.mkdtemp(prefix="crash-", dir=WORK))
        self.path = self.dir / "lib.ukv"
        self.n = 0

    def cleanup(self):
        shutil.rmtree(self.dir, ignore_errors=True)

    # ---- a real session: base records committed, then an append session whose stream is recorded
    def session(self, hdr, base, puts):
        """-> dict(base_bytes, stream, bof, prefix_events, kt).  hdr=(h1,h2,b0) or None."""
        kt = Keys()
        if self.path.exists():
            self.path.unlink()
        ev = []
        kw = {} if hdr is None else dict(h1=hdr[0], h2=hdr[1], b0=hdr[2])
        h = self.UKVFile(self.path, "x", **kw)
        ev.append({"ev": "open", "mode": "a", "out": "ok", "keys": [], "gets": {}, "dsize": 0})
        for k, v in base:
            h.put(k, v)
            ev.append({"ev": "put", "k": kt.tok(k), "kl": len(k), "vl": len(v), "vd": vd(v), "out": "ok"})
        h.close()
        base_bytes = self.path.read_bytes()
        bof = parse(base_bytes)["bof"]
        ev.append({"ev": "close", "dsize": len(base_bytes) - bof})
        with Recording(self.path) as rec:
            h = self.UKVFile(self.path, "a")
            keys, gets = observe_open(h, kt)
            ev.append({"ev": "open", "mode": "a", "out": "ok", "keys": keys, "gets": gets, "dsize": len(base_bytes) - bof})
            for k, v in puts:
                h.put(k, v)
                ev.append({"ev": "put", "k": kt.tok(k), "kl": len(k), "vl": len(v), "vd": vd(v), "out": "ok"})
            h.close()
        final = self.path.read_bytes()
        problems = []
        end = len(base_bytes)
        stream = b""
        for op, pos, data in rec.ops:
            if op == "truncate":
                if pos < end:
                    problems.append(f"truncate({pos}) below the committed end {end}")
                continue
            if pos != end:
                problems.append(f"write at {pos}, expected append at {end} (in-place update)")
            stream += data
            end = pos + len(data)
        if final[:len(base_bytes)] != base_bytes:
            problems.append("committed bytes changed by the append session")
        if final != base_bytes + stream and not problems:
            problems.append("file content is not committed bytes + recorded stream")
        return {"base": base_bytes, "stream": stream, "bof": bof, "ev": ev, "kt": kt, "problems": problems,
                "full_close": {"ev": "close", "dsize": len(final) - bof}}

    # ---- recovery histories on a crash image
    def _write_image(self, img):
        self.path.write_bytes(img)

    def recover(self, s, p, kind, extra=None):
        """Return (events after the crash event, info).  kind: r | anew | atorn | coll_r | coll_w"""
        kt, bof = s["kt"], s["bof"]
        img = s["base"] + s["stream"][:p]
        self._write_image(img)
        ev = [{"ev": "crash", "p": p}]
        info = {}

        def ro_pass():
            size = self.path.stat().st_size
            try:
                h = self.UKVFile(self.path, "r")
            except Exception as e:
                ev.append({"ev": "open", "mode": "r", "out": type(e).__name__, "keys": [], "gets": {}, "dsize": size - bof})
                return
            keys, gets = observe_open(h, kt)
            ev.append({"ev": "open", "mode": "r", "out": "ok", "keys": keys, "gets": gets, "dsize": size - bof})
            h.close()
            ev.append({"ev": "close", "dsize": self.path.stat().st_size - bof})

        if kind == "r":
            ro_pass()
        elif kind in ("anew", "atorn"):
            if kind == "anew":
                k, v = b"new-key-after-recovery", b"new value \x00\xff" * 3
            else:
                k, v = extra, b"rewritten"
            size = self.path.stat().st_size
            with Recording(self.path) as rec:
                try:
                    h = self.UKVFile(self.path, "a")
                except Exception as e:
                    ev.append({"ev": "open", "mode": "a", "out": type(e).__name__, "keys": [], "gets": {}, "dsize": size - bof})
                    return ev, info
                keys, gets = observe_open(h, kt)
                ev.append({"ev": "open", "mode": "a", "out": "ok", "keys": keys, "gets": gets, "dsize": size - bof})
                try:
                    h.put(k, v)
                    out = "ok"
                except Exception:
                    out = "refused"
                ev.append({"ev": "put", "k": kt.tok(k), "kl": len(k), "vl": len(v), "vd": vd(v), "out": out})
                try:
                    got = h.get(k)
                    ev.append({"ev": "get", "k": kt.tok(k), "out": "ok", "vd": vd(got)})
                except Exception as e:
                    ev.append({"ev": "get", "k": kt.tok(k), "out": type(e).__name__, "vd": ""})
                h.close()
            ev.append({"ev": "close", "dsize": self.path.stat().st_size - bof})
            info["ops"] = rec.ops
            info["after"] = self.path.read_bytes()
            ro_pass()
        elif kind == "ra_same":
            # the SAME handle object is first opened for reading, closed, and re-opened for appending
            # (what UkvCollectionBackend does with its cached UKVFile in reading() followed by writing())
            k, v = b"k-after-r-then-a", b"short"
            size = self.path.stat().st_size
            try:
                h = self.UKVFile(self.path, "r")
            except Exception as e:
                ev.append({"ev": "open", "mode": "r", "out": type(e).__name__, "keys": [], "gets": {}, "dsize": size - bof})
                return ev, info
            keys, gets = observe_open(h, kt)
            ev.append({"ev": "open", "mode": "r", "out": "ok", "keys": keys, "gets": gets, "dsize": size - bof})
            h.close()
            ev.append({"ev": "close", "dsize": self.path.stat().st_size - bof})
            size = self.path.stat().st_size
            h.open("a")
            keys, gets = observe_open(h, kt)
            ev.append({"ev": "open", "mode": "a", "out": "ok", "keys": keys, "gets": gets, "dsize": size - bof})
            try:
                h.put(k, v)
                out = "ok"
            except Exception:
                out = "refused"
            ev.append({"ev": "put", "k": kt.tok(k), "kl": len(k), "vl": len(v), "vd": vd(v), "out": out})
            h.close()
            ev.append({"ev": "close", "dsize": self.path.stat().st_size - bof})
            ro_pass()
        elif kind == "same_ara":
            # the SAME handle object through three sessions: append (the torn tail is discarded), read, append + put -
            # what a long-lived UkvCollectionBackend does with its cached UKVFile in writing(), reading(), writing()
            k, v = b"k-third-session", b"v3"
            h = None
            for step, mode in enumerate(("a", "r", "a")):
                size = self.path.stat().st_size
                try:
                    if h is None:
                        h = self.UKVFile(self.path, mode)
                    else:
                        h.open(mode)
                except Exception as e:
                    ev.append({"ev": "open", "mode": mode, "out": type(e).__name__, "keys": [], "gets": {}, "dsize": size - bof})
                    return ev, info
                keys, gets = observe_open(h, kt)
                ev.append({"ev": "open", "mode": mode, "out": "ok", "keys": keys, "gets": gets, "dsize": size - bof})
                if step == 2:
                    try:
                        h.put(k, v)
                        out = "ok"
                    except Exception:
                        out = "refused"
                    ev.append({"ev": "put", "k": kt.tok(k), "kl": len(k), "vl": len(v), "vd": vd(v), "out": out})
                h.close()
                ev.append({"ev": "close", "dsize": self.path.stat().st_size - bof})
            ro_pass()
        elif kind == "coll_rw":
            from molli.storage import Collection, UkvCollectionBackend
            import atexit
            c = Collection(self.path, UkvCollectionBackend, readonly=False)
            size = self.path.stat().st_size
            with c.reading(timeout=10):
                gets = {}
                for k in list(c.keys()):
                    try:
                        gets[kt.tok(k.encode("latin1"))] = vd(c[k])
                    except Exception as e:
                        gets[kt.tok(k.encode("latin1"))] = "!" + type(e).__name__
                keys = sorted(kt.tok(k.encode("latin1")) for k in c.keys())
            ev.append({"ev": "open", "mode": "r", "out": "ok", "keys": keys, "gets": gets, "dsize": size - bof})
            ev.append({"ev": "close", "dsize": self.path.stat().st_size - bof})
            size = self.path.stat().st_size
            k, v = "k-coll-after-crash", b"s"
            with c.writing(timeout=10):
                gets = {}
                for kk in list(c.keys()):
                    try:
                        gets[kt.tok(kk.encode("latin1"))] = vd(c[kk])
                    except Exception as e:
                        gets[kt.tok(kk.encode("latin1"))] = "!" + type(e).__name__
                keys = sorted(kt.tok(kk.encode("latin1")) for kk in c.keys())
                ev.append({"ev": "open", "mode": "a", "out": "ok", "keys": keys, "gets": gets, "dsize": size - bof})
                c[k] = v
                ev.append({"ev": "put", "k": kt.tok(k.encode()), "kl": len(k), "vl": len(v), "vd": vd(v), "out": "ok"})
            atexit.unregister(c._backend.flush)
            ev.append({"ev": "close", "dsize": self.path.stat().st_size - bof})
            ro_pass()
        elif kind == "coll_r":
            from molli.storage import Collection, UkvCollectionBackend
            import atexit
            size = self.path.stat().st_size
            c = Collection(self.path, UkvCollectionBackend, readonly=True)
            with c.reading(timeout=10):
                gets = {}
                for k in list(c.keys()):
                    try:
                        gets[kt.tok(k.encode("latin1"))] = vd(c[k])
                    except Exception as e:
                        gets[kt.tok(k.encode("latin1"))] = "!" + type(e).__name__
                keys = sorted(kt.tok(k.encode("latin1")) for k in c.keys())
            atexit.unregister(c._backend.flush)
            ev.append({"ev": "open", "mode": "r", "out": "ok", "keys": keys, "gets": gets, "dsize": size - bof})
            ev.append({"ev": "close", "dsize": self.path.stat().st_size - bof})
        return ev, info

    def second_crash(self, s, p, info, q_list):
        """Crash during the put that followed recovery: images = state after the recorded truncate + q bytes."""
        kt, bof = s["kt"], s["bof"]
        img = s["base"] + s["stream"][:p]
        cur = bytearray(img)
        data = b""
        start = None
        for op, pos, d in info["ops"]:
            if op == "truncate":
                del cur[pos:]
            else:
                if start is None:
                    start = pos
                data += d
        out = []
        for q in q_list:
            if q > len(data):
                continue
            # the first q bytes of the recovery put are written IN PLACE at its start position: whatever the file held
            # beyond them (nothing, if the torn tail was discarded when the file was opened) is still there
            st = start if start is not None else len(cur)
            image2 = bytes(cur[:st]) + data[:q] + bytes(cur[st + q:])
            self._write_image(image2)
            ev = [{"ev": "crash", "p": q}]
            size = len(image2)
            try:
                h = self.UKVFile(self.path, "r")
                keys, gets = observe_open(h, kt)
                ev.append({"ev": "open", "mode": "r", "out": "ok", "keys": keys, "gets": gets, "dsize": size - bof})
                h.close()
                ev.append({"ev": "close", "dsize": self.path.stat().st_size - bof})
            except Exception as e:
                ev.append({"ev": "open", "mode": "r", "out": type(e).__name__, "keys": [], "gets": {}, "dsize": size - bof})
            out.append((q, ev))
        return out, len(data)


def offsets(stream_len, boundaries, exhaustive_below=700, band=6):
    if stream_len <= exhaustive_below:
        return list(range(stream_len + 1))
    s = {0, stream_len}
    for b in boundaries:
        for d in range(-band, band + 1):
            if 0 <= b + d <= stream_len:
                s.add(b + d)
    return sorted(s)


def boundaries(puts):
    out, pos = [], 0
    for k, v in puts:
        out += [pos, pos + 5, pos + 5 + len(k), pos + 5 + len(k) + len(v)]
        pos += 5 + len(k) + len(v)
    return sorted(set(out))
