"""C02 direction B, collection layer: seeded random histories on real Collection objects."""
from __future__ import annotations
import atexit, random, shutil, tempfile
from pathlib import Path
from .tlc import WORK
from .interp import HDRS
from .adapters.ukv import exc_name

BUFS = [-1, 0, 6, 300, 100000]


def history(seed, length, ncoll=3, nkeys=12, nvals=6):
    from molli.storage import Collection, UkvCollectionBackend
    rnd = random.Random(seed)
    klens = [1, 2, 3, 8, 40, 128, 254, 255, 256, 300]
    keys = {}
    for i in range(nkeys):
        n = klens[i] if i < len(klens) else rnd.randint(1, 255)
        keys[f"K{i}"] = ((f"k{i}_" * 200)[:n]) if i % 4 != 3 else ("é" * 200)[: max(1, n // 2)]
    keys[f"K{nkeys - 1}"] = "é" * 200        # 200 characters, 400 bytes: too long for a UKV key although len(key) <= 255
    vlens = [0, 1, 3, 100, 4096, 70000]
    vals = {f"V{i}": bytes(rnd.getrandbits(8) for _ in range(vlens[i] if i < len(vlens) else rnd.randint(0, 2000))) for i in range(nvals)}
    rv = {v: k for k, v in vals.items()}
    rk = {v: k for k, v in keys.items()}
    WORK.mkdir(exist_ok=True)
    d = Path(tempfile.mkdtemp(prefix="bkb-", dir=WORK))
    path = d / "lib.ukv"
    names = [f"c{i+1}" for i in range(ncoll)]
    ro = {n: (i == 1 and rnd.random() < 0.7) for i, n in enumerate(names)}
    buf = {n: rnd.choice(BUFS) for n in names}
    coll, cms, ev = {}, {}, []

    def log(e, c, out, **kw):
        ks = sorted(rk.get(k, "?" + k[:6]) for k in coll[c].keys()) if (c in coll and c in cms) else []
        size = -1 if cms else (path.stat().st_size if path.exists() else 0)
        ev.append({"ev": e, "c": c, "out": out, "keys": ks, "size": size, **kw})

    try:
        for _ in range(length):
            c = rnd.choice(names)
            if c not in coll:
                if cms:
                    continue
                hd = rnd.choice(["hdDef", "hdFull"])
                h1, h2, b0 = HDRS[hd]
                kw = {} if h1 is None else dict(h1=h1, comment=h2.decode(), b0=b0)
                try:
                    coll[c] = Collection(path, UkvCollectionBackend, readonly=ro[c], bufsize=buf[c], **kw)
                    log("make", c, "ok", hdr=hd)
                except Exception as e:
                    log("make", c, exc_name(e), hdr=hd)
                continue
            if c not in cms:
                if cms:
                    continue                                   # sessions of one process do not overlap
                w = rnd.random() < 0.6
                try:
                    cm = coll[c].writing(timeout=10) if w else coll[c].reading(timeout=10)
                    cm.__enter__()
                    cms[c] = cm
                    log("beginw" if w else "beginr", c, "ok")
                except Exception as e:
                    log("beginw" if w else "beginr", c, exc_name(e))
                continue
            st = coll[c]._backend._state
            op = rnd.choice(["put"] * 5 + ["get"] * 3 + ["end"] * 2 + ["flush"]) if st == "writing" else rnd.choice(["get"] * 3 + ["end"] * 2 + (["put", "flush"] if ro[c] else []))
            if op == "put":
                k, v = rnd.choice(list(keys)), rnd.choice(list(vals))
                try:
                    coll[c][keys[k]] = vals[v]
                    log("cput", c, "ok", k=k, v=v)
                except Exception as e:
                    log("cput", c, exc_name(e), k=k, v=v)
            elif op == "flush":
                try:
                    coll[c].flush()
                    log("cflush", c, "ok")
                except Exception as e:
                    log("cflush", c, exc_name(e))
            elif op == "get":
                k = rnd.choice(list(keys))
                try:
                    got = coll[c][keys[k]]
                    log("cget", c, "ok", k=k, val=rv.get(bytes(got), "?" + str(len(got))))
                except Exception as e:
                    log("cget", c, exc_name(e), k=k, val="")
            else:
                cm = cms.pop(c)
                if rnd.random() < 0.3:
                    try:
                        swallowed = cm.__exit__(RuntimeError, RuntimeError("caller's exception"), None)
                        log("endexc", c, "exception swallowed" if swallowed else "ok")
                    except Exception as e:
                        log("endexc", c, exc_name(e))
                else:
                    try:
                        cm.__exit__(None, None, None)
                        log("end", c, "ok")
                    except Exception as e:
                        log("end", c, exc_name(e))
        for c in list(cms):
            cm = cms.pop(c)
            try:
                cm.__exit__(None, None, None)
                log("end", c, "ok")
            except Exception as e:
                log("end", c, exc_name(e))
    finally:
        for c in coll.values():
            try:
                atexit.unregister(c._backend.flush)
            except Exception:
                pass
        shutil.rmtree(d, ignore_errors=True)
    return {"tid": f"bk-{seed}", "klen": {k: len(v.encode()) for k, v in keys.items()}, "vlen": {k: len(v) for k, v in vals.items()},
            "ro": ro, "buf": buf, "ev": ev}
