"""Adapter for MolEdit: spec actions -> real molli Molecule / Structure edits; identity-keyed observation."""
from __future__ import annotations
import math
import numpy as np

IDX = {"a1": 1, "a2": 2, "a3": 3, "a4": 4}
ELEM = {"a1": "O", "a2": "F", "a3": "O", "a4": "N"}
LABEL = {"a1": "L1", "a2": "L2", "a3": "L1", "a4": "L4"}
SHIFT = np.array([10.0, 20.0, 30.0])


def given_coord(tag):
    k = IDX[tag]
    return np.array([float(k), k + 0.5, -float(k)])


def given_charge(tag):
    return 0.1 * IDX[tag]


class MolEditAdapter:
    def __init__(self, kind="Molecule"):
        import molli as ml
        self.ml = ml
        self.cls = ml.Molecule if kind == "Molecule" else ml.Structure
        self.kind = kind
        self.mol = self.cls(name="m")
        self.tag = {}      # id(atom object) -> tag
        self.obj = {}      # tag -> atom object
        self.keep = []     # keep objects alive so id() stays unique
        self.nfresh = 0
        self.nap = 0
        self.view = None
        self.view_tags = ()
        # identity tables (overridden by the trace driver for file-loaded molecules)
        self.idx, self.elem, self.label = dict(IDX), dict(ELEM), dict(LABEL)
        self.coordtab = {t: given_coord(t) for t in IDX}
        self.chgtab = {t: given_charge(t) for t in IDX}

    def gc(self, tag):
        return self.coordtab[tag]

    def gq(self, tag):
        return self.chgtab[tag]

    def cleanup(self):
        pass

    def _new(self, tag):
        # an identity that was added before and deleted is re-added as the SAME Atom object (it still carries a
        # stale parent reference to the molecule it was deleted from) - what a user does who moves an atom around
        old = self.obj.get(tag)
        if old is not None and tag in self.idx and not self._live(tag):
            return old
        a = self.ml.Atom(self.elem[tag], label=self.label[tag])
        self.keep.append(a)
        self.tag[id(a)] = tag
        self.obj[tag] = a
        return a

    def _live(self, tag):
        a = self.obj.get(tag)
        return a is not None and any(a is x for x in self.mol.atoms)

    def apply(self, act):
        ml, mol, a = self.ml, self.mol, act["act"]
        try:
            if a == "add_atom":
                at = self._new(act["a"])
                if self.kind == "Molecule" and act["q"]:
                    mol.add_atom(at, self.gc(act["a"]), self.gq(act["a"]))
                else:
                    mol.add_atom(at, self.gc(act["a"]))
            elif a == "append_atom":
                mol.append_atom(self._new(act["a"]))
            elif a == "new_atom":
                t = act["a"]
                at = mol.new_atom(ml.Element[self.elem[t]], coord=self.gc(t), label=self.label[t] if self.label[t] != "none" else None)
                self.keep.append(at)
                self.tag[id(at)] = t
                self.obj[t] = at
                if self.view is not None and t in self.view_tags:
                    self.view, self.view_tags = None, ()        # the held view was made of the old object of this identity
            elif a == "connect":
                mol.connect(act["i"], act["j"])
            elif a == "append_bond":
                x = self.obj[act["x"]] if self._live(act["x"]) else self._new(act["x"])
                y = self._new(act["y"])
                mol.append_bond(ml.Bond(x, y))
            elif a == "append_bond_par":
                mol.append_bond(ml.Bond(self.obj[act["y"]], self.obj[act["x"]]))      # same pair, reversed ends
            elif a in ("append_bonds", "extend_bonds"):
                ends = {}
                for t in (act["x1"], act["y1"], act["x2"], act["y2"]):
                    if t not in ends:
                        ends[t] = self.obj[t] if self._live(t) else self._new(t)
                bs = [ml.Bond(ends[act["x1"]], ends[act["y1"]]), ml.Bond(ends[act["x2"]], ends[act["y2"]])]
                if a == "append_bonds":
                    mol.append_bonds(*bs)
                else:
                    mol.extend_bonds(iter(bs))
            elif a == "del_bond":
                t1, t2 = list(act["b"])
                o1, o2 = self.obj[t1], self.obj[t2]
                same = [b for b in mol.bonds if (b.a1 is o1 and b.a2 is o2) or (b.a1 is o2 and b.a2 is o1)]
                which = act.get("which", "only")
                if which == "only":
                    mol.del_bond(mol.lookup_bond(o1, o2))
                else:
                    mol.del_bond(same[0] if which == "first" else same[-1])       # the bond OBJECT that is passed
            elif a == "del_atom":
                by = act["by"]
                if by == "object":
                    mol.del_atom(self.obj[act["a"]])
                elif by == "index":
                    mol.del_atom(act["i"])
                elif by == "label":
                    mol.del_atom(act["l"])
                else:
                    mol.del_atom(ml.Element[act["e"]])
            elif a == "remove_substituent":
                mol.remove_substituent(self.obj[act["s"]], self.obj[act["d"]])
            elif a == "add_h":
                mol.add_implicit_hydrogens()
            elif a == "sub_translate":
                mol.substructure([self.obj[t] for t in act["S"]]).translate(SHIFT)
            elif a == "make_view":
                self.view = mol.substructure([self.obj[t] for t in act["S"]])
                self.view_tags = tuple(act["S"])
                _ = self.view.coords, self.view.parent_atom_indices          # the view is used once, then kept
            elif a == "view_translate":
                v, self.view = self.view, None
                v.translate(SHIFT)
            elif a == "clone":
                self.view = None
                new = self.cls(mol)
                for old, nw in zip(mol.atoms, new.atoms):
                    t = self.tag.get(id(old))
                    self.keep.append(nw)
                    if t is not None:
                        self.tag[id(nw)] = t
                        self.obj[t] = nw
                self.keep.append(mol)
                self.mol = new
            else:
                raise AssertionError(a)
        except AssertionError:
            raise
        except Exception as e:
            return {"out": "error", "exc": type(e).__name__}
        return {"out": "ok"}

    def _tag_of(self, atom):
        t = self.tag.get(id(atom))
        if t is None:
            if atom.element.name == "H":
                self.nfresh += 1
                t = f"f{self.nfresh}"
            else:
                self.nap += 1
                t = f"p{self.nap}"
            self.tag[id(atom)] = t
            self.obj[t] = atom
            self.keep.append(atom)
        return t

    def observe(self):
        mol = self.mol
        tags = [self._tag_of(a) for a in mol.atoms]
        n = len(tags)
        coords_tok, chg_tok = [], []
        try:
            C = np.asarray(mol.coords)
            aligned = C.shape == (n, 3)
        except Exception:
            C, aligned = None, False
        for i, t in enumerate(tags):
            if C is None or i >= len(C):
                coords_tok.append({"base": "missing", "sh": 0}); continue
            r = np.asarray(C[i], dtype=float)
            tok = None
            if t.startswith("f"):
                coords_tok.append(None)          # hydrogens placed by the library: position not constrained by C05
                continue
            if np.all(np.isnan(r)):
                tok = {"base": "nan", "sh": 0}
            else:
                for g in self.idx:
                    for sh in (0, 1):
                        if np.allclose(r, self.gc(g) + sh * SHIFT, atol=1e-9):
                            tok = {"base": g, "sh": sh}
            if tok is None:
                tok = {"base": "other:" + ",".join(f"{x:.3f}" for x in r), "sh": 0}
            coords_tok.append(tok)
        if self.kind == "Molecule":
            try:
                Q = mol.atomic_charges
                aligned = aligned and getattr(Q, "shape", None) == (n,)
                numeric = Q.dtype != object
            except Exception:
                Q, aligned, numeric = None, False, False
            for i, t in enumerate(tags):
                if Q is None or i >= len(Q):
                    chg_tok.append("missing")
                elif not numeric or Q[i] is None:
                    chg_tok.append("nonnumeric")
                elif t in self.idx and math.isclose(float(Q[i]), self.gq(t), abs_tol=1e-9):
                    chg_tok.append("q")
                elif float(Q[i]) == 0.0:
                    chg_tok.append("zero")
                else:
                    chg_tok.append(f"other:{float(Q[i]):.3f}")
        bonds = []
        dbl = []
        parents = True
        try:
            for b in mol.bonds:
                e = []
                for x in (b.a1, b.a2):
                    e.append(self.tag[id(x)] if any(x is y for y in mol.atoms) else "foreign")
                bonds.append(sorted(e))
                if b.parent is not mol:
                    parents = False
            for i, a in enumerate(mol.atoms):
                if a.parent is not mol or a.idx != i or mol.get_atom_index(a) != i:
                    parents = False
        except Exception:
            parents = False
        uniq = sorted(set(map(tuple, bonds)))
        for p in uniq:
            n_ = bonds.count(list(p))
            if n_ == 2:
                dbl.append(list(p))
            elif n_ > 2:
                dbl.append(list(p) + [f"x{n_}"])
        return {"atoms": tags, "coords": coords_tok, "chgs": chg_tok, "bonds": [list(p) for p in uniq], "dbl": dbl,
                "aligned": aligned, "parents": parents}
