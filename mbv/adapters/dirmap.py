"""Adapter: DirMap spec actions -> real molli Collection objects over DirCollectionBackend."""
from __future__ import annotations
import os, shutil, tempfile
from pathlib import Path
from ..interp import VALS, val_tok
from ..tlc import WORK
from .ukv import exc_name

EXT = ".dat"
DKEYS = {"k1": "k1", "k2": "k2", "kSl": "x/y", "kBig": "K" * 256, "kE": ""}
RDKEYS = {v: k for k, v in DKEYS.items()}
DVALS = VALS


def dval_tok(b):
    for t, v in DVALS.items():
        if v == b:
            return t
    return val_tok(b)


def dkey_tok(s):
    return RDKEYS.get(s, "?" + s[:8])


class DirAdapter:
    def __init__(self, colls=("c1", "c2"), ro=None, buf=None):
        from molli.storage import Collection, DirCollectionBackend
        self.Collection, self.Backend = Collection, DirCollectionBackend
        WORK.mkdir(exist_ok=True)
        self.dir = Path(tempfile.mkdtemp(prefix="dm-", dir=WORK))
        self.path = self.dir / "lib"
        self.names = list(colls)
        self.ro = ro or {c: False for c in colls}
        self.buf = buf or {c: -1 for c in colls}
        self.c, self.cm = {}, {}

    def cleanup(self):
        for n, cm in list(self.cm.items()):
            try:
                cm.__exit__(None, None, None)
            except Exception:
                pass
        import atexit
        for c in self.c.values():
            try:
                c._backend._write_queue.clear()
                atexit.unregister(c._backend.flush)
            except Exception:
                pass
        shutil.rmtree(self.dir, ignore_errors=True)

    def apply(self, act):
        a, c = act["act"], act.get("c")
        try:
            if a == "make":
                self.c[c] = self.Collection(self.path, self.Backend, readonly=self.ro[c], bufsize=self.buf[c], ext=EXT)
            elif a in ("beginw", "beginr"):
                cm = self.c[c].writing(timeout=10) if a == "beginw" else self.c[c].reading(timeout=10)
                cm.__enter__()
                self.cm[c] = cm
            elif a == "end":
                cm = self.cm.pop(c)
                cm.__exit__(None, None, None)
            elif a == "truncate":
                self.c[c]._backend.truncate()
            elif a == "cput":
                self.c[c][DKEYS[act["k"]]] = DVALS[act["v"]]
            elif a == "cget":
                return {"out": "ok", "val": dval_tok(self.c[c][DKEYS[act["k"]]])}
            else:
                raise AssertionError(a)
        except AssertionError:
            raise
        except Exception as e:
            return {"out": exc_name(e)}
        return {"out": "ok"}

    def _cobs(self, n):
        c = self.c.get(n)
        if c is None:
            return {"made": False, "st": "idle", "keys": [], "gets": {}}
        if n not in self.cm:
            return {"made": True, "st": "idle", "keys": [], "gets": {}}
        st = c._backend._state
        keys = sorted(dkey_tok(k) for k in c.keys())
        gets = {}
        for k in list(c.keys()):
            try:
                gets[dkey_tok(k)] = dval_tok(c[k])
            except Exception:
                pass          # the spec's `gets` holds the readable keys only
        assert len(c) == len(c.keys())
        try:
            via_items = {}
            for k, v in c.items():
                via_items[dkey_tok(k)] = dval_tok(v)
        except Exception:
            via_items = None          # a listed key that is not readable ends the generator (see NoKeyValidation)
        if via_items is not None and via_items != gets:
            gets = {"!items() disagrees with []": via_items}
        return {"made": True, "st": st, "keys": keys, "gets": gets}

    def observe(self):
        cob = {n: self._cobs(n) for n in self.names}
        if not self.path.exists():
            return {"exists": False, "files": [], "c": cob}
        files = []
        for root, _dirs, names in os.walk(self.path):
            for nm in names:
                rel = os.path.relpath(os.path.join(root, nm), self.path)
                key = rel[:-len(EXT)] if rel.endswith(EXT) else "?" + rel
                files.append([dkey_tok(key), dval_tok(Path(root, nm).read_bytes())])
        return {"exists": True, "files": sorted(files), "c": cob}
