"""C01 adapter: abstraction of real Molecule / ConformerEnsemble objects into the value domain of
spec/MolModel.tla, construction of real objects from abstract ones (TLC pool -> code), seeded
generators of further inputs, and the library laboratory that performs real
MoleculeLibrary / ConformerLibrary sessions and records them as traces for LibCodecTrace.

Nothing in this module decides whether a read-back is acceptable: it only names what it sees.
  scalars  -> tokens  "none", "i:<int>", "s:<text %-escaped>", "y:<hex>", "b:0|1"
  floats   -> [d, s, e]: d = bits of the double, s = bits of its float32 rounding, e = bits of that
              rounding widened to a double (NaN -> "nan"; -0.0 is named like 0.0); which of d / s matters
              for which field is stated by the specification, not here
  enums    -> their integer value (IntEnum members equal their ints: DESIGN 3.3)
  attrib   -> preorder list of entries [p(ath), k(ind), d, s, e]; list and tuple are both "seq"; dict keys
              sorted by their token (dict equality does not depend on order)
"""
from __future__ import annotations
import hashlib, os, random, shutil, signal, struct, tempfile, warnings, atexit
from enum import IntEnum
from pathlib import Path
import numpy as np
from ..tlc import WORK

KINDS = {"Molecule": "mol", "ConformerEnsemble": "ens"}
ATOM_FIELDS = ("el", "iso", "label", "atype", "stereo", "geom", "fc", "fs")
ATOM_ATTRS = ("element", "isotope", "label", "atype", "stereo", "geom", "formal_charge", "formal_spin")
BOND_FIELDS = ("label", "btype", "stereo")


# ----------------------------------------------------------------------------- tokens
def _esc(s: str) -> str:
    return "".join(c if (c.isascii() and (c.isalnum() or c in " _-.")) else "%%%04x;" % ord(c) for c in s)


def _unesc(s: str) -> str:
    out, i = [], 0
    while i < len(s):
        if s[i] == "%":
            j = s.index(";", i)
            out.append(chr(int(s[i + 1:j], 16)))
            i = j + 1
        else:
            out.append(s[i])
            i += 1
    return "".join(out)


def tok(x) -> str:
    if x is None:
        return "none"
    if isinstance(x, (bool, np.bool_)):
        return "b:1" if x else "b:0"
    if isinstance(x, (int, np.integer)):          # IntEnum members included: they equal their ints
        return f"i:{int(x)}"
    if isinstance(x, str):
        return "s:" + _esc(x)
    if isinstance(x, (bytes, bytearray)):
        return "y:" + bytes(x).hex()
    return "?" + type(x).__name__ + ":" + _esc(repr(x))[:60]


def untok(t: str):
    if t == "none":
        return None
    if t.startswith("b:"):
        return t == "b:1"
    if t.startswith("i:"):
        return int(t[2:])
    if t.startswith("s:"):
        return _unesc(t[2:])
    if t.startswith("y:"):
        return bytes.fromhex(t[2:])
    raise ValueError(f"cannot interpret token {t!r}")


_ZERO = {"d": "0" * 16, "s": "0" * 8, "e": "0" * 16}
_NAN = {"d": "nan", "s": "nan", "e": "nan"}


def fdig(x) -> dict:
    x = float(x)
    if x != x:
        return dict(_NAN)
    if x == 0.0:
        return dict(_ZERO)
    with np.errstate(all="ignore"):
        s32 = np.array(x, dtype=">f4")
    w = float(s32)
    if w == 0.0:
        return {"d": struct.pack(">d", x).hex(), "s": "0" * 8, "e": "0" * 16}
    return {"d": struct.pack(">d", x).hex(), "s": s32.tobytes().hex(), "e": struct.pack(">d", w).hex()}


def fval(f: dict) -> float:
    if f["d"] == "nan":
        return float("nan")
    return struct.unpack(">d", bytes.fromhex(f["d"]))[0]


def _entry(p, k, d, s="", e=""):
    return {"p": p, "k": k, "d": d, "s": s, "e": e}


def flat_attr(v, p="") -> list:
    """Preorder flattening of a nested msgpack-able value."""
    if isinstance(v, dict):
        ks = [(tok(k), k) for k in v]
        ks.sort(key=lambda t: t[0])
        allstr = all(isinstance(k, (str, bytes)) for _, k in ks)
        out = [_entry(p, "map", f"i:{len(ks)}", "str" if allstr else "nonstr")]
        for t, k in ks:
            out += flat_attr(v[k], f"{p}/{t.replace('/', '%002f;')}")
        return out
    if isinstance(v, (list, tuple)):
        out = [_entry(p, "seq", f"i:{len(v)}")]
        for i, c in enumerate(v):
            out += flat_attr(c, f"{p}/#{i}")
        return out
    if isinstance(v, (float, np.floating)) and not isinstance(v, bool):
        f = fdig(v)
        return [_entry(p, "float", f["d"], f["s"], f["e"])]
    if isinstance(v, np.ndarray):
        h = hashlib.sha1(np.ascontiguousarray(v).tobytes()).hexdigest()[:16]
        return [_entry(p, "nd", f"{v.dtype.str}{list(v.shape)}{h}".replace(" ", ""))]
    return [_entry(p, "val", tok(v))]


def unflat_attr(entries: list):
    """Inverse of flat_attr for the kinds the TLC pool uses (map, seq, float, val)."""
    it = iter(entries)

    def rec(e):
        if e["k"] == "map":
            out = {}
            for _ in range(int(e["d"][2:])):
                c = next(it)
                key = untok(c["p"].rsplit("/", 1)[1].replace("%002f;", "/"))
                out[key] = rec(c)
            return out
        if e["k"] == "seq":
            return [rec(next(it)) for _ in range(int(e["d"][2:]))]
        if e["k"] == "float":
            return fval(e)
        if e["k"] == "val":
            return untok(e["d"])
        raise ValueError(f"cannot build attribute entry {e}")
    res = rec(next(it))
    rest = list(it)
    if rest:
        raise ValueError("trailing attribute entries")
    return res


# ----------------------------------------------------------------------------- abstraction
def _farr(a, ndim):
    """numpy array -> nested lists of float digests; wrong dimensionality -> [] (the shape field shows it)."""
    a = np.asarray(a)
    if a.ndim != ndim or a.dtype == object:
        return []
    if ndim == 1:
        return [fdig(x) for x in a.tolist()]
    return [_farr(r, ndim - 1) for r in a]


def abstract(o) -> dict:
    """Observable projection of a Molecule / ConformerEnsemble through public accessors only."""
    kind = type(o).__name__
    atoms = list(o.atoms)
    pos = {id(a): i for i, a in enumerate(atoms)}
    ats = []
    for a in atoms:
        d = {f: tok(getattr(a, n)) for f, n in zip(ATOM_FIELDS, ATOM_ATTRS)}
        d["attrib"] = flat_attr(a.attrib)
        ats.append(d)
    bds = []
    for b in o.bonds:
        d = {"a1": pos.get(id(b.a1), -1), "a2": pos.get(id(b.a2), -1)}
        d.update({f: tok(getattr(b, f)) for f in BOND_FIELDS})
        d["fo"] = fdig(b.f_order) if isinstance(b.f_order, (float, int, np.floating)) else dict(_NAN, d=tok(b.f_order))
        d["attrib"] = flat_attr(b.attrib)
        bds.append(d)
    coords, q = np.asarray(o.coords), np.asarray(o.atomic_charges)
    res = {"kind": kind, "name": tok(o.name), "charge": tok(o.charge), "mult": tok(o.mult),
           "attrib": flat_attr(o.attrib), "atoms": ats, "bonds": bds,
           "cshape": [int(x) for x in coords.shape], "qshape": [int(x) for x in q.shape]}
    if kind == "ConformerEnsemble":
        w = np.asarray(o.weights)
        res.update(nconf=int(o.n_conformers), coords=_farr(coords, 3), charges=_farr(q, 2), weights=_farr(w, 1),
                   wshape=[int(x) for x in w.shape])
    else:
        res.update(nconf=1, coords=[_farr(coords, 2)] if coords.ndim == 2 else [],
                   charges=[_farr(q, 1)] if q.ndim == 1 else [], weights=[], wshape=[])
    return res


# ----------------------------------------------------------------------------- construction (abstract -> real)
def _enum(cls, v):
    try:
        return cls(v)
    except ValueError:
        return v


def build(x: dict, route: int = 0, bonds_by: str | None = None):
    """Real object for an abstract one, through the public constructors.  `route` varies the way bonds
    and ensembles are put together (connect / Bond+append_bond; arrays through the constructor / setters);
    bonds_by="append" adds every bond as Bond(...) + append_bond."""
    from molli.chem import (Atom, Bond, Molecule, ConformerEnsemble, Element, AtomType, AtomStereo, AtomGeom,
                            BondType, BondStereo)
    atoms = []
    for a in x["atoms"]:
        atoms.append(Atom(element=Element(untok(a["el"])), isotope=untok(a["iso"]), label=untok(a["label"]),
                          atype=_enum(AtomType, untok(a["atype"])), stereo=_enum(AtomStereo, untok(a["stereo"])),
                          geom=_enum(AtomGeom, untok(a["geom"])), formal_charge=untok(a["fc"]),
                          formal_spin=untok(a["fs"]), attrib=unflat_attr(a["attrib"])))
    na = len(atoms)
    name, charge, mult = untok(x["name"]), untok(x["charge"]), untok(x["mult"])
    attrib = unflat_attr(x["attrib"])
    arr = lambda m: np.array([[[fval(f) for f in r] for r in fr] for fr in m], dtype=np.float64)
    if x["kind"] == "Molecule":
        coords = arr(x["coords"]).reshape((na, 3))
        q = np.array([fval(f) for f in x["charges"][0]], dtype=np.float64).reshape((na,))
        if route % 2 == 0:
            o = Molecule(atoms, n_atoms=na, name=name, charge=charge, mult=mult, coords=coords, atomic_charges=q,
                         attrib=attrib)
        else:
            o = Molecule(atoms, n_atoms=na, name=name, charge=charge, mult=mult, attrib=attrib)
            o.coords = coords
            o.atomic_charges = q
    else:
        nc = x["nconf"]
        coords = arr(x["coords"]).reshape((nc, na, 3))
        q = np.array([[fval(f) for f in r] for r in x["charges"]], dtype=np.float64).reshape((nc, na))
        w = np.array([fval(f) for f in x["weights"]], dtype=np.float64).reshape((nc,))
        src = atoms if na else None        # an empty atom list is taken for an (empty) list of structures
        if route % 2 == 0:
            o = ConformerEnsemble(src, n_conformers=nc, n_atoms=na, name=name, charge=charge, mult=mult,
                                  coords=coords, weights=w, atomic_charges=q, attrib=attrib)
        else:
            o = ConformerEnsemble(src, n_conformers=nc, n_atoms=na, name=name, charge=charge, mult=mult,
                                  attrib=attrib)
            o.coords = coords
            o.weights = w
            o.atomic_charges = q
    for i, b in enumerate(x["bonds"]):
        kw = dict(label=untok(b["label"]), btype=_enum(BondType, untok(b["btype"])),
                  stereo=_enum(BondStereo, untok(b["stereo"])), f_order=fval(b["fo"]),
                  attrib=unflat_attr(b["attrib"]))
        if bonds_by != "append" and (route // 2 + i) % 2 == 0:
            o.connect(b["a1"], b["a2"], **kw)
        else:
            o.append_bond(Bond(atoms[b["a1"]], atoms[b["a2"]], **kw))
    return o


# ----------------------------------------------------------------------------- seeded generators
def _members(cls):
    return sorted({int(m) for m in cls})


class Gen:
    """Seeded generator of abstract objects beyond the TLC pool: every element, every enum member, arbitrary
    doubles, nested attributes, more atoms.  v1 objects keep the fields outside the v1 schema at their defaults
    (LibCodec!InDom states the rule; a trace with an object outside it is rejected as a machinery error)."""
    SPECIAL = [0.0, -0.0, 1.5, 0.1, float("nan"), -1e30, 1e-30, 3.0e38, 1e-45, 1e39, float("inf"), -float("inf"),
               123456.789012345, -1234.56789012, 1.0000001]
    ATTR_FLOATS = [0.1, 1.5, -1234.56789012, float("nan"), 1e300, -2.5e-310, 3.141592653589793, 0.0, 1e39]

    def __init__(self, seed):
        from molli.chem import Element, AtomType, AtomStereo, AtomGeom, BondType, BondStereo
        self.r = random.Random(seed)
        self.E, self.AT, self.AS, self.AG = (_members(c) for c in (Element, AtomType, AtomStereo, AtomGeom))
        self.BT, self.BS = _members(BondType), _members(BondStereo)

    def flt(self, wide=True):
        r = self.r
        c = r.random()
        if c < 0.25:
            return r.choice(self.SPECIAL)
        if c < 0.6:
            return round(r.uniform(-30, 30), 4)
        if c < 0.9:
            return r.uniform(-30, 30)
        return r.uniform(-1, 1) * 10 ** r.randint(-12, 12)

    def text(self):
        r = self.r
        return r.choice(["", "C1", "a b", "x/y", "naïve ☃", "L" * 40, "0", "None", "\n", "é"])

    def attr_value(self, depth=0):
        r = self.r
        c = r.random()
        if depth < 3 and c < 0.18:
            return {self.attr_key(): self.attr_value(depth + 1) for _ in range(r.randint(0, 3))}
        if depth < 3 and c < 0.32:
            return [self.attr_value(depth + 1) for _ in range(r.randint(0, 3))]
        if depth < 3 and c < 0.38:
            return tuple(self.attr_value(depth + 1) for _ in range(r.randint(0, 2)))
        if c < 0.58:
            return r.choice(self.ATTR_FLOATS) if r.random() < 0.6 else r.uniform(-1e4, 1e4)
        if c < 0.72:
            return r.choice([0, 1, -1, 255, 256, -129, 2 ** 31, 2 ** 63, -2 ** 63, 2 ** 64 - 1, r.randint(-10 ** 6, 10 ** 6)])
        if c < 0.84:
            return self.text()
        if c < 0.88:
            return r.choice([b"", b"\x00\xff", b"abc"])
        if c < 0.93:
            return r.choice([True, False])
        if c < 0.97:
            return None
        return np.array([[r.uniform(-1, 1) for _ in range(2)] for _ in range(r.randint(0, 2))], dtype=r.choice(["<f8", "<f4", "<i4"]))

    def attr_key(self):
        r = self.r
        c = r.random()
        if c < 0.8:
            return r.choice(["a", "energy", "ORCA/SCF_Energy", "k k", "é", "", "x/y", "#0"]) + r.choice(["", "1", "2"])
        if c < 0.92:
            return r.randint(-3, 300)
        return r.choice([b"kb", b"\x00"])

    def attrib(self, p=0.5):
        if self.r.random() > p:
            return {}
        d = {}
        for _ in range(self.r.randint(1, 3)):
            k = self.attr_key()
            d[k] = self.attr_value(1)
        return d

    def obj(self, kind, ver):
        """abstract-free: returns a REAL object (the written abstraction is taken from it)."""
        from molli.chem import (Atom, Bond, Molecule, ConformerEnsemble, Element, AtomType, AtomStereo, AtomGeom,
                                BondType, BondStereo)
        r = self.r
        v2 = ver == 2
        na = r.choice([0, 1, 1, 2, 3, 3, 4, 5, 8, 13])
        atoms = []
        for _ in range(na):
            kw = dict(element=Element(r.choice(self.E)) if r.random() < 0.7 else r.choice(["C", "h", "Og", "Fe", 0, 6]),
                      isotope=r.choice([None, None, 13, 2, 0, 300]),
                      label=r.choice([None, None, self.text()]),
                      atype=AtomType(r.choice(self.AT)), stereo=AtomStereo(r.choice(self.AS)),
                      geom=AtomGeom(r.choice(self.AG)))
            if v2:
                kw.update(formal_charge=r.choice([0, 0, -1, 2, -3]), formal_spin=r.choice([0, 0, 1, 2]),
                          attrib=self.attrib(0.3))
            atoms.append(Atom(**kw))
        common = dict(name=r.choice(["m", "", "naïve ☃", "a b/c", "N" * 300, "unknown"]),
                      charge=r.choice([0, 0, -2, 1, -1, 7]), mult=r.choice([1, 1, 2, 3, 6]))
        if v2:
            common["attrib"] = self.attrib(0.6)
        if kind == "mol":
            coords = np.array([[self.flt() for _ in range(3)] for _ in range(na)], dtype=float).reshape((na, 3))
            q = np.array([self.flt() for _ in range(na)], dtype=float)
            o = Molecule(atoms, n_atoms=na, coords=coords, atomic_charges=q, **common)
        else:
            nc = r.choice([0, 1, 1, 2, 3, 5])
            route = r.random()
            coords = np.array([self.flt() for _ in range(nc * na * 3)], dtype=float).reshape((nc, na, 3))
            q = np.array([self.flt() for _ in range(nc * na)], dtype=float).reshape((nc, na))
            w = np.array([self.flt() for _ in range(nc)], dtype=float)
            if route < 0.7 or nc == 0 or na == 0:
                o = ConformerEnsemble(atoms if na else None, n_conformers=nc, n_atoms=na, coords=coords, weights=w, atomic_charges=q,
                                      **common)
            elif route < 0.85:
                # the list-of-molecules constructor (copies the first molecule's atoms and bonds)
                mols = [Molecule([a.evolve() for a in atoms], n_atoms=na, coords=coords[c], atomic_charges=q[c], **common)
                        for c in range(nc)]
                o = ConformerEnsemble(mols)
                o.weights = w
            else:
                o = ConformerEnsemble(Molecule(atoms, n_atoms=na, coords=coords[0], atomic_charges=q[0], **common),
                                      n_conformers=nc)
                o.coords = coords
                o.weights = w
                o.atomic_charges = q
        at = o.atoms
        if na:
            for _ in range(r.choice([0, 0, 1, 2, 3, na, 2 * na]) if na > 1 else r.choice([0, 1])):
                i, j = r.randrange(na), r.randrange(na)
                kw = dict(label=r.choice([None, None, self.text()]), btype=BondType(r.choice(self.BT)),
                          stereo=BondStereo(r.choice(self.BS)),
                          f_order=r.choice([1.0, 1.0, 1.5, 2.0, 0.1, 0.9541, 1.3333333333333333, 0.0]))
                if v2:
                    kw["attrib"] = self.attrib(0.25)
                if r.random() < 0.5:
                    o.connect(i, j, **kw)
                else:
                    o.append_bond(Bond(at[i], at[j], **kw))
                if r.random() < 0.3:
                    # a second bond between the same two atoms (same or reversed ends, other fields): the bond
                    # sequence is a sequence, not a set of pairs
                    kw2 = dict(kw, label=r.choice([kw["label"], "second"]), btype=BondType(r.choice(self.BT)),
                               f_order=r.choice([kw["f_order"], 0.5]))
                    i2, j2 = (i, j) if r.random() < 0.5 else (j, i)
                    o.append_bond(Bond(at[i2], at[j2], **kw2))
        return o


KEYS = ["k1", "k2", "mol 3", "naïve/☃", "K" * 255, "0", "a.b-c_d", "é" * 127]


# ----------------------------------------------------------------------------- the laboratory
class Watchdog(Exception):
    pass


def _alarm(signum, frame):
    raise Watchdog("library session did not finish in time (lock not released?)")


def exc_name(e):
    return type(e).__name__


def forget(lib):
    """no atexit flush callbacks of dead library objects on removed files"""
    try:
        atexit.unregister(lib._backend.flush)
    except Exception:
        pass


class LibLab:
    """Real MoleculeLibrary / ConformerLibrary sessions; every call becomes a trace event."""

    def __init__(self, tag="c01lab"):
        import molli as ml
        from molli.storage.ukvfile import UKVFile
        self.ml, self.UKVFile = ml, UKVFile
        WORK.mkdir(exist_ok=True)
        self.dir = Path(tempfile.mkdtemp(prefix=f"{tag}-", dir=WORK))
        self.n = 0
        self.calls = 0
        self.pending = []
        warnings.filterwarnings("ignore", category=RuntimeWarning)

    def cleanup(self):
        shutil.rmtree(self.dir, ignore_errors=True)

    def session(self, kind, ver, items, rnd, read_in_writer=True, mutate=None, legacy=(), before=None, fresh=False,
                pre=None, overwrite=False):
        """items: [(key, real object)] put through the library; legacy: [(key, raw record bytes)] placed in the
        legacy file beforehand, the way a previous molli left them (only with ver == 1).
        before = (ver0, items0, legacy0): the same is first done with ANOTHER file at the same path, which is then
        removed (event `remove`): the path is reused within this process.
        pre = (ver0, items0, legacy0): state of the file BEFORE the library objects of interest are constructed
        (ver0 = 0: no file); the objects that made it are dropped (event `forget`), then the writer is constructed
        on the existing file -- with overwrite=True if `overwrite` -- stores `items`, and fresh objects read.
        fresh: the final file is kept and read once more by a separate python process (finish_fresh()).
        Returns the events.  mutate(event) may corrupt an event (binding demonstration only)."""
        self.n += 1
        path = self.dir / f"l{self.n}.{'mlib' if kind == 'mol' else 'clib'}"
        ev = []
        old = signal.signal(signal.SIGALRM, _alarm)
        signal.alarm(120)
        keep = False
        try:
            if before is not None:
                self._phase(path, kind, before[0], before[1], before[2], rnd, ev, read_in_writer)
                path.unlink()
                ev.append({"ev": "remove"})
            if pre is not None:
                existing = []
                if pre[0]:
                    n0 = len(ev)
                    self._phase(path, kind, pre[0], pre[1], pre[2], rnd, ev, read_in_writer)
                    ev.append({"ev": "forget"})
                    existing = [untok(e["k"]) for e in ev[n0:] if e["ev"] == "lput" or (e["ev"] == "put" and e["out"] == "ok")]
                self._phase(path, kind, ver, items, (), rnd, ev, read_in_writer, create=False, overwrite=overwrite,
                            existing=() if overwrite else existing)
            else:
                self._phase(path, kind, ver, items, legacy, rnd, ev, read_in_writer)
            if fresh and path.is_file():
                keep = True
                self.pending.append((str(path), kind, ev))
        finally:
            signal.alarm(0)
            signal.signal(signal.SIGALRM, old)
            if not keep:
                try:
                    path.unlink()
                except OSError:
                    pass
        if mutate:
            for e in ev:
                mutate(e)
        return ev

    def finish_fresh(self):
        """One separate python process constructs a read-only library object on every kept file, lists the keys and
        reads every object; its observations are appended to the traces as events of the handle "f"."""
        if not self.pending:
            return
        import json, subprocess, sys
        job = self.dir / "fresh.json"
        job.write_text(json.dumps([[p, k] for p, k, _ in self.pending]))
        try:
            p = subprocess.run([sys.executable, "-m", "mbv.adapters.c01_lib", "--fresh", str(job)], capture_output=True,
                               text=True, timeout=300)
            res = json.loads(p.stdout) if p.returncode == 0 else None
        except Exception as e:                       # a hung or crashed child: every file gets a failed open
            p, res = None, None
        for i, (path, kind, ev) in enumerate(self.pending):
            if res is None:
                ev.append({"ev": "open", "h": "f", "kind": "Molecule" if kind == "mol" else "ConformerEnsemble", "ow": False,
                           "out": "ChildProcessError", "keys": [], "err": (p.stderr[-300:] if p else "timeout")})
            else:
                ev.extend(res[i])
                self.calls += len(res[i])
        self.pending = []

    def _phase(self, path, kind, ver, items, legacy, rnd, ev, read_in_writer, create=True, overwrite=False, existing=()):
        """create: a legacy file (ver 1) is made first; otherwise the file is taken as the earlier phase left it.
        overwrite: the writer is constructed with overwrite=True.  existing: keys already in the file (read too)."""
        cls = self.ml.MoleculeLibrary if kind == "mol" else self.ml.ConformerLibrary
        cname = "Molecule" if kind == "mol" else "ConformerEnsemble"
        w = r = None
        try:
            if ver == 1 and create:
                # a library of the previous format: UKV file whose type field is the legacy magic
                with self.UKVFile(path, "x", h1=b"ML10Library"):
                    pass
                ev.append({"ev": "legacy", "kind": cname})
                if legacy:
                    with self.UKVFile(path, "a") as u:
                        for k, raw in legacy:
                            u.put(k.encode(), raw)
                            ev.append({"ev": "lput", "k": tok(k), "x": legacy_decode(raw, kind)})
            try:
                w = cls(path, readonly=False, overwrite=True) if overwrite else cls(path, readonly=False)
                with w.writing(timeout=60):
                    ev.append({"ev": "open", "h": "w", "kind": cname, "ow": bool(overwrite), "out": "ok", "keys": sorted(tok(k) for k in w.keys())})
                    wk = []
                    for k, _ in legacy:
                        if read_in_writer and rnd.random() < 0.3:
                            self._get_edit_get("w", w, k, ev, rnd, wk)
                    for k, o in items:
                        x = abstract(o)
                        try:
                            w[k] = o
                            out = "ok"
                        except Watchdog:
                            raise
                        except Exception as e:
                            out = exc_name(e)
                        self.calls += 1
                        ev.append({"ev": "put", "k": tok(k), "x": x, "out": out})
                        if read_in_writer and out == "ok" and rnd.random() < 0.5:
                            self._get_edit_get("w", w, k, ev, rnd, wk)
                if wk:
                    # a later session of the SAME library object: the objects it handed out were edited meanwhile
                    with w.reading(timeout=60):
                        for k in wk:
                            ev.append(self._get("w", w, k))
            except Watchdog:
                raise
            except Exception as e:
                ev.append({"ev": "open", "h": "w", "kind": cname, "ow": bool(overwrite), "out": exc_name(e), "keys": [], "err": str(e)[:160]})
            try:
                r = cls(path, readonly=True)
                with r.reading(timeout=60):
                    ev.append({"ev": "open", "h": "r", "kind": cname, "ow": False, "out": "ok", "keys": sorted(tok(k) for k in r.keys())})
                    ks = list(existing) + [k for k, _ in legacy] + [k for k, _ in items]
                    rnd.shuffle(ks)
                    rk = []
                    for k in ks:
                        if k in r.keys():
                            self._get_edit_get("r", r, k, ev, rnd, rk)
                if rk:
                    with r.reading(timeout=60):
                        for k in rk:
                            ev.append(self._get("r", r, k))
            except Watchdog:
                raise
            except Exception as e:
                ev.append({"ev": "open", "h": "r", "kind": cname, "ow": False, "out": exc_name(e), "keys": [], "err": str(e)[:160]})
        finally:
            for lib in (w, r):
                if lib is not None:
                    forget(lib)

    def _get(self, h, lib, k):
        self.calls += 1
        self.hand = None
        try:
            o = lib[k]
        except Watchdog:
            raise
        except Exception as e:
            return {"ev": "get", "h": h, "k": tok(k), "out": exc_name(e), "err": str(e)[:160]}
        self.hand = o
        return {"ev": "get", "h": h, "k": tok(k), "out": "ok", "x": abstract(o)}

    def _get_edit_get(self, h, lib, k, ev, rnd, edited):
        """lib[k]; sometimes the caller then edits the returned object in place (event `scribble`) and reads k again,
        at once and / or in a later session of the same library object (keys collected in `edited`)."""
        e = self._get(h, lib, k)
        ev.append(e)
        if e["out"] != "ok" or rnd.random() >= 0.4:
            return
        scribble(self.hand)
        ev.append({"ev": "scribble", "h": h, "k": tok(k)})
        edited.append(k)
        if rnd.random() < 0.6:
            ev.append(self._get(h, lib, k))


def scribble(o):
    """What a caller may do with an object it got from a library: it is the caller's copy."""
    from molli.chem import Element, AtomType, BondType
    edits = [lambda: setattr(o, "name", "scribbled"), lambda: setattr(o, "charge", (o.charge or 0) + 7),
             lambda: setattr(o, "mult", 9), lambda: o.attrib.__setitem__("_scribbled", [1, 2.5]),
             lambda: o.coords.__setitem__(Ellipsis, 777.25), lambda: o.atomic_charges.__setitem__(Ellipsis, -7.5)]
    if hasattr(o, "weights"):
        edits.append(lambda: o.weights.__setitem__(Ellipsis, 0.125))
    for a in o.atoms:
        edits += [lambda a=a: setattr(a, "label", "scribbled"), lambda a=a: setattr(a, "element", Element(9)),
                  lambda a=a: setattr(a, "atype", AtomType.Dummy), lambda a=a: setattr(a, "formal_charge", 3),
                  lambda a=a: a.attrib.__setitem__("_scribbled", True)]
    for b in o.bonds:
        edits += [lambda b=b: setattr(b, "btype", BondType.Triple), lambda b=b: setattr(b, "f_order", 2.75),
                  lambda b=b: setattr(b, "label", "scribbled")]
    for f in edits:
        try:
            f()
        except Exception:
            pass


# ----------------------------------------------------------------------------- diagnostics (messages only)
SINGLE = ("coords", "charges", "weights")


def _show(f, c):
    try:
        if c == "d":
            return repr(fval(f))
        return "f32:" + repr(float(np.frombuffer(bytes.fromhex(f["s"]), dtype=">f4")[0]))
    except Exception:
        return str(f.get(c))


def explain(w, r, path="", comp=None):
    """Human-readable differences between two abstract objects, for the VIOLATION message and for grouping
    the reports only; the verdict is TLC's.  Floats are shown by the component the specification looks at
    (s under coords/charges/weights, d elsewhere)."""
    out = []
    if isinstance(w, dict) and isinstance(r, dict):
        if set(w) == {"d", "s", "e"} == set(r):
            c = comp or "d"
            return [] if w[c] == r[c] else [f"{path}: {_show(w, c)} -> {_show(r, c)}"]
        if set(w) == set(r) == {"p", "k", "d", "s", "e"}:
            a, b = (w["p"], w["k"], w["d"]), (r["p"], r["k"], r["d"])
            if a == b:
                return []
            if w["k"] == r["k"] == "float" and w["p"] == r["p"]:
                return [f"{path} {w['p']}: {_show(w, 'd')} -> {_show(r, 'd')}"]
            return [f"{path}: {a} -> {b}"]
        for k in sorted(set(w) | set(r)):
            if k not in w or k not in r:
                out.append(f"{path}/{k}: present on one side only")
            else:
                out += explain(w[k], r[k], f"{path}/{k}", "s" if (comp == "s" or (path == "" and k in SINGLE)) else "d")
    elif isinstance(w, list) and isinstance(r, list):
        if len(w) != len(r):
            out.append(f"{path}: length {len(w)} -> {len(r)}")
        else:
            for i, (a, b) in enumerate(zip(w, r)):
                out += explain(a, b, f"{path}[{i}]", comp)
    elif w != r:
        out.append(f"{path}: {w!r} -> {r!r}")
    return out


# ----------------------------------------------------------------------------- independent legacy (v1) codec
# Written from the DOCUMENTED v1 schema tuples (ATOM/BOND/MOLECULE/ENSEMBLE_SCHEMA_V1 in molli/chem/io.py), not from
# the serializer bodies: msgpack array of positional fields, arrays as big-endian float32 buffers.  Used to place
# records in a legacy file the way a previous molli would have, and to say what a genuine legacy record contains,
# without going through the code under test.
def legacy_decode(raw: bytes, kind: str) -> dict:
    import msgpack
    t = msgpack.unpackb(raw, use_list=True, raw=False, strict_map_key=False)
    empty = flat_attr({})
    if kind == "mol":
        name, na, atoms, bonds, charge, mult, cb, qb = t
        nc = None
    else:
        name, nc, na, atoms, bonds, charge, mult, cb, wb, qb = t
    ats = [{**{f: tok(v) for f, v in zip(ATOM_FIELDS[:6], a)}, "fc": "i:0", "fs": "i:0", "attrib": empty} for a in atoms]
    bds = [{"a1": int(b[0]), "a2": int(b[1]), "label": tok(b[2]), "btype": tok(b[3]), "stereo": tok(b[4]),
            "fo": fdig(b[5]), "attrib": empty} for b in bonds]
    c = np.frombuffer(cb, dtype=">f4").astype(float)
    q = np.frombuffer(qb, dtype=">f4").astype(float)
    res = {"kind": "Molecule" if kind == "mol" else "ConformerEnsemble", "name": tok(name), "charge": tok(charge),
           "mult": tok(mult), "attrib": empty, "atoms": ats, "bonds": bds}
    if kind == "mol":
        res.update(nconf=1, coords=[_farr(c.reshape((na, 3)), 2)], charges=[_farr(q.reshape((na,)), 1)], weights=[],
                   cshape=[na, 3], qshape=[na], wshape=[])
    else:
        w = np.frombuffer(wb, dtype=">f4").astype(float)
        res.update(nconf=nc, coords=_farr(c.reshape((nc, na, 3)), 3), charges=_farr(q.reshape((nc, na)), 2),
                   weights=_farr(w.reshape((nc,)), 1), cshape=[nc, na, 3], qshape=[nc, na], wshape=[nc])
    return res


def legacy_encode(x: dict, single_float_orders=True) -> bytes:
    """abstract object of the v1 domain -> bytes of a legacy record."""
    import msgpack
    na = len(x["atoms"])
    atoms = [tuple(untok(a[f]) for f in ATOM_FIELDS[:6]) for a in x["atoms"]]
    bonds = [(b["a1"], b["a2"], untok(b["label"]), untok(b["btype"]), untok(b["stereo"]), fval(b["fo"])) for b in x["bonds"]]
    flat = lambda m: np.array([fval(f) for f in _leaves(m)], dtype=float)
    with np.errstate(all="ignore"):
        cb = flat(x["coords"]).astype(">f4").tobytes()
        qb = flat(x["charges"]).astype(">f4").tobytes()
        wb = flat(x["weights"]).astype(">f4").tobytes()
    if x["kind"] == "Molecule":
        t = (untok(x["name"]), na, atoms, bonds, untok(x["charge"]), untok(x["mult"]), cb, qb)
    else:
        t = (untok(x["name"]), x["nconf"], na, atoms, bonds, untok(x["charge"]), untok(x["mult"]), cb, wb, qb)
    return msgpack.Packer(use_single_float=single_float_orders, use_bin_type=True).pack(t)


def _leaves(m):
    if isinstance(m, dict):
        yield m
    else:
        for c in m:
            yield from _leaves(c)


# ----------------------------------------------------------------------------- fresh-process reader
def _fresh_main(job):
    """Child process: read-only library object on each file, keys, every object -> events of handle "f"."""
    import json, sys
    import molli as ml
    warnings.filterwarnings("ignore", category=RuntimeWarning)
    out = []
    for path, kind in json.loads(Path(job).read_text()):
        cls = ml.MoleculeLibrary if kind == "mol" else ml.ConformerLibrary
        cname = "Molecule" if kind == "mol" else "ConformerEnsemble"
        ev = []
        try:
            lib = cls(path, readonly=True)
            with lib.reading(timeout=60):
                keys = sorted(lib.keys())
                ev.append({"ev": "open", "h": "f", "kind": cname, "ow": False, "out": "ok", "keys": sorted(tok(k) for k in keys)})
                for k in keys:
                    try:
                        ev.append({"ev": "get", "h": "f", "k": tok(k), "out": "ok", "x": abstract(lib[k])})
                    except Exception as e:
                        ev.append({"ev": "get", "h": "f", "k": tok(k), "out": exc_name(e), "err": str(e)[:160]})
        except Exception as e:
            ev.append({"ev": "open", "h": "f", "kind": cname, "ow": False, "out": exc_name(e), "keys": [], "err": str(e)[:160]})
        out.append(ev)
    sys.stdout.write(json.dumps(out))


if __name__ == "__main__":
    import sys
    if len(sys.argv) == 3 and sys.argv[1] == "--fresh":
        signal.signal(signal.SIGALRM, _alarm)
        signal.alarm(240)
        _fresh_main(sys.argv[2])
