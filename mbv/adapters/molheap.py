"""Adapter for MolHeap (C06): objects of every structure class, copy routes, mutations that bump a
counter stored in the real cell, deep snapshots of all live objects."""
from __future__ import annotations
import copy, pickle
import numpy as np

CELLS = {
    "Promolecule": ("molattr", "molnest", "atomattr", "atomattr_e", "atomnest", "atomlabel", "natoms"),
    "Connectivity": ("molattr", "molnest", "atomattr", "atomattr_e", "atomnest", "atomlabel", "natoms", "bondattr", "bondattr_e", "bondtype"),
    "CartesianGeometry": ("molattr", "molnest", "atomattr", "atomattr_e", "atomnest", "atomlabel", "natoms", "coord"),
    "Structure": ("molattr", "molnest", "atomattr", "atomattr_e", "atomnest", "atomlabel", "natoms", "bondattr", "bondattr_e", "bondtype", "coord"),
    "Molecule": ("molattr", "molnest", "atomattr", "atomattr_e", "atomnest", "atomlabel", "natoms", "bondattr", "bondattr_e", "bondtype", "coord", "chg"),
    "ConformerEnsemble": ("molattr", "molnest", "atomattr", "atomattr_e", "atomnest", "atomlabel", "bondattr", "bondattr_e", "bondtype", "coord", "chg", "weight"),
    "Conformer": ("molattr", "molnest", "atomattr", "atomattr_e", "atomnest", "atomlabel", "bondattr", "bondattr_e", "bondtype", "coord", "chg"),
}
BT = None


def _bt():
    import molli as ml
    return [ml.BondType.Single, ml.BondType.Double, ml.BondType.Triple, ml.BondType.Aromatic, ml.BondType.Amide]


def make(kind):
    import molli as ml
    atoms = [ml.Atom("C", label="C1"), ml.Atom("O", label="O2"), ml.Atom("H", label="H3")]
    for a in (atoms[0], atoms[2]):           # atoms[1] keeps an EMPTY attribute dict (cell atomattr_e)
        a.attrib["k"] = 0
        a.attrib["nest"] = {"x": 0}
    coords = np.array([[0.0, 0.0, 0.0], [1.2, 0.0, 0.0], [-0.5, 0.9, 0.0]])
    if kind == "Promolecule":
        o = ml.Promolecule(atoms, name="src", charge=-1, mult=2)
    elif kind == "Connectivity":
        o = ml.Connectivity(atoms, name="src", charge=-1, mult=2)
    elif kind == "CartesianGeometry":
        o = ml.CartesianGeometry(atoms, name="src", charge=-1, mult=2, coords=coords)
    elif kind == "Structure":
        o = ml.Structure(atoms, name="src", charge=-1, mult=2, coords=coords)
    elif kind in ("Molecule", "ConformerEnsemble"):
        o = ml.Molecule(atoms, name="src", charge=-1, mult=2, coords=coords, atomic_charges=[0.5, -0.25, 0.125])
    else:
        raise AssertionError(kind)
    if hasattr(o, "connect"):
        for n_, (i, j) in enumerate(((0, 1), (0, 2))):
            b = o.connect(i, j)
            if n_ == 0:                          # the second bond keeps an EMPTY attribute dict (cell bondattr_e)
                b.attrib["k"] = 0
                b.attrib["nest"] = {"x": 0}
    o.attrib["k"] = 0
    o.attrib["nest"] = {"x": 0}
    if kind == "ConformerEnsemble":
        e = ml.ConformerEnsemble(o, n_conformers=2, name="src", charge=-1, mult=2)
        e._coords[0] = coords
        e._coords[1] = coords + 1.0
        e._atomic_charges[0] = [0.5, -0.25, 0.125]
        e._atomic_charges[1] = [0.25, 0.25, 0.25]
        e.weights[:] = [0.75, 0.25]
        e.attrib["k"] = 0
        e.attrib["nest"] = {"x": 0}
        for x in (e.atoms[0], e.atoms[2], e.bonds[0]):
            x.attrib["k"] = 0
            x.attrib["nest"] = {"x": 0}
        return e
    return o


def mutate(o, cell):
    """Bump the counter stored in the real cell (first atom / first bond / element [0,0])."""
    import molli as ml
    if cell == "molattr":
        o.attrib["k"] = o.attrib.get("k", 0) + 1
    elif cell == "molnest":
        o.attrib.setdefault("nest", {"x": 0})["x"] += 1      # (a concatenation product starts without object-level attributes)
    elif cell == "atomattr":
        o.atoms[0].attrib["k"] = o.atoms[0].attrib.get("k", 0) + 1
    elif cell == "atomattr_e":
        o.atoms[1].attrib["k"] = o.atoms[1].attrib.get("k", 0) + 1
    elif cell == "bondattr_e":
        o.bonds[1].attrib["k"] = o.bonds[1].attrib.get("k", 0) + 1
    elif cell == "atomnest":
        o.atoms[0].attrib.setdefault("nest", {"x": 0})["x"] += 1
    elif cell == "atomlabel":
        o.atoms[0].label = (o.atoms[0].label or "") + "+"
    elif cell == "bondattr":
        o.bonds[0].attrib["k"] = o.bonds[0].attrib.get("k", 0) + 1
    elif cell == "bondtype":
        bts = _bt()
        o.bonds[0].btype = bts[(bts.index(o.bonds[0].btype) + 1) % len(bts)]
    elif cell == "coord":
        c = o.coords
        if isinstance(o, ml.ConformerEnsemble):
            c[0, 0, 0] += 1.0
        else:
            c[0, 0] += 1.0
    elif cell == "chg":
        q = o.atomic_charges
        if isinstance(o, ml.ConformerEnsemble):
            q[0, 0] += 1.0
        else:
            q[0] += 1.0
    elif cell == "weight":
        o.weights[0] += 1.0
    elif cell == "natoms":
        a = ml.Atom("F", label="new")
        if isinstance(o, ml.Molecule):
            o.add_atom(a, [9.0, 9.0, 9.0], 0.0)
        elif isinstance(o, ml.CartesianGeometry):
            o.add_atom(a, [9.0, 9.0, 9.0])
        else:
            o.append_atom(a)
    else:
        raise AssertionError(cell)


def raw_numeric(o):
    import molli as ml
    r = {}
    if hasattr(o, 'coords'):
        c = np.asarray(o.coords); r['coord'] = float(c[0, 0, 0] if c.ndim == 3 else c[0, 0])
    if hasattr(o, 'atomic_charges'):
        q = np.asarray(o.atomic_charges); r['chg'] = float(q[0, 0] if q.ndim == 2 else q[0])
    if hasattr(o, 'weights'):
        r['weight'] = float(o.weights[0])
    r['natoms'] = float(o.n_atoms)
    return r


def counters(o, kind, n0=3, base=None):
    """Read the counters back from the real cells."""
    import molli as ml
    out = {}
    bts = _bt()
    for cell in CELLS[kind]:
        try:
            if cell == "molattr":
                v = o.attrib.get("k", 0)
            elif cell == "molnest":
                v = o.attrib.get("nest", {}).get("x", 0)
            elif cell == "atomattr":
                v = o.atoms[0].attrib.get("k", "missing")
            elif cell == "atomattr_e":
                v = o.atoms[1].attrib.get("k", 0)
            elif cell == "bondattr_e":
                v = o.bonds[1].attrib.get("k", 0)
            elif cell == "atomnest":
                v = o.atoms[0].attrib.get("nest", {}).get("x", "missing")
            elif cell == "atomlabel":
                v = (o.atoms[0].label or "").count("+")
            elif cell == "bondattr":
                v = o.bonds[0].attrib.get("k", "missing")
            elif cell == "bondtype":
                v = bts.index(o.bonds[0].btype)
            elif cell == "coord":
                v = int(round(raw_numeric(o)["coord"] - (base or {}).get("coord", 0.0)))
            elif cell == "chg":
                v = int(round(raw_numeric(o)["chg"] - (base or {}).get("chg", 0.5)))
            elif cell == "weight":
                v = int(round(raw_numeric(o)["weight"] - (base or {}).get("weight", 0.75)))
            elif cell == "natoms":
                v = o.n_atoms - n0
        except Exception as e:
            v = "!" + type(e).__name__
        out[cell] = v
    return out


def snapshot(o):
    """Deep structural snapshot through public accessors (for copy equality and for 'nothing else changed')."""
    import molli as ml
    s = {"cls": type(o).__name__}
    for f in ("name", "charge", "mult"):
        try:
            s[f] = getattr(o, f)
        except Exception as e:
            s[f] = "!" + type(e).__name__
    s["attrib"] = repr(sorted(o.attrib.items(), key=str)) if hasattr(o, "attrib") else None
    ats = []
    for i, a in enumerate(o.atoms):
        try:
            par = a.parent is o or (isinstance(o, ml.chem.ensemble.Conformer))
            idx = a.idx == i
        except Exception as e:
            par, idx = "!" + type(e).__name__, None
        ats.append((a.element.name, a.isotope, a.label, int(a.atype), int(a.stereo), int(a.geom), a.formal_charge,
                    a.formal_spin, repr(sorted(a.attrib.items(), key=str)), par, idx))
    s["atoms"] = ats
    if hasattr(o, "bonds"):
        bs = []
        for b in o.bonds:
            try:
                par = b.parent is o or isinstance(o, ml.chem.ensemble.Conformer)
            except Exception as e:
                par = "!" + type(e).__name__
            i1 = next((i for i, a in enumerate(o.atoms) if a is b.a1), -1)
            i2 = next((i for i, a in enumerate(o.atoms) if a is b.a2), -1)
            bs.append((i1, i2, b.label, int(b.btype), int(b.stereo), b.f_order, repr(sorted(b.attrib.items(), key=str)), par))
        s["bonds"] = bs
    if hasattr(o, "coords"):
        s["coords"] = np.round(np.asarray(o.coords, dtype=float), 6).tolist()
    if hasattr(o, "atomic_charges"):
        s["charges"] = np.round(np.asarray(o.atomic_charges, dtype=float), 6).tolist()
    if hasattr(o, "weights"):
        s["weights"] = np.round(np.asarray(o.weights, dtype=float), 6).tolist()
    return s


def _sub(snap, n, nb):
    s = dict(snap)
    s["atoms"] = s["atoms"][:n]
    if "bonds" in s:
        s["bonds"] = s["bonds"][:nb]
    for f in ("coords", "charges"):
        if f in s:
            s[f] = s[f][:n]
    return s


def join_ap(o):
    """Index of the atom used as attachment point when `o` is the first operand of a join: the last end atom."""
    return max(i for i in range(2, o.n_atoms) if o.n_bonds_with_atom(i) == 1)


def compare_copy(src, dst, route):
    """Every observable field the two kinds have in common must be equal (parents/indices re-targeted)."""
    a, b = snapshot(src), snapshot(dst)
    skip = {"cls"}
    if route in ("concat", "or", "or_e1", "or_e2", "concat_e1", "concat_e2"):
        n, nb = len(a["atoms"]), len(a.get("bonds", []))
        b = _sub(b, n, nb)
        skip |= {"name", "charge", "mult", "attrib"}
    if route == "join":
        # the source without its attachment point (index 2) is the first part of the product, moved rigidly
        ap = join_ap(src)
        a = dict(a)
        a["atoms"] = [t for k, t in enumerate(a["atoms"]) if k != ap]
        a["bonds"] = [(i1 - (i1 > ap), i2 - (i2 > ap)) + t[2:] for (i1, i2, *rest) in a["bonds"]
                      for t in [(i1, i2, *rest)] if ap not in (i1, i2)]
        for f in ("coords", "charges"):
            if f in a:
                a[f] = [x for k, x in enumerate(a[f]) if k != ap]
        n, nb = len(a["atoms"]), len(a["bonds"])
        b = _sub(b, n, nb)
        for s_ in (a, b):
            c0 = np.array(s_["coords"][0])
            s_["coords"] = np.round(np.array(s_["coords"]) - c0, 5).tolist()
        skip |= {"name", "charge", "mult", "attrib"}
    if route in ("ensemble_from", "extend_list_empty", "append_empty"):
        for f in ("coords", "charges"):
            if f in b:
                b[f] = b[f][0]
        skip |= {"weights"}
    diffs = []
    for k in a:
        if k in skip or k not in b:
            continue
        if a[k] != b[k]:
            diffs.append(f"{k}: source {str(a[k])[:160]} != copy {str(b[k])[:160]}")
    for k in ("atoms", "bonds"):
        for t in b.get(k, []):
            if t[-1] is not True and k == "bonds" or (k == "atoms" and (t[-2] is not True or t[-1] is not True)):
                diffs.append(f"{k}: parent/index of the copy's element is wrong: {t[-2:]}")
                break
    return diffs


class MolHeapAdapter:
    def __init__(self):
        self.objs, self.kinds, self.view_of, self.n0, self.base = [], [], [], [], []

    def cleanup(self):
        pass

    def _related(self, i, j):
        vi, vj = self.view_of[i], self.view_of[j]
        return vi == j or vj == i or (vi is not None and vi == vj)

    def apply(self, act):
        import molli as ml
        a = act["act"]
        if a == "make":
            self.objs.append(make(act["kind"])); self.kinds.append(act["kind"]); self.view_of.append(None); self.n0.append(3); self.base.append(None)
            return {"equal": True}
        if a == "view":
            i = act["i"] - 1
            self.objs.append(self.objs[i][0]); self.kinds.append("Conformer"); self.view_of.append(i); self.n0.append(3); self.base.append(self.base[i])
            return {"equal": True}
        if a == "copy":
            i, r, to = act["i"] - 1, act["route"], act["to"]
            src = self.objs[i]
            before = [snapshot(o) if o is not None else None for o in self.objs]   # deriving must not alter ANY existing object
            try:
                if r == "construct":
                    dst = getattr(ml, to)(src)
                elif r == "pickle":
                    dst = pickle.loads(pickle.dumps(src))
                elif r == "deepcopy":
                    dst = copy.deepcopy(src)
                elif r == "upcast":
                    dst = getattr(ml, to)(src)
                elif r in ("construct_arrays", "upcast_arrays"):
                    # the explicit-argument form of the constructors: the source's own arrays are handed over
                    kw = {}
                    if hasattr(src, "coords") and to != "Promolecule" and to != "Connectivity":
                        kw["coords"] = src.coords
                    if hasattr(src, "atomic_charges") and to in ("Molecule", "ConformerEnsemble"):
                        kw["atomic_charges"] = src.atomic_charges
                    if hasattr(src, "weights") and to == "ConformerEnsemble":
                        kw["weights"] = src.weights
                    dst = getattr(ml, to)(src, **kw)
                elif r == "concat":
                    dst = getattr(ml, to).concatenate(src, make(to))
                elif r == "or":
                    dst = src | make(self.kinds[i])           # operator form of concatenate: always a Structure
                elif r in ("or_e1", "or_e2", "concat_e1", "concat_e2"):
                    # the other operand has no atoms: the product must still be a new, independent object
                    empty = getattr(ml, self.kinds[i])()
                    ops = (src, empty) if r.endswith("1") else (empty, src)
                    dst = (ops[0] | ops[1]) if r.startswith("or") else getattr(ml, to).concatenate(*ops)
                elif r == "join":
                    # an end atom of either fragment (one bond, not one of the first two atoms) serves as attachment point
                    dst = getattr(ml, to).join(src, make(to), join_ap(src), 2)
                elif r in ("extend_empty", "extend_list_empty", "append_empty"):
                    dst = ml.ConformerEnsemble()
                    if r == "extend_empty":
                        dst.extend(src)
                    elif r == "extend_list_empty":
                        dst.extend([src])
                    else:
                        dst.append(src)
                elif r == "ensemble_from":
                    dst = ml.ConformerEnsemble([src])     # the constructor form that copies geometry and charges
                else:
                    raise AssertionError(r)
            except AssertionError:
                raise
            except Exception as e:
                self.objs.append(None); self.kinds.append(to); self.view_of.append(None); self.n0.append(3); self.base.append(None)
                return {"equal": f"raises {type(e).__name__}: {e}"[:200]}
            self.objs.append(dst); self.kinds.append(to)
            self.view_of.append(None)
            # the atom-count counter is relative: a concatenation product starts with its second operand's atoms
            self.n0.append(dst.n_atoms - (src.n_atoms - self.n0[i]))
            inherited = counters(src, self.kinds[i], self.n0[i], self.base[i])
            rn = raw_numeric(dst)
            self.base.append({c: rn[c] - (inherited.get(c, 0) if isinstance(inherited.get(c, 0), int) and c in CELLS[to] and c in CELLS[self.kinds[i]] else 0)
                              for c in ("coord", "chg", "weight") if c in rn})
            d = compare_copy(src, dst, r)
            for j, o in enumerate(self.objs[:-1]):
                if o is not None and before[j] is not None:
                    after = snapshot(o)
                    if after != before[j]:
                        ch = [k for k in after if after[k] != before[j].get(k)]
                        d.append(f"deriving the new object changed existing object {j + 1} (fields {ch}): "
                                 f"{str({k: before[j][k] for k in ch})[:150]} -> {str({k: after[k] for k in ch})[:150]}")
            return {"equal": True if not d else "; ".join(d)[:500]}
        if a == "mutate":
            i = act["i"] - 1
            before = [snapshot(o) if o is not None else None for o in self.objs]
            mutate(self.objs[i], act["cell"])
            changed = []
            for j, o in enumerate(self.objs):
                if j == i or o is None or self._related(i, j):
                    continue
                if snapshot(o) != before[j]:
                    changed.append(j + 1)
            return {"others": True if not changed else f"objects {changed} changed"}
        raise AssertionError(a)

    def observe(self):
        return [counters(o, k, n0, b) if o is not None else None
                for o, k, n0, b in zip(self.objs, self.kinds, self.n0, self.base)]
