"""C10 adapter: the real calls (Molecule.loads_all_mol2 / loads_all_xyz on a text, under a wall-clock limit)
and the abstraction of what came back, in the shape ReadersTrace.tla reads.

Outcome of one call: {"out": "ret" | "exc" | "timeout", "mols": [...], "exc": class name}
  mols (brief):  na = n_atoms, nc = rows of the coordinate array, nb = n_bonds, dig = digest of the whole content
  mols (full, only for the undamaged text): + atoms [{lab, el, x, y, z (micro-Angstrom), q (1e-4 e)}], bonds [{a1, a2}]
Only public accessors of the returned objects are used."""
from __future__ import annotations
import hashlib, json, math, os, signal, subprocess, sys, time, warnings
import multiprocessing as mp

LIMIT_S = 5.0


class _Timeout(BaseException):
    pass


_fired = [False]


def _on_alarm(signum, frame):
    _fired[0] = True
    raise _Timeout()


def _i(x, scale):
    x = float(x)
    if math.isnan(x) or math.isinf(x):
        return "nan"
    return int(round(x * scale))


def _attrib(d):
    try:
        return sorted((str(k), repr(v)) for k, v in dict(d).items())
    except Exception:
        return repr(d)


def observe(m, full=False):
    import numpy as np
    from molli.chem import AtomType
    atoms = list(m.atoms)
    coords = np.asarray(m.coords)
    charges = getattr(m, "atomic_charges", None)
    charges = None if charges is None else np.asarray(charges).reshape(-1).tolist()
    pos = {id(a): i for i, a in enumerate(atoms)}
    rows = []
    for i, a in enumerate(atoms):
        xyz = [_i(v, 1e6) for v in coords[i].tolist()] if i < coords.shape[0] else [None] * 3
        q = _i(charges[i], 1e4) if charges is not None and i < len(charges) and charges[i] is not None else None
        el = "*" if (a.atype == AtomType.Dummy and a.element.name == "Unknown") else a.element.name
        rows.append({"lab": "" if a.label is None else str(a.label), "el": el, "x": xyz[0], "y": xyz[1], "z": xyz[2],
                     "q": q, "more": [str(a.atype), str(getattr(a, "geom", None)), getattr(a, "formal_charge", None),
                                      str(getattr(a, "isotope", None)), _attrib(getattr(a, "attrib", {}))]})
    brows = []
    for b in m.bonds:
        brows.append({"a1": pos.get(id(b.a1), -1) + 1, "a2": pos.get(id(b.a2), -1) + 1,
                      "more": [str(b.btype), _attrib(getattr(b, "attrib", {}))]})
    content = [getattr(m, "name", None), rows, brows, None if charges is None else len(charges), list(coords.shape)]
    dig = hashlib.sha1(json.dumps(content, sort_keys=True, default=str).encode()).hexdigest()[:16]
    o = {"na": int(m.n_atoms), "nc": int(coords.shape[0]), "nb": int(m.n_bonds), "dig": dig}
    if full:
        o["name"] = str(getattr(m, "name", ""))[:32]
        o["atoms"] = [{"lab": r["lab"], "el": r["el"], "x": r["x"], "y": r["y"], "z": r["z"],
                       "q": 0 if r["q"] is None else r["q"]} for r in rows]
        o["bonds"] = [{"a1": r["a1"], "a2": r["a2"]} for r in brows]
    return o


def call(fmt, text, full=False, limit=LIMIT_S):
    """One real call under the wall-clock limit (in this process)."""
    import molli as ml
    fn = ml.Molecule.loads_all_mol2 if fmt == "mol2" else ml.Molecule.loads_all_xyz
    _fired[0] = False
    old = signal.signal(signal.SIGALRM, _on_alarm)
    signal.setitimer(signal.ITIMER_REAL, limit, 0.5)
    try:
        with warnings.catch_warnings():
            warnings.simplefilter("ignore")
            try:
                res = fn(text)
                signal.setitimer(signal.ITIMER_REAL, 0)
                if _fired[0]:
                    return {"out": "timeout", "mols": []}
                if not isinstance(res, (list, tuple)):
                    res = [res]
                return {"out": "ret", "mols": [observe(m, full) for m in res]}
            except _Timeout:
                return {"out": "timeout", "mols": []}
            except BaseException as e:                          # noqa: any exception is a rejection
                if _fired[0]:
                    return {"out": "timeout", "mols": []}
                if isinstance(e, (KeyboardInterrupt, SystemExit, MemoryError)):
                    raise
                return {"out": "exc", "mols": [], "exc": type(e).__name__}
    finally:
        signal.setitimer(signal.ITIMER_REAL, 0)
        signal.signal(signal.SIGALRM, old)


def _clear_caches():
    # Bond.set_mol2_type is wrapped in functools.cache and keeps every bond ever parsed alive
    try:
        from molli.chem import Bond
        Bond.set_mol2_type.cache_clear()
    except Exception:
        pass


MAX_TIMEOUTS_PER_CHUNK = 4
MAX_TIMEOUTS = 16


def _work(chunk):
    out, nto = [], 0
    for cid, fmt, text, full in chunk:
        if nto >= MAX_TIMEOUTS_PER_CHUNK:                        # a reader that spins on a whole class of inputs: enough seen
            out.append((cid, {"out": "skipped", "mols": []}))
            continue
        o = call(fmt, text, full)
        nto += o["out"] == "timeout"
        out.append((cid, o))
    _clear_caches()
    return out


def _single(fmt, text, full, limit):
    """last resort for a call that did not come back: its own interpreter under a hard timeout"""
    code = ("import sys, json; from mbv.adapters import readers as R; "
            "d = json.load(sys.stdin); print('RESULT' + json.dumps(R.call(d['fmt'], d['text'], d['full'], d['limit'])))")
    try:
        p = subprocess.run([sys.executable, "-c", code], input=json.dumps({"fmt": fmt, "text": text, "full": full,
                                                                            "limit": limit}),
                           capture_output=True, text=True, timeout=limit * 3 + 20)
        for line in p.stdout.splitlines():
            if line.startswith("RESULT"):
                return json.loads(line[6:])
    except subprocess.TimeoutExpired:
        pass
    return {"out": "timeout", "mols": []}


def run_cases(cases, workers=4, chunk=200, limit=LIMIT_S, chunks=None):
    """cases: [(id, fmt, text, full)] -> {id: outcome}.  Calls run in worker processes under the in-process limit; if
    nothing comes back for a long time the pool is killed and a few of the open cases are redone one by one in fresh
    interpreters, so a reader that spins is a verdict ("timeout"), never a hung check.  After MAX_TIMEOUTS timeouts the
    remaining cases are not run (outcome "skipped"): the run has failed anyway and must still end."""
    import molli  # noqa: load before forking
    res = {}
    if not cases:
        return res
    if chunks is None:
        chunks = [cases[i:i + chunk] for i in range(0, len(cases), chunk)]
    ctx = mp.get_context("fork")
    pool = ctx.Pool(workers, maxtasksperchild=20)
    hung = False
    try:
        it = pool.imap_unordered(_work, chunks)
        while True:
            try:
                part = it.next(timeout=240 + 8 * limit)
            except StopIteration:
                break
            except mp.TimeoutError:
                hung = True
                break
            for cid, o in part:
                res[cid] = o
            if sum(1 for o in res.values() if o["out"] == "timeout") >= MAX_TIMEOUTS:
                break
    finally:
        pool.terminate()
        pool.join()
    todo = [c for ch in chunks for c in ch if c[0] not in res]
    for n, (cid, fmt, text, full) in enumerate(todo):
        res[cid] = _single(fmt, text, full, limit) if (hung and n < 6) else {"out": "skipped", "mols": []}
    return res
