"""C10 adapter: the real calls (Molecule.loads_all_mol2 / loads_all_xyz on a text, under a wall-clock limit)
and the abstraction of what came back, in the shape ReadersTrace.tla reads.

Outcome of one call: {"out": "ret" | "exc" | "timeout", "mols": [...], "exc": class name}
  mols (brief):  na = n_atoms, nc = rows of the coordinate array, nb = n_bonds, dig = digest of the whole content
  mols (full, only for the undamaged text): + atoms [{lab, el, x, y, z (micro-Angstrom), q (1e-4 e)}], bonds [{a1, a2}]
Only public accessors of the returned objects are used."""
from __future__ import annotations
import hashlib, json, math, os, signal, subprocess, sys, time, warnings
import multiprocessing as mp

LIMIT_S = 5.0


class _Timeout(BaseException):
    pass


_fired = [False]


def _on_alarm(signum, frame):
    _fired[0] = True
    raise _Timeout()


def _i(x, scale):
    x = float(x)
    if math.isnan(x) or math.isinf(x):
        return "nan"
    return int(round(x * scale))


def _attrib(d):
    try:
        return sorted((str(k), repr(v)) for k, v in dict(d).items())
    except Exception:
        return repr(d)


def observe(m, full=False):
    import numpy as np
    from molli.chem import AtomType
    atoms = list(m.atoms)
    coords = np.asarray(m.coords)
    charges = getattr(m, "atomic_charges", None)
    charges = None if charges is None else np.asarray(charges).reshape(-1).tolist()
    pos = {id(a): i for i, a in enumerate(atoms)}
    rows = []
    for i, a in enumerate(atoms):
        xyz = [_i(v, 1e6) for v in coords[i].tolist()] if i < coords.shape[0] else [None] * 3
        q = _i(charges[i], 1e4) if charges is not None and i < len(charges) and charges[i] is not None else None
        el = "*" if (a.atype == AtomType.Dummy and a.element.name == "Unknown") else a.element.name
        rows.append({"lab": "" if a.label is None else str(a.label), "el": el, "x": xyz[0], "y": xyz[1], "z": xyz[2],
                     "q": q, "more": [str(a.atype), str(getattr(a, "geom", None)), getattr(a, "formal_charge", None),
                                      str(getattr(a, "isotope", None)), _attrib(getattr(a, "attrib", {}))]})
    brows = []
    for b in m.bonds:
        brows.append({"a1": pos.get(id(b.a1), -1) + 1, "a2": pos.get(id(b.a2), -1) + 1,
                      "more": [str(b.btype), _attrib(getattr(b, "attrib", {}))]})
    content = [getattr(m, "name", None), rows, brows, None if charges is None else len(charges), list(coords.shape)]
    dig = hashlib.sha1(json.dumps(content, sort_keys=True, default=str).encode()).hexdigest()[:16]
    o = {"na": int(m.n_atoms), "nc": int(coords.shape[0]), "nb": int(m.n_bonds), "dig": dig}
    if full:
        o["name"] = str(getattr(m, "name", ""))[:32]
        o["atoms"] = [{"lab": r["lab"], "el": r["el"], "x": r["x"], "y": r["y"], "z": r["z"],
                       "q": 0 if r["q"] is None else r["q"]} for r in rows]
        o["bonds"] = [{"a1": r["a1"], "a2": r["a2"]} for r in brows]
    return o


# entry points: (class, via).  String entry points get the text, path entry points get a file written by the harness
# (bytes as they are: a damaged FILE is a byte sequence and may be invalid UTF-8).
STRING_VIAS = ("loads_all", "loads")
PATH_VIAS = ("load_all", "load", "ml.load_all", "ml.load", "stream")
VIAS = {"Molecule": ("loads_all", "loads", "load_all", "load", "ml.load_all", "ml.load", "stream"),
        "Structure": ("loads_all", "loads", "load_all", "load", "ml.load_all", "ml.load"),
        "ConformerEnsemble": ("loads", "load", "ml.load")}
PRIMARY = {"Molecule": "loads_all", "Structure": "loads_all", "ConformerEnsemble": "loads"}
_tmp, _own = [None], [None]


def _mkwork():
    import tempfile
    work = os.path.join(os.path.dirname(os.path.dirname(os.path.dirname(os.path.abspath(__file__)))), ".work")
    os.makedirs(work, exist_ok=True)
    return tempfile.mkdtemp(prefix="c10files-", dir=work)


def _rmwork():
    import shutil
    if _tmp[0] and _own[0] == os.getpid():
        shutil.rmtree(_tmp[0], ignore_errors=True)
        _tmp[0] = None


def _tmpfile(fmt, data):
    if _tmp[0] is None or not os.path.isdir(_tmp[0]):
        _tmp[0] = _mkwork()
        _own[0] = os.getpid()
    p = os.path.join(_tmp[0], f"damaged-{os.getpid()}.{fmt}")
    with open(p, "wb") as f:
        f.write(data if isinstance(data, bytes) else data.encode("utf-8"))
    return p


def _invoke(fmt, data, cls, via):
    """the real call: returns the list of molecule-like objects (the conformers of an ensemble count as molecules)"""
    import molli as ml
    C = getattr(ml, cls)
    if via in STRING_VIAS:
        if isinstance(data, bytes):
            raise ValueError("byte-level damage can only be handed over as a file")
        res = getattr(C, f"{via}_{fmt}")(data)
    else:
        path = _tmpfile(fmt, data)
        if via in ("load_all", "load"):
            res = getattr(C, f"{via}_{fmt}")(path)
        elif via == "stream":
            with open(path, "rt") as f:
                res = getattr(C, f"load_all_{fmt}")(f)
        elif via == "ml.load_all":
            res = ml.load_all(path, otype=C) if cls != "Molecule" else ml.load_all(path)
        elif via == "ml.load":
            res = ml.load(path, otype={"Molecule": "molecule", "ConformerEnsemble": "ensemble"}.get(cls, C))
        else:
            raise ValueError(via)
    if cls == "ConformerEnsemble":
        return [_ConfView(res, i) for i in range(res.n_conformers)]
    return list(res) if isinstance(res, (list, tuple)) else [res]


class _ConfView:
    """one conformer of an ensemble, seen as a molecule through the ensemble's public arrays"""
    def __init__(self, ens, i):
        import numpy as np
        self.atoms, self.bonds, self.name = ens.atoms, ens.bonds, ens.name
        self.n_atoms, self.n_bonds = ens.n_atoms, ens.n_bonds
        self.coords = np.asarray(ens.coords)[i]
        q = getattr(ens, "atomic_charges", None)
        self.atomic_charges = None if q is None else np.asarray(q)[i]


def call(fmt, data, full=False, limit=LIMIT_S, cls="Molecule", via="loads_all"):
    """One real call under the wall-clock limit (in this process)."""
    import molli as ml  # noqa
    _fired[0] = False
    old = signal.signal(signal.SIGALRM, _on_alarm)
    signal.setitimer(signal.ITIMER_REAL, limit, 0.5)
    try:
        with warnings.catch_warnings():
            warnings.simplefilter("ignore")
            try:
                res = _invoke(fmt, data, cls, via)
                obs = [observe(m, full) for m in res]
                signal.setitimer(signal.ITIMER_REAL, 0)
                if _fired[0]:
                    return {"out": "timeout", "mols": []}
                return {"out": "ret", "mols": obs}
            except _Timeout:
                return {"out": "timeout", "mols": []}
            except BaseException as e:                          # noqa: any exception is a rejection
                if _fired[0]:
                    return {"out": "timeout", "mols": []}
                if isinstance(e, (KeyboardInterrupt, SystemExit, MemoryError)):
                    raise
                return {"out": "exc", "mols": [], "exc": type(e).__name__}
    finally:
        signal.setitimer(signal.ITIMER_REAL, 0)
        signal.signal(signal.SIGALRM, old)


def _clear_caches():
    # Bond.set_mol2_type is wrapped in functools.cache and keeps every bond ever parsed alive
    try:
        from molli.chem import Bond
        Bond.set_mol2_type.cache_clear()
    except Exception:
        pass


MAX_TIMEOUTS_PER_CHUNK = 4
MAX_TIMEOUTS = 16


def _work(chunk):
    out, nto = [], 0
    for cid, fmt, text, full, *rest in chunk:
        if nto >= MAX_TIMEOUTS_PER_CHUNK:                        # a reader that spins on a whole class of inputs: enough seen
            out.append((cid, {"out": "skipped", "mols": []}))
            continue
        o = call(fmt, text, full, LIMIT_S, *rest)
        nto += o["out"] == "timeout"
        out.append((cid, o))
    _clear_caches()
    return out


def _single(fmt, text, full, limit, cls="Molecule", via="loads_all"):
    """last resort for a call that did not come back: its own interpreter under a hard timeout"""
    code = ("import sys, json; from mbv.adapters import readers as R; "
            "d = json.load(sys.stdin); t = bytes.fromhex(d['hex']) if d['hex'] else d['text']; "
            "print('RESULT' + json.dumps(R.call(d['fmt'], t, d['full'], d['limit'], d['cls'], d['via']))); R._rmwork()")
    try:
        p = subprocess.run([sys.executable, "-c", code], input=json.dumps({"fmt": fmt, "text": None if isinstance(text, bytes) else text,
                                                                            "hex": text.hex() if isinstance(text, bytes) else None,
                                                                            "full": full, "limit": limit, "cls": cls, "via": via}),
                           capture_output=True, text=True, timeout=limit * 3 + 20)
        for line in p.stdout.splitlines():
            if line.startswith("RESULT"):
                return json.loads(line[6:])
    except subprocess.TimeoutExpired:
        pass
    return {"out": "timeout", "mols": []}


def run_cases(cases, workers=4, chunk=200, limit=LIMIT_S, chunks=None):
    """cases: [(id, fmt, text, full)] -> {id: outcome}.  Calls run in worker processes under the in-process limit; if
    nothing comes back for a long time the pool is killed and a few of the open cases are redone one by one in fresh
    interpreters, so a reader that spins is a verdict ("timeout"), never a hung check.  After MAX_TIMEOUTS timeouts the
    remaining cases are not run (outcome "skipped"): the run has failed anyway and must still end."""
    import molli  # noqa: load before forking
    res = {}
    if not cases:
        return res
    if chunks is None:
        chunks = [cases[i:i + chunk] for i in range(0, len(cases), chunk)]
    _tmp[0], _own[0] = _mkwork(), os.getpid()          # scratch directory for the damaged files (workers inherit it)
    ctx = mp.get_context("fork")
    pool = ctx.Pool(workers, maxtasksperchild=20)
    hung = False
    try:
        it = pool.imap_unordered(_work, chunks)
        while True:
            try:
                part = it.next(timeout=240 + 8 * limit)
            except StopIteration:
                break
            except mp.TimeoutError:
                hung = True
                break
            for cid, o in part:
                res[cid] = o
            if sum(1 for o in res.values() if o["out"] == "timeout") >= MAX_TIMEOUTS:
                break
    finally:
        pool.terminate()
        pool.join()
    todo = [c for ch in chunks for c in ch if c[0] not in res]
    for n, (cid, fmt, text, full, *rest) in enumerate(todo):
        res[cid] = _single(fmt, text, full, limit, *rest) if (hung and n < 6) else {"out": "skipped", "mols": []}
    _rmwork()
    return res
