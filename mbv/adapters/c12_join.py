"""C12 adapter: builds real molli fragments from JSON-able descriptions, performs real
Structure.join / Molecule.join / combine._ml_assemble calls and abstracts what happened into the
events of spec/JoinTrace.tla.  Nothing here decides anything: expected products, index maps and all
comparisons live in the TLA+ specification (Join.tla); this module only

  * interprets inputs (description -> real object; extended input = the fragment with its attachment
    point pushed to the requested bond length along its own direction),
  * observes (atom tokens in order, bond set, charge, multiplicity, coordinates in micro-Angstrom,
    pairwise distances in micro-Angstrom, orientation sign of every atom quadruple).
"""
from __future__ import annotations
import math, random, sys, types
import numpy as np

UA = 1_000_000          # micro-Angstrom per Angstrom
MILLI = 1000            # unit of q and m in events
EPS_IN = 1e-2           # |signed volume| (A^3) below which an INPUT quadruple counts as planar (sign 0: unconstrained)
EPS_OUT = 1e-4          # same for a product quadruple
DEFAULT_BT = "Single"


def ensure_xt():
    """optimize_rotation=True needs the compiled molli_xt.  A source checkout without a built extension
    (a scratch worktree given through MBV_REPO) has a bare `molli_xt/` directory that shadows the compiled
    module of the installed tree; in that case the built extension is loaded from where it is installed.
    Returns a short description for the evidence, None if no usable extension exists."""
    import glob, importlib.util, os
    try:
        import molli_xt
        if hasattr(molli_xt, "cdist32_eu2"):
            return "as found"
    except ImportError:
        pass
    for base in list(sys.path) + ["/repo"]:
        for f in sorted(glob.glob(os.path.join(base or ".", "molli_xt*.so"))):
            try:
                spec = importlib.util.spec_from_file_location("molli_xt", f)
                mod = importlib.util.module_from_spec(spec)
                spec.loader.exec_module(mod)
            except Exception:
                continue
            if hasattr(mod, "cdist32_eu2"):
                sys.modules["molli_xt"] = mod
                return f"loaded from {f} (the checkout under test has no built extension)"
    return None


def _molli():
    import molli as ml
    from molli.chem import Atom, Bond, Structure, Molecule, AtomType, BondType, BondStereo
    return ml, Atom, Bond, Structure, Molecule, AtomType, BondType, BondStereo


# ----------------------------------------------------------------------------- observation
def atom_token(a) -> str:
    t = f"{a.element.name}.{a.label}"
    if a.isotope is not None:
        t += f"^{a.isotope}"
    if a.formal_charge:
        t += f"{int(a.formal_charge):+d}"
    if a.formal_spin:
        t += f"s{int(a.formal_spin)}"
    if a.atype.name != "Regular":
        t += f"@{a.atype.name}"
    if a.stereo.name != "Unknown":
        t += f"/{a.stereo.name}"
    if a.geom.name != "Unknown":
        t += f"%{a.geom.name}"
    return t


def bond_token(btype_name: str, stereo_name: str = "Unknown", f_order=1.0) -> str:
    t = btype_name
    if stereo_name != "Unknown":
        t += f"/{stereo_name}"
    if float(f_order) != 1.0:
        t += f"~{float(f_order):g}"
    return t


def _milli(v):
    return int(round(float(v) * MILLI))


def micro(x):
    x = np.asarray(x, dtype=float)
    if not np.all(np.isfinite(x)):
        raise ValueError("non-finite coordinates")
    return np.rint(x * UA).astype(np.int64)


def abstract(s) -> dict:
    """Observed value of a structure (public accessors only)."""
    idx = {id(a): i + 1 for i, a in enumerate(s.atoms)}
    bonds = []
    for b in s.bonds:
        i, j = idx[id(b.a1)], idx[id(b.a2)]
        bonds.append({"a": min(i, j), "b": max(i, j), "t": bond_token(b.btype.name, b.stereo.name, b.f_order)})
    bonds.sort(key=lambda d: (d["a"], d["b"], d["t"]))
    return {"atoms": [atom_token(a) for a in s.atoms], "bonds": bonds, "q": _milli(s.charge), "m": _milli(s.mult),
            "X": micro(s.coords).tolist()}


def geo(X, eps) -> dict:
    """D: pairwise distances (micro-Angstrom); H[i][j-i][k-j][l-k]: orientation sign of the quadruple i<j<k<l."""
    X = np.asarray(X, dtype=float)
    n = len(X)
    diff = X[:, None, :] - X[None, :, :]
    D = np.rint(np.sqrt((diff ** 2).sum(-1)) * UA).astype(np.int64).tolist()
    H = []
    for i in range(n - 3):
        Hi = []
        for j in range(i + 1, n - 2):
            u = X[j] - X[i]
            Hj = []
            for k in range(j + 1, n - 1):
                c = np.cross(X[k] - X[i], X[k + 1:] - X[i])          # rows: (Xk-Xi) x (Xl-Xi), l > k
                vol = c @ u                                           # u . (v x w)
                Hj.append([0 if abs(v) < eps else (1 if v > 0 else -1) for v in vol.tolist()])
            Hi.append(Hj)
        H.append(Hi)
    return {"D": D, "H": H}


def extended(s, ap0: int, nbr0: int, L: float):
    """Coordinates of s with the attachment point pushed to distance L from its neighbour, same direction."""
    X = np.array(s.coords, dtype=float)
    v = X[ap0] - X[nbr0]
    X[ap0] = X[nbr0] + v * (L / np.linalg.norm(v))
    return X


# ----------------------------------------------------------------------------- interpretation of inputs
def build(desc: dict):
    """desc: {cls, name, atoms:[{el,label,isotope?,fc?,spin?,atype?}], bonds:[[i,j,btype,stereo?]] (0-based),
    coords:[[x,y,z]] (Angstrom), q, m}"""
    ml, Atom, Bond, Structure, Molecule, AtomType, BondType, BondStereo = _molli()
    cls = {"Structure": Structure, "Molecule": Molecule}[desc.get("cls", "Structure")]
    atoms = []
    for a in desc["atoms"]:
        atoms.append(Atom(a["el"], label=a["label"], isotope=a.get("isotope"), formal_charge=a.get("fc", 0),
                          formal_spin=a.get("spin", 0), atype=AtomType[a.get("atype", "Regular")]))
    s = cls(atoms, name=desc.get("name", "frag"))
    for b in desc["bonds"]:
        s.append_bond(Bond(s.atoms[b[0]], s.atoms[b[1]], btype=BondType[b[2]],
                           stereo=BondStereo[b[3]] if len(b) > 3 else BondStereo.Unknown))
    s.coords = np.array(desc["coords"], dtype=float)
    s.charge = int(desc.get("q", 0))        # assigned, so that 0 is a value like any other
    s.mult = int(desc.get("m", 1))
    return s


def desc_from_model(rec: dict, cls="Structure", name="frag", scale=1.0, aps=(), prefix=""):
    """A structure record emitted by TLC (lattice coordinates, tokens 'El.label') -> description."""
    atoms = []
    for i, t in enumerate(rec["atoms"]):
        el, lab = t.split(".", 1)
        atoms.append({"el": el, "label": prefix + lab, **({"atype": "AttachmentPoint"} if (i + 1) in aps else {})})
    return {"cls": cls, "name": name, "atoms": atoms,
            "bonds": [[b["a"] - 1, b["b"] - 1, b["t"]] for b in rec["bonds"]],
            "coords": [[c * scale for c in x] for x in rec["X"]], "q": rec["q"], "m": rec["m"]}


def stub_openbabel():
    """molli.scripts.combine imports molli.external.openbabel at module level; only its optional
    --obopt path needs it.  Without OpenBabel installed a stand-in package lets the module import."""
    try:
        import openbabel  # noqa: F401
        return False
    except Exception:
        pass

    class _Any(types.ModuleType):
        def __getattr__(self, k):
            if k.startswith("__"):
                raise AttributeError(k)
            return type(k, (), {})
    pkg = _Any("openbabel"); pkg.__path__ = []
    ob, pb = _Any("openbabel.openbabel"), _Any("openbabel.pybel")
    pkg.openbabel, pkg.pybel = ob, pb
    sys.modules.update({"openbabel": pkg, "openbabel.openbabel": ob, "openbabel.pybel": pb})
    return True


# ----------------------------------------------------------------------------- the laboratory
class Lab:
    """One trace: a heap of named real objects, the events of what was done to them."""

    def __init__(self):
        self.ev = []
        self.objs = {}       # name -> object
        self.names = {}      # id(object) -> name
        self.keep = []       # keep every object alive (ids must stay unique)
        self.n_auto = 0
        self.n_join = 0
        self.calls = 0

    # -- events
    def make(self, name, obj):
        self.objs[name] = obj
        self.names[id(obj)] = name
        self.keep.append(obj)
        self.ev.append({"ev": "make", "o": name, "s": abstract(obj)})
        return obj

    def perturb(self, seed: int):
        np.random.seed(seed % (2 ** 32))
        random.seed(seed)
        self.ev.append({"ev": "perturb", "r": int(seed)})

    def check(self, name):
        try:
            s = abstract(self.objs[name])
        except Exception as e:                       # an input that can no longer be observed is not untouched
            s = {"atoms": [f"unobservable:{type(e).__name__}"], "bonds": [], "q": 0, "m": 0, "X": []}
        self.ev.append({"ev": "check", "o": name, "s": s})

    def _name_of(self, obj, hint):
        n = self.names.get(id(obj))
        if n is None:                                # an object made by the code under test (e.g. Molecule(core))
            self.n_auto += 1
            n = f"{hint}{self.n_auto}"
            self.make(n, obj)
        return n

    def join(self, out_name, cls, s1, s2, a1, a2, *, func=None, **kw):
        """Perform the real call and record it.  kw: dist, optimize_rotation, charge, mult, btype, bstereo, ..."""
        ml, Atom, Bond, Structure, Molecule, AtomType, BondType, BondStereo = _molli()
        na, nb = self._name_of(s1, "U"), self._name_of(s2, "U")
        i1, i2 = _index_of(s1, a1), _index_of(s2, a2)
        dist = kw.get("dist")
        bt = kw.get("btype")
        g = {"a": na, "b": nb, "apA": i1 + 1, "apB": i2 + 1,
             "L": int(round(dist * UA)) if dist is not None else 0,
             "opt": bool(kw.get("optimize_rotation", False)),
             "qo": {"g": kw.get("charge") is not None, "v": _milli(kw.get("charge") or 0)},
             "mo": {"g": kw.get("mult") is not None, "v": _milli(kw.get("mult") or 0)},
             "bt": bond_token(bt.name if bt is not None else DEFAULT_BT,
                              kw["bstereo"].name if kw.get("bstereo") is not None else "Unknown",
                              kw.get("bforder", 1.0))}
        self.calls += 1
        try:
            res = func(cls, s1, s2, a1, a2, **kw) if func else cls.join(s1, s2, a1, a2, **kw)
            ev = self._observe_join(out_name, g, s1, s2, i1, i2, dist, res)
        except Exception as e:
            ev = {"ev": "join", "o": out_name, "out": "error", "err": f"{type(e).__name__}: {e}"[:200], "g": g}
            self.ev.append(ev)
            raise
        self.ev.append(ev)
        return res

    def _observe_join(self, out_name, g, s1, s2, i1, i2, dist, res):
        self.objs[out_name] = res
        self.names[id(res)] = out_name
        self.keep.append(res)
        src = {id(a) for a in s1.atoms} | {id(a) for a in s2.atoms}
        fresh = res is not s1 and res is not s2 and not any(id(a) in src for a in res.atoms)
        try:
            p = abstract(res)
            XP = np.array(res.coords, dtype=float)
            n1 = s1.get_atom_index(next(s1.connected_atoms(s1.atoms[i1])))
            n2 = s2.get_atom_index(next(s2.connected_atoms(s2.atoms[i2])))
            if dist is not None:
                L = float(dist)
            else:
                # no length requested: the extended inputs are built with the length the code chose,
                # read off the product between the atoms that carry the anchors' tokens
                L = _observed_length(res, XP, atom_token(s1.atoms[n1]), atom_token(s2.atoms[n2]))
            gA = geo(extended(s1, i1, n1, L), EPS_IN)
            gB = geo(extended(s2, i2, n2, L), EPS_IN)
            gP = geo(XP, EPS_OUT)
        except Exception as e:
            return {"ev": "join", "o": out_name, "out": "unobservable", "err": f"{type(e).__name__}: {e}"[:200], "g": g}
        return {"ev": "join", "o": out_name, "out": "ok", "fresh": bool(fresh), "g": g, "p": p,
                "gA": gA, "gB": gB, "gP": gP}

    # -- molli combine
    def assemble(self, core_name, core_aps0, sub_names, *, hadd=False):
        """Run the real combine._ml_assemble on one (core, substituent combination); every Molecule.join it
        makes is recorded through a wrapper installed on Structure.join for the duration of the call."""
        ml, Atom, Bond, Structure, Molecule, AtomType, BondType, BondStereo = _molli()
        stub_openbabel()
        from molli.scripts import combine
        core = self.objs[core_name]
        subs = [self.objs[n] for n in sub_names]
        saps = [s.get_atom_index(s.attachment_points[0]) + 1 for s in subs]
        self.ev.append({"ev": "asm-begin", "core": core_name, "aps": [int(a) + 1 for a in core_aps0],
                        "subs": list(sub_names), "saps": saps})
        orig = Structure.__dict__["join"]
        lab = self

        def recorded(cls, s1, s2, a1, a2, **kw):
            lab.n_join += 1
            return lab.join(f"J{lab.n_join}", cls, s1, s2, a1, a2, func=orig.__func__, **kw)
        Structure.join = classmethod(recorded)
        try:
            fn, args, kwargs = combine._ml_assemble(core, tuple(core_aps0), [tuple(subs)], hadd=hadd)
            results = fn(*args, **kwargs)
            (res,) = results.values()
            name = self.names.get(id(res))
            if name is None:
                name = self._name_of(res, "R")
            else:
                self.check(name)                    # the returned object is the last product, as recorded
            self.ev.append({"ev": "asm-end", "out": "ok", "o": name})
            return res
        except Exception as e:
            self.ev.append({"ev": "asm-end", "out": "error", "err": f"{type(e).__name__}: {e}"[:200]})
            return None
        finally:
            Structure.join = orig


def _index_of(s, a):
    """0-based position of the atom a call designates (an int is taken the way a Python list takes it)."""
    try:
        if isinstance(a, (int, np.integer)):
            return int(a) if a >= 0 else int(a) + s.n_atoms
        return s.get_atom_index(a)
    except Exception:
        return -1


def _observed_length(res, XP, tok1, tok2):
    toks = [atom_token(a) for a in res.atoms]
    try:
        return float(np.linalg.norm(XP[toks.index(tok1)] - XP[toks.index(tok2)])) or 1.0
    except ValueError:
        return 1.5


# ----------------------------------------------------------------------------- flows (one trace each)
def _join_kwargs(a: dict):
    ml, Atom, Bond, Structure, Molecule, AtomType, BondType, BondStereo = _molli()
    kw = {}
    if a.get("dist") is not None:
        kw["dist"] = float(a["dist"])
    if a.get("opt"):
        kw["optimize_rotation"] = True
    if a.get("charge") is not None:
        kw["charge"] = a["charge"]
    if a.get("mult") is not None:
        kw["mult"] = a["mult"]
    if a.get("btype") is not None:
        kw["btype"] = BondType[a["btype"]]
    return kw


def run_pair(case: dict) -> Lab:
    """case: {A: desc, B: desc, apA, apB (0-based), args: {dist, opt, charge, mult, btype}, seeds: [s1, s2], by: 'index'|'atom'}
    make A, make B, then twice: re-seed the hidden state, join, observe A and B again."""
    lab = Lab()
    A = lab.make("A", build(case["A"]))
    B = lab.make("B", build(case["B"]))
    cls = type(A)
    kw = _join_kwargs(case["args"])
    for k, seed in enumerate(case["seeds"]):
        lab.perturb(seed)
        a1 = A.atoms[case["apA"]] if case.get("by") == "atom" else case["apA"]
        a2 = B.atoms[case["apB"]] if case.get("by") == "atom" else case["apB"]
        try:
            lab.join(f"P{k + 1}", cls, A, B, a1, a2, **kw)
        except Exception:
            pass                                     # recorded as out = "error"
        lab.check("A")
        lab.check("B")
    return lab


def core_aps_like_combine(core, labels):
    """The attachment indices exactly as molli_main computes them (scripts/combine.py:235-246)."""
    if labels:
        return [core.index_atom(a) for lbl in labels for a in core.yield_atoms_by_label(lbl)]
    return list(map(core.index_atom, core.attachment_points))


def run_asm(case: dict) -> Lab:
    """case: {core: desc, subs: [desc], labels: [..] | None, seed}; the core's attachment points have
    atype AttachmentPoint, each substituent has exactly one."""
    lab = Lab()
    core = lab.make("K", build(case["core"]))
    names = []
    for i, d in enumerate(case["subs"]):
        lab.make(f"S{i + 1}", build(d))
        names.append(f"S{i + 1}")
    lab.perturb(case.get("seed", 1))
    aps = case["aps"] if case.get("aps") is not None else core_aps_like_combine(core, case.get("labels"))
    lab.assemble("K", aps, names)
    lab.check("K")
    for n in names:
        lab.check(n)
    return lab


# ----------------------------------------------------------------------------- random inputs
ELEMENTS = ["C", "N", "O", "S", "P", "F", "Cl", "Br", "Si", "B", "H"]
BTYPES = ["Single", "Double", "Triple", "Aromatic", "Amide"]


def _unit(rnd):
    while True:
        v = np.array([rnd.gauss(0, 1) for _ in range(3)])
        n = np.linalg.norm(v)
        if n > 1e-3:
            return v / n


def _place(rnd, coords, origin, lo, hi, mind=0.75):
    for _ in range(200):
        p = origin + _unit(rnd) * rnd.uniform(lo, hi)
        if all(np.linalg.norm(p - c) >= mind for c in coords):
            return p
    return origin + _unit(rnd) * hi * 1.7


def rand_fragment(rnd: random.Random, n_heavy: int, n_ap: int, prefix: str, cls="Structure", ring=False, name=None):
    """Random 3-D tree or ring fragment with n_ap attachment points, each on a random atom, inserted at random
    positions of the atom list.  Returns (description, [attachment indices, 0-based])."""
    coords, bonds = [np.zeros(3)], []
    if ring and n_heavy >= 3:
        r = rnd.randint(3, min(6, n_heavy))
        rad = 1.45 / (2 * math.sin(math.pi / r))
        coords = [np.array([rad * math.cos(2 * math.pi * k / r), rad * math.sin(2 * math.pi * k / r), rnd.uniform(-0.35, 0.35)])
                  for k in range(r)]
        bonds = [[k, (k + 1) % r] for k in range(r)]
    while len(coords) < n_heavy:
        h = rnd.randrange(len(coords))
        coords.append(_place(rnd, coords, coords[h], 1.0, 1.6))
        bonds.append([h, len(coords) - 1])
    atoms = []
    for i in range(len(coords)):
        a = {"el": rnd.choice(ELEMENTS), "label": f"{prefix}{i}"}
        x = rnd.random()
        if x < 0.12:
            a["isotope"] = rnd.choice([2, 13, 15, 18])
        elif x < 0.24:
            a["fc"] = rnd.choice([-1, 1, 2])
        elif x < 0.32:
            a["atype"] = rnd.choice(["Aromatic", "sp2", "sp3"])
        atoms.append(a)
    bonds = [[i, j, rnd.choice(BTYPES)] + (["E"] if rnd.random() < 0.1 else []) for i, j in bonds]
    # attachment points
    ap_atoms = []
    for k in range(n_ap):
        h = rnd.randrange(n_heavy)
        coords.append(_place(rnd, coords, coords[h], 0.9, 1.4))
        atoms.append({"el": "Unknown", "label": f"{prefix}ap{k}", "atype": "AttachmentPoint"})
        bonds.append([h, len(coords) - 1, "Single"])
        ap_atoms.append(len(coords) - 1)
    # random order of the atom list (so that attachment points stand before / between / after their neighbours)
    order = list(range(len(coords)))
    rnd.shuffle(order)
    pos = {old: new for new, old in enumerate(order)}
    desc = {"cls": cls, "name": name or prefix, "atoms": [atoms[o] for o in order],
            "bonds": [[pos[b[0]], pos[b[1]]] + b[2:] for b in bonds],
            "coords": [[float(c) for c in coords[o]] for o in order],
            "q": rnd.choice([-2, -1, 0, 0, 1, 2]), "m": rnd.choice([0, 1, 1, 2, 3])}
    return desc, sorted(pos[a] for a in ap_atoms)


def _frame(e1):
    e1 = e1 / np.linalg.norm(e1)
    h = np.eye(3)[int(np.argmin(np.abs(e1)))]
    e2 = h - e1 * (h @ e1)
    e2 /= np.linalg.norm(e2)
    return np.array([e1, e2, np.cross(e1, e2)])


def rot_to(v_from, v_to):
    """Proper rotation R (row-vector convention x @ R) with v_from/|v_from| @ R = v_to/|v_to|."""
    return _frame(np.asarray(v_from, float)).T @ _frame(np.asarray(v_to, float))


def rot_axis(axis, ang):
    a = np.asarray(axis, float) / np.linalg.norm(axis)
    K = np.array([[0, -a[2], a[1]], [a[2], 0, -a[0]], [-a[1], a[0], 0]])
    return (np.eye(3) + math.sin(ang) * K + (1 - math.cos(ang)) * (K @ K)).T


def rand_rotation(rnd):
    q = np.array([rnd.gauss(0, 1) for _ in range(4)])
    q /= np.linalg.norm(q)
    w, x, y, z = q
    return np.array([[1 - 2 * (y * y + z * z), 2 * (x * y - z * w), 2 * (x * z + y * w)],
                     [2 * (x * y + z * w), 1 - 2 * (x * x + z * z), 2 * (y * z - x * w)],
                     [2 * (x * z - y * w), 2 * (y * z + x * w), 1 - 2 * (x * x + y * y)]])


def pose(desc, R, t):
    d = dict(desc)
    X = np.array(desc["coords"], float) @ R + np.asarray(t, float)
    d["coords"] = X.tolist()
    return d


def attach_vec(desc, ap0):
    nbr = next(b[1] if b[0] == ap0 else b[0] for b in desc["bonds"] if ap0 in b[:2])
    X = np.array(desc["coords"], float)
    return X[ap0] - X[nbr]


def pose_class(descA, apA, descB, apB):
    """How B's attachment vector lies relative to A's, in the terms of rotation_matrix_from_vectors(v2, -v1)."""
    v1, v2 = attach_vec(descA, apA), attach_vec(descB, apB)
    c = float(np.dot(v2 / np.linalg.norm(v2), -v1 / np.linalg.norm(v1)))
    if c <= -1 + 1e-6:
        return "opposite"          # v2 has to be turned by 180 degrees (the branch that needs an arbitrary axis)
    if c >= 1 - 1e-12:
        return "aligned"           # nothing to rotate
    if c <= -1 + 1e-4:
        return "near-opposite"
    return "general"


def rand_pair_case(rnd: random.Random, mode: str, have_xt: bool, max_atoms=7):
    cls = rnd.choice(["Structure", "Molecule"])
    nA, nB = rnd.randint(1, max_atoms - 1), rnd.randint(1, max_atoms - 1)
    A, (apA,) = rand_fragment(rnd, nA, 1, "a", cls, ring=rnd.random() < 0.35)
    B, (apB,) = rand_fragment(rnd, nB, 1, "b", cls, ring=rnd.random() < 0.35)
    A = pose(A, rand_rotation(rnd), [rnd.uniform(-3, 3) for _ in range(3)])
    v1 = attach_vec(A, apA)
    R = rand_rotation(rnd)
    if mode in ("opposite", "aligned", "near-opposite"):
        v2 = attach_vec(B, apB)
        R = rot_to(v2, v1 if mode != "aligned" else -v1)
        if mode == "near-opposite":
            R = R @ rot_axis(_frame(v1)[1], rnd.choice([1.0e-3, 2.0e-3, 5.0e-3, 1.2e-2]))
    B = pose(B, R, [rnd.uniform(-5, 5) for _ in range(3)])
    x = rnd.random()
    args = {"dist": None if x < 0.12 else round(rnd.uniform(0.9, 2.6), 4),
            "opt": have_xt and rnd.random() < 0.5,
            "charge": rnd.choice([None, None, 0, 0, -1, 1, 2]),
            "mult": rnd.choice([None, None, 0, 1, 2, 4]),
            "btype": rnd.choice([None, None, None, "Double", "Aromatic", "Triple"])}
    return {"kind": "pair", "src": f"random-{mode}", "A": A, "B": B, "apA": apA, "apB": apB, "args": args,
            "seeds": [rnd.randrange(1, 2 ** 31), rnd.randrange(1, 2 ** 31)], "by": rnd.choice(["index", "atom"])}


def rand_asm_case(rnd: random.Random, labelled: bool):
    n_ap = rnd.choice([2, 2, 3])
    core, aps = rand_fragment(rnd, rnd.randint(1, 4), n_ap, "k", "Molecule", ring=rnd.random() < 0.3, name="core")
    core["m"] = max(1, core["m"])
    subs = []
    for i in range(n_ap):
        s, _ = rand_fragment(rnd, rnd.randint(1, 3), 1, f"s{i + 1}x", "Molecule", ring=rnd.random() < 0.2, name=f"sub{i + 1}")
        s["m"] = max(1, s["m"])
        subs.append(pose(s, rand_rotation(rnd), [rnd.uniform(-4, 4) for _ in range(3)]))
    labels = None
    if labelled:
        # `molli combine -a L1 -a L2 ...`: substituent i goes to the atom labelled L_i
        labels = [core["atoms"][a]["label"] for a in aps]
        rnd.shuffle(labels)
    return {"kind": "asm", "src": "random-labels" if labelled else "random-default", "core": core, "subs": subs,
            "labels": labels, "aps": None, "seed": rnd.randrange(1, 2 ** 31)}
