"""C13 adapter: CDXML drawings <-> molli.ftypes.cdxml.CDXMLFile.

Three independent pieces (none of them uses molli's parser to learn what is drawn):

* walk(path)        ElementTree walk of a CDXML file -> the abstract drawing that Cdxml.tla reasons about
                    (raw drawn attributes only: the mapping tables / label rules / nested expansion live in
                    the specification, not here);
* Handle            the real calls: CDXMLFile(path), keys(), file[label];
* observe(...)      abstraction of a returned Molecule through public accessors into the record shape of the
                    specification (atoms and bonds keyed by drawn node / bond ids).  The correspondence
                    parsed atom -> drawn node is a *witness* found here (graph matching); the specification
                    checks every clause under that witness, so a wrong witness can only cause a rejection.
* variants          generators of transformed files (mirror stereo marks, translate page, permute page
                    children, shuffle nodes/bonds inside fragments, renumber ids).

Integers only: positions in 1/200 pt, signed volumes in 1e-3 A^3, coordinates (digest) in micro-Angstrom."""
from __future__ import annotations
import copy, hashlib, itertools, json, random, warnings
from decimal import Decimal
from pathlib import Path
from xml.etree import ElementTree as ET

ORDER_HINT = {"": "Single", "1": "Single", "2": "Double", "3": "Triple", "1.5": "Aromatic"}
MIRROR = {"WedgeBegin": "WedgedHashBegin", "WedgedHashBegin": "WedgeBegin", "WedgeEnd": "WedgedHashEnd",
          "WedgedHashEnd": "WedgeEnd", "Bold": "Hash", "Hash": "Bold"}


# ------------------------------------------------------------------------------------------------
# independent walk of the drawing
# ------------------------------------------------------------------------------------------------
def _pos200(elt):
    """centre of the object in 1/200 pt (exact integers: CDXML writes two decimals)."""
    if "BoundingBox" in elt.attrib:
        l, t, r, b = (Decimal(x) for x in elt.attrib["BoundingBox"].split())
        return int((l + r) * 100), int((t + b) * 100)
    if "p" in elt.attrib:
        x, y = (Decimal(v) for v in elt.attrib["p"].split())
        return int(x * 200), int(y * 200)
    return None


def _walk_fragment(frag, nodes, bonds, multi, par):
    for n in frag.findall("n"):
        key = n.get("id")
        nt = n.get("NodeType") or ""
        if nt == "MultiAttachment":
            multi[key] = (n.get("Attachments") or "").split()
            continue
        inner = n.find("fragment")
        el = n.get("Element")
        nodes[key] = {"el": int(el) if el else -1, "iso": int(n.get("Isotope") or 0), "q": int(n.get("Charge") or 0),
                      "rad": n.get("Radical") or "", "nt": nt, "par": par, "inner": inner is not None}
        if inner is not None:
            _walk_fragment(inner, nodes, bonds, multi, key)
    for b in frag.findall("b"):
        bonds[b.get("id")] = {"a": b.get("B"), "b": b.get("E"), "ord": b.get("Order") or "",
                              "disp": b.get("Display") or "", "own": par}


def walk(path) -> dict:
    """The abstract drawing of one file.  Fragments: children of the page and of first-level groups."""
    root = ET.parse(str(path)).getroot()
    frags, labels = {}, []
    gid = 0
    for page in root.findall("page"):
        holders = [(page, "")]
        for g in page.findall("group"):
            gid += 1
            holders.append((g, f"g{gid}"))
        for holder, grp in holders:
            for fr in holder.findall("fragment"):
                nodes, bonds, multi = {}, {}, {}
                _walk_fragment(fr, nodes, bonds, multi, "")
                p = _pos200(fr)
                frags[fr.get("id")] = {"x": p[0] if p else 0, "y": p[1] if p else 0, "haspos": p is not None, "grp": grp,
                                       "nodes": nodes, "bonds": bonds, "multi": multi,
                                       "nb": len(fr.findall("b"))}
            for t in holder.findall("t"):
                ss = t.findall("s")
                p = _pos200(t)
                labels.append({"text": (ss[0].text if ss else "") or "", "ns": len(ss),
                               "face": ss[0].get("face", "0") if ss else "0",
                               "x": p[0] if p else 0, "y": p[1] if p else 0, "haspos": p is not None, "grp": grp})
    return {"ev": "Drawn", "frags": frags, "labels": labels}


# ------------------------------------------------------------------------------------------------
# expansion used ONLY to search for the witness (the specification has its own, declarative one)
# ------------------------------------------------------------------------------------------------
def _expand(fr):
    nodes, bonds, multi = fr["nodes"], fr["bonds"], fr["multi"]
    through = {}
    for bk, b in bonds.items():
        for e, o in ((b["a"], b["b"]), (b["b"], b["a"])):
            if e in nodes and nodes[e]["par"] and nodes[e]["nt"] == "ExternalConnectionPoint":
                through[nodes[e]["par"]] = o

    def real(k, depth=0):
        while k in through and depth < 8:
            k, depth = through[k], depth + 1
        return k
    # order in which the pinned parser lists atoms (top level first, then each nested fragment); only a first guess
    # for the witness -- any other order is found by graph matching
    keep = lambda k, n: not n["inner"] and not (n["par"] and n["nt"] == "ExternalConnectionPoint")
    atoms = [k for k, n in nodes.items() if not n["par"] and keep(k, n)]
    for ph, pn in nodes.items():
        if pn["inner"]:
            atoms += [k for k, n in nodes.items() if n["par"] == ph and keep(k, n)]
    edges = {}
    for bk, b in bonds.items():
        if b["a"] in multi or b["b"] in multi:
            continue
        if any(e in nodes and nodes[e]["par"] and nodes[e]["nt"] == "ExternalConnectionPoint" for e in (b["a"], b["b"])):
            continue
        edges[bk] = (real(b["a"]), real(b["b"]), b["ord"], b["disp"])
    return atoms, edges


def _el(n):
    if n["nt"] in ("ExternalConnectionPoint", "Fragment", "Nickname", "GenericNickname", "Unspecified"):
        return 0
    return 6 if n["el"] < 0 else n["el"]


def _witness(fr, atoms_obs, bonds_obs):
    """parsed atom index -> drawn node key.  Tiered graph matching; falls back to document order."""
    import networkx as nx
    from networkx.algorithms.isomorphism import GraphMatcher
    akeys, edges = _expand(fr)
    if len(akeys) != len(atoms_obs):
        return {i: (akeys[i] if i < len(akeys) else f"x{i}") for i in range(len(atoms_obs))}
    hapto = set()
    for mk, att in fr["multi"].items():
        hapto |= set(att)
        for b in fr["bonds"].values():
            if mk in (b["a"], b["b"]):
                hapto.add(b["b"] if b["a"] == mk else b["a"])
    G = nx.Graph()
    for k in akeys:
        n = fr["nodes"][k]
        G.add_node(k, el=_el(n), full=(_el(n), n["iso"], n["q"], n["rad"]))
    for bk, (a, b, o, d) in edges.items():
        if a in G and b in G:
            G.add_edge(a, b, o=o)
    H = nx.Graph()
    RAD = {0: "", 1: "Doublet", 2: "Singlet"}
    for i, a in enumerate(atoms_obs):
        H.add_node(i, el=a["el"], full=(a["el"], a["iso"], a["q"], RAD.get(a["nrad"], "?")))
    hapto_obs = set()
    for (i, j, o) in bonds_obs:
        H.add_edge(i, j, o=o)
    # the drawn hapto bonds (centre - each attached atom) exist only in the parsed graph: add them to G
    for mk, att in fr["multi"].items():
        for b in fr["bonds"].values():
            if mk in (b["a"], b["b"]):
                c = b["b"] if b["a"] == mk else b["a"]
                for t in att:
                    if c in G and t in G:
                        G.add_edge(c, t, o="hapto")
    ident = {i: k for i, k in enumerate(akeys)}

    def ok(m):   # m: obs index -> key
        return all(G.has_edge(m[i], m[j]) for i, j in H.edges) and H.number_of_edges() == G.number_of_edges()
    if all(H.nodes[i]["el"] == G.nodes[ident[i]]["el"] for i in ident) and ok(ident):
        return ident
    def em(x, y):                       # drawn order token vs parsed bond type name (only to prefer a witness)
        return y["o"] == "hapto" or ORDER_HINT.get(y["o"]) == x["o"] or x["o"] == "Ligand"
    for attr, edge in (("full", em), ("full", None), ("el", em), ("el", None), (None, None)):
        nm = (lambda x, y, attr=attr: x[attr] == y[attr]) if attr else None
        gm = GraphMatcher(H, G, node_match=nm, edge_match=edge)
        try:
            if gm.is_isomorphic():
                return dict(gm.mapping)
        except Exception:
            pass
    return ident


# ------------------------------------------------------------------------------------------------
# the real calls and their abstraction
# ------------------------------------------------------------------------------------------------
class Handle:
    def __init__(self, path):
        from molli.ftypes.cdxml import CDXMLFile
        with warnings.catch_warnings():
            warnings.simplefilter("ignore")
            self.f = CDXMLFile(str(path))

    def keys(self):
        return [k if k is not None else "" for k in self.f.keys()]

    def get(self, label):
        """label: the text of a label, or an integer position in keys() (both are public ways to look a label up)."""
        with warnings.catch_warnings():
            warnings.simplefilter("ignore")
            try:
                return "ok", self.f[label]
            except Exception as e:          # KeyError (no candidate) / SyntaxError (fragment not parsed)
                return type(e).__name__, None

    def n(self):
        return len(self.f)


EDITS = ("addH", "charge", "move", "delatom", "all")


def mutate(mol, kind):
    """What a caller ordinarily does with a molecule it was given -- public calls only.  Returns the edits that were made."""
    done = []

    def attempt(name, fn):
        try:
            with warnings.catch_warnings():
                warnings.simplefilter("ignore")
                fn()
            done.append(name)
        except Exception:
            pass

    def charge():
        mol.atoms[0].formal_charge = (mol.atoms[0].formal_charge or 0) + 1
        mol.charge = mol.charge + 1
    if kind in ("addH", "all"):
        attempt("addH", mol.add_implicit_hydrogens)
    if kind in ("charge", "all"):
        attempt("charge", charge)
    if kind in ("move", "all"):
        attempt("move", lambda: mol.translate([1.0, 2.0, 3.0]))
    if kind in ("delatom", "all"):
        attempt("delatom", lambda: mol.del_atom(mol.atoms[-1]))
    return done


def _order_token(b):
    return b.btype.name


def raw_observation(mol):
    """Public accessors only."""
    atoms = []
    for a in mol.atoms:
        atoms.append({"el": int(a.element.z), "iso": int(a.isotope or 0), "q": int(a.formal_charge or 0),
                      "nrad": int(a.formal_spin or 0), "ap": a.atype.name == "AttachmentPoint"})
    idx = {id(a): i for i, a in enumerate(mol.atoms)}
    bonds = [(idx[id(b.a1)], idx[id(b.a2)], _order_token(b)) for b in mol.bonds]
    return atoms, bonds


def _f2i(x, scale):
    v = float(x) * scale
    return int(round(v)) if abs(v) < 2e9 else (2000000000 if v > 0 else -2000000000)


def observe(mol, drawn, label, guess_fids):
    """-> (R, aux).  R has the record shape of Cdxml.tla's results; aux keeps what the relation events need."""
    import numpy as np
    atoms, bonds = raw_observation(mol)
    best = None
    for fid in guess_fids:
        fr = drawn["frags"][fid]
        w = _witness(fr, atoms, bonds)
        akeys, edges = _expand(fr)
        score = sum(1 for i, k in w.items() if k in fr["nodes"] and _el(fr["nodes"][k]) == atoms[i]["el"]) \
            - abs(len(akeys) - len(atoms)) * 5
        exact = len(akeys) == len(atoms) and score == len(atoms)
        if best is None or score > best[0]:
            best = (score, fid, w)
        if exact:
            break
    _, fid, w = best
    fr = drawn["frags"][fid]
    akeys, edges = _expand(fr)
    byends = {}
    for bk, (a, b, o, d) in edges.items():
        byends.setdefault(frozenset((a, b)), []).append(bk)
    Ratoms = {w[i]: a for i, a in enumerate(atoms)}
    Rbonds, extra = {}, 0
    for (i, j, o) in bonds:
        ks = byends.get(frozenset((w[i], w[j])), [])
        if ks:
            bk = ks.pop(0)
        else:
            extra += 1
            bk = f"+{extra}"
        Rbonds[bk] = {"a": w[i], "b": w[j], "ord": o}
    coords = np.asarray(mol.coords, dtype=float)
    ic = [[_f2i(v, 1e6) for v in row] for row in coords]
    cdig = hashlib.sha1(json.dumps([sorted(Ratoms.items()), sorted(Rbonds.items()), int(mol.charge), int(mol.mult)],
                                   sort_keys=True, default=str).encode()).hexdigest()[:12]
    gdig = hashlib.sha1(json.dumps(ic).encode()).hexdigest()[:12]
    R = {"fid": fid, "atoms": Ratoms, "bonds": Rbonds, "charge": int(mol.charge), "mult": int(mol.mult),
         "natoms": len(atoms), "nbonds": len(bonds), "cdig": cdig, "gdig": gdig}
    nbrs = {}
    for (i, j, o) in bonds:
        nbrs.setdefault(i, set()).add(j)
        nbrs.setdefault(j, set()).add(i)
    aux = {"w": w, "coords": coords, "nbrs": nbrs}
    return R, aux


def volumes(aux_base, aux_var, keymap):
    """Signed volumes (1e-3 A^3) of every neighbour triple of every centre with >= 3 neighbours, for the base model
    and the variant model, keyed by BASE node keys.  keymap: variant key -> base key."""
    import numpy as np
    kb = {k: i for i, k in aux_base["w"].items()}                       # base key -> base index
    kv = {keymap.get(k, k): i for i, k in aux_var["w"].items()}         # base key -> variant index
    out = []
    for k, i in sorted(kb.items()):
        nb = sorted(aux_base["w"][j] for j in aux_base["nbrs"].get(i, ()))
        if len(nb) < 3 or k not in kv:
            continue
        iv = kv[k]
        nbv = sorted(keymap.get(aux_var["w"][j], aux_var["w"][j]) for j in aux_var["nbrs"].get(iv, ()))
        if nb != nbv or any(n not in kv for n in nb):
            continue                                                   # constitution differs: reported by that clause
        c0, c1 = aux_base["coords"], aux_var["coords"]
        if len(nb) == 3:
            # three neighbours: pyramidality of the centre (side on which the centre sits)
            groups = [tuple(nb)]
            def vol(c, ci, idx, g):
                return _f2i(np.linalg.det(np.array([c[idx[t]] - c[ci] for t in g])), 1e3)
        else:
            # four or more neighbours: orientation of every neighbour tetrahedron (independent of the centre's position)
            groups = list(itertools.combinations(nb, 4))
            def vol(c, ci, idx, g):
                p0 = c[idx[g[0]]]
                return _f2i(np.linalg.det(np.array([c[idx[t]] - p0 for t in g[1:]])), 1e3)
        for g in groups:
            out.append({"c": k, "cv": aux_var["w"][iv], "t": list(g), "v0": vol(c0, i, kb, g), "v1": vol(c1, iv, kv, g)})
    return out


# ------------------------------------------------------------------------------------------------
# variants
# ------------------------------------------------------------------------------------------------
def _fmt(d: Decimal):
    return f"{d:.2f}"


def make_variant(src, dst, kinds, rnd: random.Random):
    """Write a transformed copy of `src` to `dst`.  Returns keymap {variant id -> base id} (identity unless renumbered)."""
    tree = ET.parse(str(src))
    root = tree.getroot()
    keymap = {}
    if "mirror" in kinds:
        for b in root.iter("b"):
            d = b.get("Display")
            if d in MIRROR:
                b.set("Display", MIRROR[d])
    if "translate" in kinds:
        dx, dy = Decimal(rnd.randint(-2000, 9000)) / 100, Decimal(rnd.randint(-2000, 9000)) / 100
        for page in root.findall("page"):
            for e in page.iter():
                if e is page:
                    continue
                if "p" in e.attrib:
                    x, y = (Decimal(v) for v in e.attrib["p"].split())
                    e.set("p", f"{_fmt(x + dx)} {_fmt(y + dy)}")
                if "BoundingBox" in e.attrib:
                    l, t, r, b = (Decimal(v) for v in e.attrib["BoundingBox"].split())
                    e.set("BoundingBox", f"{_fmt(l + dx)} {_fmt(t + dy)} {_fmt(r + dx)} {_fmt(b + dy)}")
    if "permute" in kinds:
        for page in root.findall("page"):
            for holder in [page] + page.findall("group"):
                kids = list(holder)
                # labels keep their relative order (a redundant label text keeps its first occurrence)
                movable = [i for i, k in enumerate(kids) if k.tag in ("fragment", "group")]
                perm = movable[:]
                rnd.shuffle(perm)
                new = kids[:]
                for i, j in zip(movable, perm):
                    new[i] = kids[j]
                tpos = [i for i, k in enumerate(new) if k.tag == "t"]
                # move the block of labels to a random side of the fragments without reordering them
                if rnd.random() < 0.5:
                    ts = [new[i] for i in tpos]
                    rest = [k for k in new if k.tag != "t"]
                    new = ts + rest if rnd.random() < 0.5 else rest + ts
                for k in kids:
                    holder.remove(k)
                for k in new:
                    holder.append(k)
    if "shuffle" in kinds:
        for fr in root.iter("fragment"):
            kids = list(fr)
            for tag in (("n",) if "nodes" in kinds else ("b",) if "bonds" in kinds else ("n", "b")):
                pos = [i for i, k in enumerate(kids) if k.tag == tag]
                perm = pos[:]
                rnd.shuffle(perm)
                new = kids[:]
                for i, j in zip(pos, perm):
                    new[i] = kids[j]
                kids = new
            for k in list(fr):
                fr.remove(k)
            for k in kids:
                fr.append(k)
    if "renumber" in kinds:
        ids = [e.get("id") for e in root.iter() if e.get("id") is not None]
        uniq = sorted(set(ids), key=lambda s: (len(s), s))
        small = "small" in kinds or "low" in kinds
        pool = list(range(1, len(uniq) + 1)) if small else rnd.sample(range(1000, 900000), len(uniq))
        rnd.shuffle(pool)
        if "low" in kinds:
            # a drawing numbered from 1: ids lie in the range of the atom-number labels a chemist puts on the same
            # drawing; nodes that carry a nested fragment take the numbers shown on atoms of their own fragment first
            taken, first, nums = set(), [], []
            for fr in root.iter("fragment"):
                shown = [n.get("AtomNumber") for n in fr.findall("n") if (n.get("AtomNumber") or "").isdigit()]
                for n in fr.findall("n"):
                    if n.find("fragment") is not None:
                        free = [x for x in shown if x not in taken]
                        if free:
                            taken.add(free[0])
                            first.append(n.get("id"))
                            nums.append(int(free[0]))
            rest = [u for u in uniq if u not in set(first)]
            rnd.shuffle(rest)
            others = [i for i in range(1, len(uniq) + len(nums) + 1) if i not in set(nums)][:len(rest)]
            uniq, pool = first + rest, nums + others
        m = {old: str(new) for old, new in zip(uniq, pool)}
        for e in root.iter():
            if e.get("id") is not None:
                e.set("id", m[e.get("id")])
            for attr in ("B", "E", "SupersededBy", "BracketedObjectIDs"):
                if e.get(attr) is not None and e.get(attr) in m:
                    e.set(attr, m[e.get(attr)])
            for attr in ("Attachments", "CrossingBonds", "BondCircularOrdering", "BondOrdering"):
                if e.get(attr) is not None:
                    e.set(attr, " ".join(m.get(t, t) for t in e.get(attr).split()))
        keymap = {new: old for old, new in m.items()}
    tree.write(str(dst), encoding="UTF-8", xml_declaration=True)
    return keymap
