"""Adapter / abstraction functions for C16 (HAdd.tla): spec actions -> real add_implicit_hydrogens().

Everything here only BUILDS inputs, CALLS the real code and MEASURES (integers in uA / mA / 1e-3):
what is allowed is decided by TLC from HAdd.tla (graph edges of MCHAdd, trace validation by HAddTrace).

Abstraction (documented tolerances, DESIGN 7):
  pos   existing atoms: coordinates in uA (traces) / index token when bit-identical to the built ones (replay)
  off   distance (mA) between an atom and the centroid of its neighbours before the call; for exactly
        three neighbours the distance between the atom and the plane through them (cross product)
  d     distance (uA) between a new atom and the existing atom it is bonded to
  cos   1000*cos of the angle between (new atom - centre) and (centroid of the centre's neighbours
        before the call - centre); 0 when the centre had no neighbours
  new atoms are renumbered canonically (by bonded centre, then by position in the atom list), new
  bonds are listed as (lower index, higher index, type) in that order: the property leaves the order free."""
from __future__ import annotations
import math, warnings
import numpy as np

# thresholds, handed to TLC as CONSTANTS and used for the class tokens of the graph replay
TOL_D = 3000        # uA   = 0.003 A on |H-centre| (the 2-H branch of molli is off by 5e-5 relative)
COS_AWAY = 30       # 1e-3 : away <= -0.03, towards >= +0.03
OFF_MIN = 100       # mA   : below = degenerate (flat / collinear) neighbourhood
CONSTANTS = {"TolD": TOL_D, "CosAway": COS_AWAY, "OffMin": OFF_MIN}

RCOV = {"H": 0.32, "B": 0.85, "C": 0.75, "N": 0.71, "O": 0.63, "F": 0.64, "Na": 1.55, "Si": 1.16, "P": 1.11,
        "S": 1.03, "Cl": 0.99, "Br": 1.14, "I": 1.33, "Pd": 1.20, "Li": 1.33, "Cu": 1.12, "Zn": 1.18, "Fe": 1.16}


def _ml():
    import molli.chem as mc
    return mc


def uA(x):
    return int(round(float(x) * 1e6))


def sym(a):
    return a.element.symbol if a.element is not None else "X"


# ------------------------------------------------------------------------------------------------
# measuring

def snapshot(m):
    """Atoms, bonds, coordinates, charges of a Structure/Molecule through public accessors."""
    atoms, coords = list(m.atoms), np.array(m.coords, dtype=float)
    q = getattr(m, "atomic_charges", None)
    idx = {id(a): i for i, a in enumerate(atoms)}
    recs = []
    for i, a in enumerate(atoms):
        fin = bool(i < len(coords) and np.isfinite(coords[i]).all())
        qi = 0
        if q is not None and i < len(q) and q[i] is not None:
            try:
                qi = int(round(float(q[i]) * 1000)) if math.isfinite(float(q[i])) else 0
            except (TypeError, ValueError):
                qi = 0
        recs.append({"el": sym(a), "fc": int(a.formal_charge or 0), "sp": int(a.formal_spin or 0),
                     "ty": "cc" if a.atype.name == "CoordinationCenter" else ("reg" if a.atype.name == "Regular" else a.atype.name),
                     "lbl": "" if a.label is None else str(a.label), "iso": int(a.isotope or 0),
                     "pos": [uA(c) for c in coords[i]] if fin else [0, 0, 0], "q": qi, "_fin": fin})
    bonds = []
    for b in m.bonds:
        bonds.append({"a": idx.get(id(b.a1), -1) + 1, "b": idx.get(id(b.a2), -1) + 1, "bt": b.btype.name})
    return {"atoms": recs, "bonds": bonds, "coords": coords, "n_coords": len(coords),
            "n_q": None if q is None else len(q)}


def neighbours(bonds, i):
    """1-based neighbour indices of atom i (one entry per bond)."""
    return [(b["b"] if b["a"] == i else b["a"]) for b in bonds if b["a"] == i or b["b"] == i]


def offsets(snap):
    """off[i] in mA (see module docstring)."""
    X, out = snap["coords"], []
    for i in range(1, len(snap["atoms"]) + 1):
        nb = sorted(set(neighbours(snap["bonds"], i)) - {i})
        if not nb:
            out.append(0)
            continue
        P = np.array([X[j - 1] for j in nb])
        cent = P.mean(axis=0) - X[i - 1]
        if len(nb) == 3:
            n = np.cross(P[1] - P[0], P[2] - P[0])
            ln = np.linalg.norm(n)
            val = 0.0 if ln < 1e-9 else abs(float(np.dot(n / ln, cent)))
        else:
            val = float(np.linalg.norm(cent))
        out.append(min(100000, int(round(val * 1000))) if math.isfinite(val) else 0)
    return out


def public(rec):
    return {k: v for k, v in rec.items() if not k.startswith("_")}


def canonical(pre, raw):
    """The molecule after a call in CANONICAL numbering (the property leaves the order of what is new free):
    atoms and bonds that existed before keep the canonical position / endpoint order they had in `pre`
    (located by their raw position in the molecule's lists: existing entries must not move), atoms that appeared
    follow, ordered by (bonded centre, raw position); bonds that appeared follow as (lower, higher, type).
    `amap` / `bmap` remember raw position -> canonical position (and endpoint flip) for the next call."""
    amap0 = pre.get("amap") or list(range(1, len(pre["atoms"]) + 1))
    bmap0 = pre.get("bmap") or [(k, False) for k in range(len(pre["bonds"]))]
    n0, nb0 = len(amap0), len(bmap0)
    A, B = raw["atoms"], raw["bonds"]
    keep = min(n0, len(A))
    amap = list(amap0[:keep]) + [0] * (len(A) - keep)

    def centre(j):                               # canonical index of the lowest existing atom bonded to raw atom j
        ex = [amap[x - 1] for x in neighbours(B, j) if 1 <= x <= keep]
        return min(ex) if ex else 0
    order = sorted(range(keep + 1, len(A) + 1), key=lambda j: (centre(j) or 10 ** 9, j))
    for k, j in enumerate(order):
        amap[j - 1] = n0 + 1 + k
    inv = sorted(range(len(A)), key=lambda r: amap[r])            # canonical order -> raw position
    ren = lambda x: amap[x - 1] if 1 <= x <= len(amap) else 0
    old = [None] * min(nb0, len(B))
    for p in range(min(nb0, len(B))):
        pos, flip = bmap0[p]
        a, b = ren(B[p]["a"]), ren(B[p]["b"])
        if pos < len(old):
            old[pos] = {"a": b if flip else a, "b": a if flip else b, "bt": B[p]["bt"]}
    old = [x for x in old if x is not None]
    newb = sorted(((min(ren(b["a"]), ren(b["b"])), max(ren(b["a"]), ren(b["b"])), b["bt"], ren(b["a"]) > ren(b["b"]), p)
                   for p, b in enumerate(B) if p >= nb0), key=lambda t: (t[1], t[0], t[2], t[4]))
    bmap = list(bmap0[:len(B)]) + [None] * max(0, len(B) - nb0)
    for k, t in enumerate(newb):
        bmap[t[4]] = (nb0 + k, t[3])
    X = raw["coords"]
    coords = np.array([X[r] if r < len(X) else [np.nan] * 3 for r in inv]) if len(A) else np.zeros((0, 3))
    return {"atoms": [A[r] for r in inv], "bonds": old + [{"a": t[0], "b": t[1], "bt": t[2]} for t in newb],
            "coords": coords, "n_coords": raw["n_coords"], "n_q": raw["n_q"], "amap": amap, "bmap": bmap}


def measure_call(pre, post):
    """Measured placement of every atom that appeared (pre, post: canonical snapshots)."""
    n0 = len(pre["atoms"])
    A, B = post["atoms"], post["bonds"]
    X0, X1 = pre["coords"], post["coords"]
    newh = []
    for j in range(n0 + 1, len(A) + 1):
        ex = [x for x in neighbours(B, j) if 1 <= x <= n0]
        c = min(ex) if ex else 0
        rec = {"c": c, "d": 0, "fin": bool(A[j - 1]["_fin"]), "cos": 0, "bt": "", "atom": public(A[j - 1])}
        if c:
            rec["bt"] = next(b["bt"] for b in B if {b["a"], b["b"]} == {c, j})
            if rec["fin"]:
                v = X1[j - 1] - X1[c - 1]
                dist = float(np.linalg.norm(v))
                rec["d"] = min(uA(dist), 2 * 10 ** 9) if math.isfinite(dist) else 0
                nb = sorted(set(neighbours(pre["bonds"], c)) - {c})
                if nb:
                    w = np.array([X0[k - 1] for k in nb]).mean(axis=0) - X0[c - 1]
                    den = dist * np.linalg.norm(w)
                    if den > 1e-12 and math.isfinite(den):
                        rec["cos"] = int(round(1000 * float(np.dot(v, w)) / den))
        newh.append(rec)
    return [public(a) for a in A], B, newh


def mol_event(pre, hints):
    return {"ev": "mol", "atoms": [public(a) for a in pre["atoms"]], "hints": hints, "off": offsets(pre),
            "bonds": pre["bonds"]}


def call(m, pre):
    """The real call + the `addh` trace event.  Returns (event, post snapshot)."""
    out = "ok"
    with warnings.catch_warnings():
        warnings.simplefilter("ignore")
        try:
            m.add_implicit_hydrogens()
        except Exception as e:                       # noqa: BLE001 - any exception is an observation
            out = type(e).__name__
    post = canonical(pre, snapshot(m))
    atoms_after, bonds_after, newh = measure_call(pre, post)
    ev = {"ev": "addh", "out": out, "atoms": atoms_after, "bonds": bonds_after, "newh": newh,
          "aligned": bool(post["n_coords"] == len(post["atoms"]))}
    return ev, post


def query(m, i):
    """The four neighbour / valence accessors for atom i (1-based position in m.atoms)."""
    atoms = list(m.atoms)
    pos = {id(a): k + 1 for k, a in enumerate(atoms)}
    a = atoms[i - 1]
    try:
        nb = [pos.get(id(x), 0) for x in m.connected_atoms(a)]
        n = int(m.n_bonds_with_atom(a))
        if len(list(m.bonds_with_atom(a))) != n:
            n = -1
        bv = float(m.bonded_valence(a))
        return {"ev": "query", "out": "ok", "i": i, "nb": nb, "n": n, "bv2": int(round(2 * bv))}
    except Exception as e:                       # noqa: BLE001
        return {"ev": "query", "out": type(e).__name__, "i": i, "nb": [], "n": 0, "bv2": 0}


def share(m, sub, kind, keep, keepalive):
    """Hand the atom OBJECTS at positions `sub` (1-based) to another container that does not copy them
    (copy_atoms left at its default); the container is kept alive in `keepalive` or dropped at once."""
    import molli.chem as mc
    atoms = list(m.atoms)
    try:
        other = getattr(mc, kind)([atoms[i - 1] for i in sub])
        if keep:
            keepalive.append(other)
        del other
        out = "ok"
    except Exception as e:                       # noqa: BLE001
        out = type(e).__name__
    return {"ev": "share", "out": out, "sub": sorted(sub), "kind": kind, "keep": bool(keep)}


def hints_of(m):
    return [int(a.attrib["__implicit_hydrogens"]) if "__implicit_hydrogens" in a.attrib else -1 for a in m.atoms]


def run_molecule(m, second=True):
    """mol + addh (+ second addh on hint-free molecules) events of one real molecule."""
    hints = hints_of(m)
    pre = snapshot(m)
    evs = [mol_event(pre, hints)]
    e1, post = call(m, pre)
    evs.append(e1)
    if second and all(h < 0 for h in hints) and e1["out"] == "ok":
        e2, _ = call(m, post)
        evs.append(e2)
    return evs


# ------------------------------------------------------------------------------------------------
# building

def rot_to(v, t):
    """Rotation matrix taking unit vector v to unit vector t (Rodrigues; own implementation)."""
    v, t = v / np.linalg.norm(v), t / np.linalg.norm(t)
    c = float(np.dot(v, t))
    if c > 1 - 1e-12:
        return np.eye(3)
    if c < -1 + 1e-12:
        p = np.array([1.0, 0, 0]) if abs(v[0]) < 0.9 else np.array([0, 1.0, 0])
        ax = np.cross(v, p)
        ax /= np.linalg.norm(ax)
        return 2 * np.outer(ax, ax) - np.eye(3)
    ax = np.cross(v, t)
    K = np.array([[0, -ax[2], ax[1]], [ax[2], 0, -ax[0]], [-ax[1], ax[0], 0]])
    return np.eye(3) + K + K @ K * (1 / (1 + c))


TEMPLATE = np.array([[0.9428, 0.0, -0.3333], [-0.4714, 0.8165, -0.3333], [-0.4714, -0.8165, -0.3333]])
GENERIC = rot_to(np.array([0.0, 0, 1]), np.array([0.48, -0.62, 0.62])) @ rot_to(np.array([1.0, 0, 0]), np.array([0.6, 0.64, 0.48]))
CENTRE = np.array([0.137, -0.211, 0.318])


def env_coords(env):
    """Fixed non-degenerate geometry of a case-table row; `ori` puts the direction molli derives from the
    neighbours (mean direction; plane normal for three) generically, along +z or along -z."""
    nb = env["nb"]
    n = len(nb)
    if n == 0:
        return np.array([CENTRE])
    L = [RCOV.get(env["c"], 0.8) + RCOV.get(x["el"], 0.8) + 0.03 * k for k, x in enumerate(nb)]
    P = np.array([TEMPLATE[k] * L[k] for k in range(n)])
    ori = env.get("ori", "gen")
    if ori == "gen":
        return np.vstack([[CENTRE], CENTRE + P @ GENERIC.T])
    # centre at the origin, direction EXACTLY along +z / -z (as in hand-built or z-matrix geometries)
    s = 1.0 if ori == "zup" else -1.0
    if n == 1:
        Q = [[0.0, 0.0, s * L[0]]]
    elif n == 2:
        lm = (L[0] + L[1]) / 2
        a, b = lm * math.sin(math.radians(55)), lm * math.cos(math.radians(55))
        Q = [[a, 0.0, s * b], [-a, 0.0, s * b]]
    else:
        Q = [[0.9428 * L[k] * math.cos(2.0944 * k + 0.3), 0.9428 * L[k] * math.sin(2.0944 * k + 0.3), s * L[k] / 3]
             for k in range(3)]
    return np.vstack([[[0.0, 0.0, 0.0]], np.array(Q)])


def build(atoms, bonds, coords, charges=None, cls="Molecule", hints=None):
    """atoms: [(el, fc, sp)], bonds: [(a, b, btname)] 1-based."""
    mc = _ml()
    objs = [mc.Atom(el, formal_charge=fc, formal_spin=sp) for el, fc, sp in atoms]
    for a, h in zip(objs, hints or []):
        if h is not None and h >= 0:
            a.attrib["__implicit_hydrogens"] = int(h)
    if cls == "Molecule":
        m = mc.Molecule(objs, copy_atoms=False)
        m.atomic_charges = np.array(charges if charges is not None else [0.0] * len(objs), dtype=float)
    else:
        m = mc.Structure(objs, copy_atoms=False)
    m.coords = np.array(coords, dtype=float)
    for a, b, bt in bonds:
        m.append_bond(mc.Bond(objs[a - 1], objs[b - 1], btype=mc.BondType[bt]))
    return m


def build_env(env):
    nb = env["nb"]
    atoms = [(env["c"], env["fc"], env["sp"])] + [(x["el"], 0, 0) for x in nb]
    bonds = [(1, k + 2, x["bt"]) for k, x in enumerate(nb)]
    X = env_coords(env)
    q = [round(0.125 * (i + 1) - 0.3, 3) for i in range(len(atoms))]
    return build(atoms, bonds, X, q, "Molecule", [env["hint"]] + [-1] * len(nb)), X, q


class HAddAdapter:
    """One case-table row on a real Molecule; also records the trace events of what it did."""
    def __init__(self):
        self.m = None
        self.events = []
        self.newh = []
        self.keepalive = []

    def cleanup(self):
        self.m = None
        self.keepalive = []

    def apply(self, act):
        a = act["act"]
        if a == "build":
            self.m, self.X0, self.q0 = build_env(act["env"])
            self.snap = snapshot(self.m)
            self.events = [mol_event(self.snap, hints_of(self.m))]
            self.newh = []
            return {"out": "ok"}
        if a == "addh":
            ev, post = call(self.m, self.snap)
            self.events.append(ev)
            self.snap = post
            self.last = ev
            self.newh = [{"c": h["c"], "fin": h["fin"],
                          "len": "cov" if self._len_ok(h) else "off",
                          "dir": self._dir(h)} for h in ev["newh"]]
            return {"out": ev["out"], "n": len(ev["newh"])}
        if a == "query":
            ev = query(self.m, act["i"])
            self.events.append(ev)
            self.newh = []
            return {"out": ev["out"], "nb": sorted(ev["nb"]), "n": ev["n"] if len(ev["nb"]) == ev["n"] else -1,
                    "bv2": ev["bv2"]}
        if a == "share":
            ev = share(self.m, act["sub"], act["kind"], act["keep"], self.keepalive)
            self.events.append(ev)
            self.snap = snapshot(self.m)             # nothing may have changed: observe() re-reads the molecule
            self.newh = []
            return {"out": ev["out"]}
        if a == "rewire":                           # del_bond + connect: the number of bonds stays
            try:
                b = self.m.bonds[act["k"] - 1]
                keep, bt = b.a2, b.btype
                self.m.del_bond(b)
                self.m.connect(self.m.atoms[act["j"] - 1], keep, btype=bt)
                out = "ok"
            except Exception as e:                  # noqa: BLE001
                out = type(e).__name__
            self.snap = snapshot(self.m)
            self.events.append(mol_event(self.snap, hints_of(self.m)))
            self.newh = []
            return {"out": out}
        raise AssertionError(f"unknown action {a}")

    def _len_ok(self, h):
        el = self.last["atoms"][h["c"] - 1]["el"] if h["c"] else None
        return bool(h["c"]) and el in RCOV and abs(h["d"] - uA(RCOV[el] + RCOV["H"])) <= TOL_D

    def _dir(self, h):
        pre_bonds = next(e for e in reversed(self.events[:-1]) if "bonds" in e)["bonds"]   # the molecule before this call
        if not h["c"] or not neighbours(pre_bonds, h["c"]):
            return "free"
        return "away" if h["cos"] <= -COS_AWAY else ("toward" if h["cos"] >= COS_AWAY else "perp")

    def observe(self):
        """Same shape as MCHAdd!Obs: existing atoms carry index tokens while coordinates / charges are bit-identical
        to what was built and the Atom object is the same; new atoms are 0."""
        s = self.snap
        n0 = len(self.X0)
        atoms_after, bonds = [public(a) for a in s["atoms"]], s["bonds"]      # canonical numbering after a call
        X = s["coords"]
        q = getattr(self.m, "atomic_charges", None)
        out = []
        for i, a in enumerate(atoms_after):
            if i < n0:
                same = i < len(X) and np.array_equal(X[i], self.X0[i])
                qsame = q is not None and i < len(q) and q[i] is not None and float(q[i]) == float(self.q0[i])
                out.append({"el": a["el"], "fc": a["fc"], "sp": a["sp"], "pos": i + 1 if same else -1,
                            "q": i + 1 if qsame else -1})
            else:
                out.append({"el": a["el"], "fc": 0, "sp": 0, "pos": 0, "q": 0})
        return {"atoms": out, "bonds": bonds, "newh": self.newh}
