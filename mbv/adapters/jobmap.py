"""Adapter for JobMap: real jobmap() runs over a small source collection with scripted `sh` commands."""
from __future__ import annotations
import atexit, contextlib, io, json, logging, shutil, tempfile
from pathlib import Path
from ..tlc import WORK

SCRIPT = ('c={ctl}/{name}; n=$(cat $c.count 2>/dev/null || echo 0); n=$((n+1)); echo $n > $c.count; {getver}; '
          'o=$(sed -n ${{n}}p $c.script); if [ -z "$o" ]; then o=$(tail -n 1 $c.script); fi; echo r-$v; '
          'case $o in ok) echo r-$v > out.txt;; omit) ;; killed) echo r-$v > out.txt; kill -9 $$;; *) exit 3;; esac')


def make_jobs(ctl):
    from molli.pipeline.job import Job, JobInput

    class Drv:
        executable = "sh"
        nprocs = 1
        envars = None
        memory = None

        @Job(return_files=("out.txt",)).prep
        def calc(self, obj, ver):
            # the job argument (the version) reaches the program on the command line for some items and ONLY through an
            # input file for the others: a changed argument is a different input either way
            # ... and ONLY through the job's environment for a third group (seeded change C18-k: envars left out of the hash)
            last = str(obj)[-1]
            via_env, via_file = last in "03", last in "2468"
            getver = "v=$MBV_VER" if via_env else "v=$(cat ver.txt)" if via_file else f"v={ver}"
            cmd = "sh -c '" + SCRIPT.format(ctl=ctl, name=obj, getver=getver) + "'"
            # a second command that always succeeds: a failure of the first one must stop the job
            return JobInput(jid=str(obj), commands=[(cmd, "main"), ("sh -c 'exit 0'", None)],
                            files={"note.txt": b"x", "ver.txt": str(ver) if via_file else "-"},
                            return_files=self.return_files, envars={"MBV_VER": str(ver)} if via_env else None)

        @calc.post
        def calc(self, out, obj, ver):
            f = (out.files or {}).get("out.txt")
            return f"{(out.stdouts or {}).get('main', '').strip()}|{f.decode().strip() if f is not None else 'NOFILE'}"

    d = Drv()
    single = d.calc
    vec = Job.vectorize(Drv.__dict__["calc"], name="calcvec")
    vec.reduce(lambda self, results, inp, ver: ";".join(results))
    vec.name = "calcvec"
    vec.executable, vec.nprocs = "sh", 1
    return single, vec


class JobMapAdapter:
    def __init__(self, keys=("m1", "m2"), nsub=1, workers=4):
        from molli.storage import Collection, UkvCollectionBackend
        self.Collection, self.Backend = Collection, UkvCollectionBackend
        WORK.mkdir(exist_ok=True)
        self.dir = Path(tempfile.mkdtemp(prefix="jm-", dir=WORK))
        self.ctl = self.dir / "ctl"; self.ctl.mkdir()
        self.keys, self.nsub, self.workers = list(keys), nsub, workers
        self.ndst = 0
        self.src = self._coll(self.dir / "src.ukv")
        with self.src.writing():
            for k in self.keys:
                self.src[k] = k if nsub == 1 else [f"{k}.{i}" for i in range(nsub)]
        self.dst = self._coll(self.dir / "dst0.ukv")
        self.single, self.vec = make_jobs(self.ctl)
        self.objs = [self.src, self.dst]

    def _coll(self, path):
        c = self.Collection(path, self.Backend, readonly=False, value_encoder=lambda x: json.dumps(x).encode(),
                            value_decoder=lambda b: json.loads(b))
        return c

    def cleanup(self):
        for c in self.objs:
            try:
                atexit.unregister(c._backend.flush)
            except Exception:
                pass
        for name in ("molli.pipeline", "molli.pipeline.jobmap"):
            lg = logging.getLogger(name)
            for h in list(lg.handlers):
                lg.removeHandler(h); h.close()
        shutil.rmtree(self.dir, ignore_errors=True)

    def _names(self, k):
        return [k] if self.nsub == 1 else [f"{k}.{i}" for i in range(self.nsub)]

    def apply(self, act):
        a = act["act"]
        if a == "setup":
            for k in self.keys:
                for i, name in enumerate(self._names(k), start=1):
                    sc = act["script"][k]
                    sc = sc[i - 1] if isinstance(sc, list) and sc and isinstance(sc[0], list) else sc[str(i)] if isinstance(sc, dict) else sc
                    (self.ctl / f"{name}.script").write_text("\n".join(sc) + "\n")
            with self.dst.writing():
                for k in act["pre"]:
                    self.dst[k] = "pre"
            return {"out": "ok"}
        if a == "freshdst":
            self.ndst += 1
            self.dst = self._coll(self.dir / f"dst{self.ndst}.ukv")
            self.objs.append(self.dst)
            return {"out": "ok"}
        if a == "run":
            from molli.pipeline.job import jobmap
            job = self.single if self.nsub == 1 else self.vec
            err = io.StringIO()
            try:
                with contextlib.redirect_stderr(err), contextlib.redirect_stdout(err):
                    jobmap(job, self.src, self.dst, cache_dir=self.dir / "cache", scratch_dir=self.dir / "scratch",
                           n_workers=self.workers, args=(act["ver"],), log_level="critical")
            except Exception as e:
                return {"out": type(e).__name__, "detail": str(e)[:200]}
            return {"out": "ok"}
        raise AssertionError(a)

    def observe(self):
        dst = {}
        with self.dst.reading(timeout=10):
            for k in self.dst.keys():
                v = self.dst[k]
                if v == "pre":
                    dst[k] = 0
                    continue
                parts = v.split(";")
                vers = set()
                ok = len(parts) == self.nsub
                for p in parts:
                    a, _, b = p.partition("|")
                    if a != b or not a.startswith("r-"):
                        ok = False
                    else:
                        vers.add(a[2:])
                dst[k] = int(vers.pop()) if ok and len(vers) == 1 else "bad:" + v
        execs = {}
        for k in self.keys:
            cnt = []
            for name in self._names(k):
                f = self.ctl / f"{name}.count"
                cnt.append(int(f.read_text()) if f.exists() else 0)
            execs[k] = cnt
        residue = sorted(p.name for p in (self.dir / "scratch").glob("*")) if (self.dir / "scratch").exists() else []
        o = {"dst": dst, "execs": execs}
        if residue:
            o["scratch_residue"] = residue
        return o
