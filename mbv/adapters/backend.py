"""Adapter: Backend spec actions -> real molli Collection objects over UkvCollectionBackend."""
from __future__ import annotations
import shutil, tempfile
from pathlib import Path
from ..interp import VALS, HDRS, val_tok, hdr_tok
from ..ukvparse import parse
from ..tlc import WORK
from .ukv import exc_name

SKEYS = {"k1": "k1", "k2": "k2", "k3": "k3", "kBig": "K" * 256, "k255": "L" * 255, "kUni": "é" * 128}
RSKEYS = {v: k for k, v in SKEYS.items()}
BKEYS = {v.encode(): k for k, v in SKEYS.items()}


def skey_tok(s):
    if isinstance(s, bytes):
        return BKEYS.get(s, "?" + s[:8].hex())
    return RSKEYS.get(s, "?" + s[:8])


class BackendAdapter:
    def __init__(self, colls=("c1", "c2"), ro=None, buf=None):
        from molli.storage import Collection, UkvCollectionBackend
        self.Collection, self.Backend = Collection, UkvCollectionBackend
        WORK.mkdir(exist_ok=True)
        self.dir = Path(tempfile.mkdtemp(prefix="bk-", dir=WORK))
        self.path = self.dir / "lib.ukv"
        self.names = list(colls)
        self.ro = ro or {c: False for c in colls}
        self.buf = buf or {c: -1 for c in colls}
        self.c, self.cm = {}, {}

    def cleanup(self):
        for n, cm in list(self.cm.items()):
            try:
                cm.__exit__(None, None, None)
            except Exception:
                pass
        import atexit
        for c in self.c.values():     # do not leave atexit flush callbacks of dead objects behind
            try:
                atexit.unregister(c._backend.flush)
            except Exception:
                pass
        shutil.rmtree(self.dir, ignore_errors=True)

    def apply(self, act):
        a, c = act["act"], act.get("c")
        try:
            if a == "make":
                h1, h2, b0 = HDRS[act["hdr"]]
                kw = {}
                if h1 is not None:
                    kw = dict(h1=h1, comment=h2.decode(), b0=b0)
                self.c[c] = self.Collection(self.path, self.Backend, readonly=self.ro[c], bufsize=self.buf[c], **kw)
            elif a in ("beginw", "beginr"):
                cm = self.c[c].writing(timeout=10) if a == "beginw" else self.c[c].reading(timeout=10)
                cm.__enter__()
                self.cm[c] = cm
            elif a == "end":
                cm = self.cm.pop(c)
                cm.__exit__(None, None, None)
            elif a == "endexc":
                # an exception of the caller's own code leaves the `with` block
                cm = self.cm.pop(c)
                exc = RuntimeError("caller's exception")
                if cm.__exit__(RuntimeError, exc, None):
                    return {"out": "exception swallowed"}
            elif a == "cflush":
                self.c[c].flush()
            elif a == "cput":
                self.c[c][SKEYS[act["k"]]] = VALS[act["v"]]
            elif a == "cget":
                return {"out": "ok", "val": val_tok(self.c[c][SKEYS[act["k"]]])}
            else:
                raise AssertionError(a)
        except AssertionError:
            raise
        except Exception as e:
            return {"out": exc_name(e)}
        return {"out": "ok"}

    def _cobs(self, n):
        c = self.c.get(n)
        if c is None:
            return {"made": False, "st": "idle", "keys": [], "gets": {}}
        st = c._backend._state if n in self.cm else "idle"
        if n not in self.cm:
            return {"made": True, "st": "idle", "keys": [], "gets": {}}
        keys = sorted(skey_tok(k) for k in c.keys())
        gets = {}
        for k in list(c.keys()):
            try:
                gets[skey_tok(k)] = val_tok(c[k])
            except Exception as e:
                gets[skey_tok(k)] = "!" + exc_name(e)
        assert len(c) == len(c.keys())
        # every public way of reading must tell the same story as c[k]: items(), values(), iteration, `in`
        try:
            via_items = {skey_tok(k): val_tok(v) for k, v in c.items()}
        except Exception as e:
            via_items = {"!items": exc_name(e)}
        try:
            via_values = sorted(val_tok(v) for v in c.values())
        except Exception as e:
            via_values = ["!values " + exc_name(e)]
        ok_gets = {k: v for k, v in gets.items() if not v.startswith("!")}
        if len(ok_gets) == len(gets):
            if via_items != gets:
                gets = {"!items() disagrees with []": via_items}
            elif via_values != sorted(gets.values()):
                gets = {"!values() disagrees with []": via_values}
        if sorted(skey_tok(k) for k in iter(c)) != keys or not all(k in c for k in list(c.keys())):
            keys = ["!iteration/contains disagree with keys()"]
        return {"made": True, "st": st, "keys": keys, "gets": gets}

    def observe(self):
        cob = {n: self._cobs(n) for n in self.names}
        writing = any(o["st"] == "writing" for o in cob.values())
        if not self.path.exists():
            fo = {"exists": False, "hdr": "none", "recs": []}
        elif writing:
            fo = {"exists": True, "hdr": None, "recs": None}
        else:
            p = parse(self.path.read_bytes())
            fo = {"exists": True, "hdr": hdr_tok(p["h1"], p["h2"], p["b0"]),
                  "recs": sorted([skey_tok(k), val_tok(v)] for k, v in p["recs"])}
            if p["junk"]:
                fo["junk"] = p["junk"]
        return {**fo, "c": cob}
