"""C09 lab + adapter: Dispatch spec actions -> real ml.load / loads / load_all / loads_all / dump / dumps calls.

Interpretation (abstract cell -> concrete arguments), the real call, abstraction of what came back (shape,
class, count, does it equal field-wise what the class method NAMED BY THE SPEC returns on the same input,
is the name override visible), and tokenization of file / stream contents into the class-level texts
<<object, format>>.  Which class method, which shape, which error class, what a target must hold afterwards:
decided by TLC from Dispatch.tla, never here."""
from __future__ import annotations
import io, shutil, tempfile, warnings
from pathlib import Path
from ..tlc import WORK

NEWNAME = "renamed_by_caller"
REAL_FMT = {"sdf": "sdf", "zzz": "zzz", "cdxml": "cdxml", "xyz": "xyz", "mol2": "mol2"}
CLASSES = ("Molecule", "ConformerEnsemble", "Structure")


def _r6(x):
    x = float(x)
    return int(round(x * 1e6)) if x == x and abs(x) != float("inf") else str(x)      # NaN == NaN here


def digest(o, with_name=True):
    """Field-wise value of a Molecule / Structure / ConformerEnsemble through public accessors."""
    d = {"cls": type(o).__name__}
    if with_name:
        d["name"] = getattr(o, "name", None)
    d["els"] = [int(a.element) for a in o.atoms]
    d["labels"] = [a.label for a in o.atoms]
    d["fc"] = [(a.formal_charge, a.formal_spin, a.isotope) for a in o.atoms]
    idx = {id(a): i for i, a in enumerate(o.atoms)}
    d["bonds"] = [(idx.get(id(b.a1)), idx.get(id(b.a2)), float(b.order) if hasattr(b, "order") else None,
                   str(getattr(b, "btype", None))) for b in getattr(o, "bonds", [])]
    c = o.coords
    d["coords"] = [[_r6(v) for v in row] for row in c.reshape(-1, 3)]
    d["shape"] = list(c.shape)
    for k in ("charge", "mult"):
        d[k] = getattr(o, k, None)
    ch = getattr(o, "atomic_charges", None)
    if ch is not None:
        try:
            d["q"] = [int(round(float(v) * 1e4)) for v in ch.reshape(-1)]
        except Exception:
            d["q"] = "?"
    return d


class DispatchLab:
    def __init__(self, seed=0, extra_objs=0):
        import molli as ml
        self.ml = ml
        warnings.simplefilter("ignore")
        WORK.mkdir(exist_ok=True)
        self.dir = Path(tempfile.mkdtemp(prefix="c09-", dir=WORK))
        R = ml.files.ROOT
        self.docs = {}
        for did, src, name in (("x1", "dendrobine.xyz", "x1.xyz"), ("xk", "pentane_confs.xyz", "xk.xyz"),
                               ("xdat", "pentane_confs.xyz", "xdat.zzz"), ("m1", "dendrobine.mol2", "m1.mol2"),
                               ("mk", "pentane_confs.mol2", "mk.mol2"), ("c1", "parser_demo.cdxml", "c1.cdxml"),
                               ("c2", "BOX_cores.cdxml", "c2.cdxml"),
                               ("u", "dendrobine.mol", "u.sdf")):
            p = self.dir / name
            shutil.copyfile(R / src, p)
            self.docs[did] = p
        self.objs = {"mol": ml.Molecule.load_mol2(R / "dendrobine.mol2"),
                     "ens": ml.ConformerEnsemble.load_mol2(R / "pentane_confs.mol2")}
        self.facts = {"NEns": self.objs["ens"].n_conformers,
                      "NXk": self._count_xyz_frames(self.docs["xk"].read_text()),
                      "NMk": self.docs["mk"].read_text().count("@<TRIPOS>MOLECULE"),
                      "NCdx": self._count_cdxml_fragments(self.docs["c1"])}
        self.facts["NCdx2"] = self._count_cdxml_fragments(self.docs["c2"])
        for d, k in (("c1", "NCdx"), ("c2", "NCdx2")):
            if self.facts[k] != len(ml.CDXMLFile(self.docs[d]).keys()):
                raise RuntimeError("bundled cdxml document: number of top-level fragments differs from the number of labels")
        self.generated(seed, extra_objs)
        self._texts = None
        self._n = 0
        self._refs = {}

    @staticmethod
    def _count_xyz_frames(text):
        from .xyztext import Lab as XLab
        lines, _ = XLab.tokenize_xyz(None, text, None)          # the harness's independent xyz tokenizer
        return sum(1 for ln in lines if ln["k"] == "count")

    @staticmethod
    def _count_cdxml_fragments(path):
        import xml.etree.ElementTree as et                      # independent count of the drawn top-level fragments
        root = et.parse(path).getroot()
        return len(root.findall("./page/fragment") + root.findall("./page/group/fragment"))

    def generated(self, seed, extra_objs):
        """Generated inputs: a multi-xyz / multi-mol2 document holding several DIFFERENT molecules, and (for the
        trace histories) more objects to dump."""
        import random
        from .xyztext import Lab as XLab
        rnd = random.Random(seed * 31 + 9)
        xl = XLab.__new__(XLab)
        xl.ml, xl.Element, xl.AtomType = self.ml, self.ml.chem.Element, self.ml.chem.AtomType
        xl.cls = {"Molecule": self.ml.Molecule}

        def mol(n, name):
            fr = [{"el": rnd.choice(("C", "H", "N", "O", "S")), "x": {"u": rnd.randint(-9_000_000, 9_000_000), "s": 0},
                   "y": {"u": rnd.randint(-9_000_000, 9_000_000), "s": 0}, "z": {"u": rnd.randint(-9_000_000, 9_000_000), "s": 0}}
                  for _ in range(n)]
            return xl._one(self.ml.Molecule, fr, name)
        mols = [mol(rnd.randint(1, 6), f"gen{i}") for i in range(4)]
        (self.dir / "xh.xyz").write_text("".join(m.dumps_xyz() for m in mols))
        (self.dir / "mh.sdf").write_text("".join(m.dumps_mol2() for m in mols))
        self.docs["xh"], self.docs["mh"] = self.dir / "xh.xyz", self.dir / "mh.sdf"
        self.facts["NXh"] = len(mols)
        for i in range(extra_objs):
            if i % 2 == 0:
                self.objs[f"g{i}"] = mol(rnd.randint(1, 8), f"obj{i}")
            else:
                n = rnd.randint(1, 5)
                base = mol(n, f"obj{i}")
                confs = []
                for _ in range(rnd.randint(1, 4)):
                    m = self.ml.Molecule(base)
                    m.coords = base.coords + rnd.random()
                    confs.append(m)
                self.objs[f"g{i}"] = self.ml.ConformerEnsemble(confs)

    def cleanup(self):
        shutil.rmtree(self.dir, ignore_errors=True)

    # ---- class-level texts and tokenization ----------------------------------------------------------
    def texts(self):
        if self._texts is None:
            t = {}
            for oid, o in self.objs.items():
                t[(oid, "xyz")] = o.dumps_xyz()
                t[(oid, "mol2")] = o.dumps_mol2()
            self._texts = sorted(t.items(), key=lambda kv: -len(kv[1]))
        return self._texts

    def tokenize(self, content: str):
        toks, i = [], 0
        while i < len(content):
            for (oid, fmt), txt in self.texts():
                if txt and content.startswith(txt, i):
                    toks.append([oid, fmt])
                    i += len(txt)
                    break
            else:
                toks.append(["?", content[i:i + 24]])
                break
        return toks

    def obj_table(self):
        t = {}
        for oid, o in self.objs.items():
            ens = type(o).__name__ == "ConformerEnsemble"
            t[oid] = {"kind": type(o).__name__, "recs": o.n_conformers if ens else 1, "cid": oid}
        return t

    # ---- the calls -----------------------------------------------------------------------------------
    def _otype(self, ot):
        return ot if ot in ("molecule", "ensemble") else getattr(self.ml, ot)

    def _cls(self, ot):
        return getattr(self.ml, {"molecule": "Molecule", "ensemble": "ConformerEnsemble"}.get(ot, ot))

    def route_result(self, route, path, text, src, fmt, otype, named, key):
        """What the class-level codec returns on the same input."""
        ml = self.ml
        kw = {"name": NEWNAME} if named else {}
        if route.startswith("CDXMLFile"):
            cls = self._cls(otype)
            cdx = ml.CDXMLFile(path)
            if route == "CDXMLFile.key":
                return cls(cdx[key])
            return [cls(cdx[k]) for k in cdx.keys()]
        cname, meth = route.split(".")
        fn = getattr(getattr(ml, cname), meth)
        arg = text if src == "text" else (str(path) if src == "str" else Path(path))
        return fn(arg, **kw)

    def compare(self, route, got, ref, named):
        if route == "CDXMLFile.one":                     # the file's first drawn fragment: one of its molecules
            return any(digest(got, False) == digest(r, False) for r in ref)
        if route == "CDXMLFile.all":                     # every labelled molecule of the file is in the list
            if not isinstance(got, list):
                return False
            have = [digest(g, False) for g in got]
            return all(digest(r, False) in have for r in ref)
        if route == "CDXMLFile.key":
            return digest(got, not named) == digest(ref, not named)
        if isinstance(got, list) != isinstance(ref, list):
            return False
        if isinstance(got, list):
            return [digest(g) for g in got] == [digest(r) for r in ref]
        return digest(got) == digest(ref)

    def describe(self, r, named):
        if isinstance(r, list):
            names = sorted({type(o).__name__ for o in r})
            d = {"shape": "list", "cls": names[0] if len(names) == 1 else ("|".join(names) or "empty"), "count": len(r)}
            objs = r
        else:
            cn = type(r).__name__
            d = {"shape": "object", "cls": cn, "count": r.n_conformers if cn == "ConformerEnsemble" else 1}
            objs = [r]
        d["nameok"] = all(getattr(o, "name", None) == NEWNAME for o in objs) if named else True
        return d

    def load(self, fn, path, fmt, src, otype, named, key=None, routes=()):
        """ml.<fn>(...) -> outcome; `routes`: class-level routes to compare with (results in 'agree')."""
        ml = self.ml
        path = Path(path)
        text = path.read_text() if src == "text" else None
        kw = {"otype": self._otype(otype)}
        if named:
            kw["name"] = NEWNAME
        if key is not None:
            kw["key"] = key
        try:
            if src == "text":
                r = getattr(ml, fn)(text, fmt, **kw)
            else:
                arg = str(path) if src == "str" else path
                r = getattr(ml, fn)(arg, fmt, **kw) if fmt is not None else getattr(ml, fn)(arg, **kw)
        except ValueError as e:
            return {"out": "ValueError", "exc": str(e)[:80]}
        except Exception as e:
            return {"out": "raises", "exc": f"{type(e).__name__}: {e}"[:120]}
        o = {"out": "ok", **self.describe(r, named)}
        agree = []
        for rt in routes:
            try:
                # the class-level result on identical input is a function of (route, file content, source kind,
                # name, key, class): computed once per distinct argument tuple
                ck = (rt, hash(path.read_bytes()), path.suffix, src, named, key, self._cls(otype).__name__)
                if ck not in self._refs:
                    self._refs[ck] = self.route_result(rt, path, text, src, fmt, otype, named, key)
                ref = self._refs[ck]
                if self.compare(rt, r, ref, named):
                    agree.append(rt)
            except Exception as e:
                o.setdefault("route_errors", []).append(f"{rt}: {type(e).__name__}")
        o["agree"] = agree
        return o

    def candidate_routes(self, fn, fmt):
        """Every class-level route an entry point could conceivably have taken (for the trace events)."""
        if fmt == "cdxml":
            return ["CDXMLFile.one", "CDXMLFile.key", "CDXMLFile.all"]
        fns = ("load", "load_all") if fn in ("load", "load_all") else ("loads", "loads_all")
        out = []
        for c in CLASSES:
            for f in fns:
                if hasattr(getattr(self.ml, c), f"{f}_{fmt}"):
                    out.append(f"{c}.{f}_{fmt}")
        return out


class DispatchAdapter:
    """replay adapter for the MCDispatch graph.  stream_kind: 'stringio' | 'file' (a file the caller opened)."""

    def __init__(self, lab: DispatchLab, paths, streams=("s",), stream_kind="stringio", srcpaths=None):
        self.lab = lab
        lab._n += 1
        self.dir = lab.dir                                  # one directory; every run has its own file names
        tag = f"r{lab._n}_"
        self.paths = {p: self.dir / f"{tag}{p}.{suf}" for p, suf in paths.items()}
        # source paths whose document is replaced between loads (same path, new content)
        self.srcp = {sp: self.dir / f"{tag}{sp}.{suf}" for sp, suf in (srcpaths or {}).items()}
        self.kind = stream_kind
        self.spath = {s: self.dir / f"{tag}stream_{s}.txt" for s in streams}
        self.streams = {}
        for s in streams:
            self.streams[s] = io.StringIO() if stream_kind == "stringio" else open(self.spath[s], "w+")
        self.changed = True

    def cleanup(self):
        for s in self.streams.values():
            try:
                s.close()
            except Exception:
                pass
        for p in list(self.paths.values()) + list(self.spath.values()) + list(self.srcp.values()):
            try:
                p.unlink()
            except FileNotFoundError:
                pass

    def _fmt(self, fmtarg, doc=None):
        if fmtarg in ("suffix", "none"):
            return None
        if fmtarg == "content":
            return {"x1": "xyz", "xk": "xyz", "xdat": "xyz", "xh": "xyz", "m1": "mol2", "mk": "mol2", "mh": "mol2",
                    "c1": "cdxml", "c2": "cdxml", "u": "sdf"}[doc]
        return REAL_FMT[fmtarg]

    def second_key(self, path):
        return list(self.lab.ml.CDXMLFile(path).keys())[1]

    def apply(self, act):
        a, lab = act["act"], self.lab
        self.changed = a in ("dump", "replace")
        if a == "replace":
            shutil.copyfile(lab.docs[act["doc"]], self.srcp[act["sp"]])      # rewrite the file in place
            return {"out": "ok"}
        if a in ("load", "loadback", "loadsrc"):
            if a == "loadsrc":
                path, src = self.srcp[act["sp"]], act["src"]
                cur = self.current_doc(act["sp"])
                fmt = self._fmt(act["fmtarg"], cur)
                key = self.second_key(path) if act["keyed"] else None
            elif a == "load":
                path, fmt, src = lab.docs[act["doc"]], self._fmt(act["fmtarg"], act["doc"]), act["src"]
                key = self.second_key(path) if act["keyed"] else None
            else:
                path, fmt, src, key = self.paths[act["tgt"]], act["fmt"], "str", None
            routes = [act["route"]] if "route" in act else []
            o = lab.load(act["fn"], path, fmt, src, act["otype"], act["named"], key, routes)
            if o["out"] == "ok":
                o["agrees"] = bool(routes) and routes[0] in o.pop("agree")
                o["route"] = routes[0] if routes else "?"
                if o.get("route_errors"):
                    o["out"] = "route-error"
            return o
        if a == "dump":
            obj = lab.objs[act["obj"]]
            if act["tkind"] == "stream":
                tgt = self.streams[act["tgt"]]
            else:
                tgt = str(self.paths[act["tgt"]]) if act["tkind"] == "str" else Path(self.paths[act["tgt"]])
            args = [obj, tgt]
            fmt = self._fmt(act["fmtarg"])
            if fmt is not None:
                args.append(fmt)
            kw = {} if act["mode"] == "default" else {"mode": act["mode"]}
            try:
                r = lab.ml.dump(*args, **kw)
            except ValueError as e:
                return {"out": "ValueError", "exc": str(e)[:80]}
            except Exception as e:
                return {"out": "raises", "exc": f"{type(e).__name__}: {e}"[:120]}
            return {"out": "ok"}
        if a == "dumps":
            try:
                r = lab.ml.dumps(lab.objs[act["obj"]], self._fmt(act["fmtarg"]))
            except ValueError as e:
                return {"out": "ValueError", "exc": str(e)[:80]}
            except Exception as e:
                return {"out": "raises", "exc": f"{type(e).__name__}: {e}"[:120]}
            return {"out": "ok", "val": lab.tokenize(r) if isinstance(r, str) else [["?", type(r).__name__]]}
        raise AssertionError(f"unknown action {a}")

    def current_doc(self, sp):
        """Which document the source path holds now (by content)."""
        p = self.srcp[sp]
        if not p.exists():
            return None
        b = p.read_bytes()
        for d, dp in self.lab.docs.items():
            if dp.suffix == p.suffix and dp.read_bytes() == b:
                return d
        return "?"

    def state(self):
        files = {}
        for p, path in self.paths.items():
            files[p] = {"exists": True, "content": self.lab.tokenize(path.read_text())} if path.exists() \
                else {"exists": False, "content": []}
        streams = {}
        for s, st in self.streams.items():
            if st.closed:
                content = [["?", "closed"]] if self.kind == "stringio" else self.lab.tokenize(self.spath[s].read_text())
                streams[s] = {"open": False, "content": content}
            else:
                if self.kind == "stringio":
                    txt = st.getvalue()
                else:
                    st.flush()
                    txt = self.spath[s].read_text()
                streams[s] = {"open": True, "content": self.lab.tokenize(txt)}
        return {"files": files, "streams": streams, "srcs": {sp: self.current_doc(sp) or "none" for sp in self.srcp}}

    def observe(self):
        return self.state() if self.changed else None
