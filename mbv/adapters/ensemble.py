"""Adapter for C14: Ensemble.tla actions -> real molli ConformerEnsemble / Conformer objects.

Abstraction (the only place where floats are touched): coordinates <-> integers in `cunit` micro-Angstrom
(model checking: 0.25 A per unit, exact in float32; trace validation: 1 micro-Angstrom), partial charges
and weights <-> integers in 1e-3.  NaN / unreadable values become the sentinel NAN (the model never
produces it), a row that cannot be read at all becomes [].  Everything is read through public accessors:
ens.coords / .atomic_charges / .weights / .n_atoms / .n_bonds, ens[i], iter(ens), the dump functions
(text re-parsed here, independently of molli's readers) and the library codec of molli/chem/io.py."""
from __future__ import annotations
import math, random
import numpy as np

NAN = 2000000000
ELEMENTS = ("C", "N", "O", "S", "P", "F", "Cl", "Br", "B", "Si")


def _int(r):
    """round an already scaled float to the integer the specification works with"""
    r = float(r)
    if math.isnan(r) or math.isinf(r) or abs(r) >= NAN:
        return NAN
    return int(round(r))


class EnsembleAdapter:
    """apply(act) performs the real call(s) of one spec action; observe() returns the spec's Obs."""

    def __init__(self, cunit=250000, seed=0, iters=("i1",)):
        import molli as ml
        from molli.chem import Molecule, ConformerEnsemble, Atom
        from molli.chem import io as mio
        import msgpack
        self.ml, self.Molecule, self.CE, self.Atom, self.mio, self.msgpack = ml, Molecule, ConformerEnsemble, Atom, mio, msgpack
        self.cunit = cunit
        self.e = None
        self.src = None                       # the ensemble self.e was copy-constructed from (kept alive, observed)
        self.its = {}
        self.held = {}                        # iterator -> the conformers it yielded so far (kept, re-read at every step)
        self.iters = tuple(iters)
        self.views = {}
        self.rnd = random.Random(seed)

    def cleanup(self):
        self.e, self.src, self.its, self.views, self.held = None, None, {}, {}, {}

    # ---- abstraction -------------------------------------------------------------------------
    def cf(self, rows):                       # spec coordinates -> float array (Angstrom)
        return np.array(rows, dtype=float) * (self.cunit / 1e6)

    def row(self, row):                       # one coordinate row (also of a conformer without atoms) -> (na, 3)
        return self.cf(row).reshape((len(row), 3))

    def rows(self, X):                        # all coordinate rows -> (n, na, 3)
        return self.cf(X).reshape((len(X), len(X[0]) if len(X) else 0, 3))

    def qrows(self, X):                       # all charge rows -> (n, na)
        return self.qf(X).reshape((len(X), len(X[0]) if len(X) else 0))

    @staticmethod
    def qf(rows):                             # spec charges / weights -> floats
        return np.array(rows, dtype=float) / 1e3

    def ci(self, arr):                        # float coordinates (..., 3) -> nested ints
        a = np.asarray(arr, dtype=float)
        if a.ndim == 1:
            return [_int(x * 1e6 / self.cunit) for x in a]
        return [self.ci(x) for x in a]

    def qi(self, arr):
        a = np.asarray(arr, dtype=float)
        if a.ndim == 0:
            return _int(a * 1e3)
        return [self.qi(x) for x in a]

    # ---- building arguments ------------------------------------------------------------------
    def mol(self, m):
        na = int(m["na"])
        atoms = [self.Atom(ELEMENTS[j % len(ELEMENTS)], label=f"{ELEMENTS[j % len(ELEMENTS)]}{j + 1}") for j in range(na)]
        mol = self.Molecule(atoms, n_atoms=na, name="mbv", coords=self.cf(m["g"]).reshape((na, 3)),
                            atomic_charges=self.qf(m["q"]).reshape((na,)))
        for j in range(int(m.get("nb", 0))):
            mol.connect(atoms[j], atoms[j + 1])
        return mol

    def ens_from(self, o):
        na, n = int(o["na"]), len(o["C"])
        ms = [self.mol({"na": na, "nb": o.get("nb", 0), "g": o["C"][i], "q": o["Q"][i]}) for i in range(n)]
        e = self.CE(ms)
        e.weights = self.qf(o["W"])
        return e

    def _fill(self, e, act, na):
        n = len(act["C"])
        if n:
            e.coords = self.cf(act["C"]).reshape((n, na, 3))
            e.atomic_charges = self.qf(act["Q"]).reshape((n, na))
        return e

    def view(self, i, fresh=False):
        """conformer i (1-based).  The object obtained first for a row (from ens[i] or from a slice) is kept for the
        whole life of the ensemble - across append/extend, transformations, assignments - and is what observe() reads
        and (7 times in 10) what the write actions write through; `fresh` takes a new ens[i]."""
        if fresh or (i not in self.views):
            v = self.e[i - 1]
            self.views.setdefault(i, v)
            return v
        return self.views[i]

    def _drop(self):
        self.its, self.views, self.held = {}, {}, {}

    # ---- text re-parsing (independent of molli.parsing) ----------------------------------------
    def parse_xyz(self, text):
        lines = text.splitlines()
        k, frames = 0, []
        while k < len(lines):
            if not lines[k].strip():
                k += 1
                continue
            n = int(lines[k].split()[0])
            rows = [[float(t) for t in lines[k + 2 + j].split()[1:4]] for j in range(n)]
            frames.append(self.ci(np.array(rows).reshape((n, 3))))
            k += 2 + n
        return {"C": frames}

    def parse_mol2(self, text):
        C, Q, cur, inatom = [], [], None, False
        for ln in text.splitlines():
            s = ln.strip()
            if s.startswith("@<TRIPOS>"):
                if s == "@<TRIPOS>MOLECULE":
                    cur = ([], [])
                    C.append(cur[0]); Q.append(cur[1])
                inatom = s == "@<TRIPOS>ATOM"
                continue
            if inatom and s:
                f = s.split()
                cur[0].append([float(t) for t in f[2:5]])
                cur[1].append(float(f[-1]))
        return {"C": [self.ci(np.array(c).reshape((len(c), 3))) for c in C], "Q": [self.qi(np.array(q)) for q in Q]}

    def _dump(self, obj, fmt):
        return self.parse_mol2(obj.dumps_mol2()) if fmt == "mol2" else self.parse_xyz(obj.dumps_xyz())

    # ---- actions -----------------------------------------------------------------------------
    def apply(self, act):
        try:
            return self._apply(act)
        except AssertionError:
            raise
        except StopIteration:
            return {"out": "stop"}
        except Exception as e:
            self.last_exc = f"{act.get('act')}: {type(e).__name__}: {e}"
            return {"out": "error"}

    def _apply(self, act):
        a, e = act["act"], self.e
        if a in ("newatoms", "newmol", "newlist"):
            self.src = None
        if a == "newatoms":
            self._drop()
            k, a, n = int(act["k"]), int(act["a"]), len(act["C"])
            if act["form"] == "none":          # ConformerEnsemble(n_conformers=n, n_atoms=a); the bare call when both are 0
                e0 = self.CE() if (a == 0 and n == 0 and self.rnd.random() < 0.5) else self.CE(n_conformers=n, n_atoms=a)
                self.e = self._fill(e0, act, a)
            else:                              # ConformerEnsemble([k elements], n_conformers=n, n_atoms=a)
                self.e = self._fill(self.CE([ELEMENTS[j % len(ELEMENTS)] for j in range(k)], n_conformers=n, n_atoms=a), act, k)
        elif a == "newmol":
            self._drop()
            self.e = self._fill(self.CE(self.mol(act["m"]), n_conformers=int(act["n"]), n_atoms=int(act.get("a", 0))), act,
                                int(act["m"]["na"]))
        elif a == "newlist":
            self._drop()
            self.e = self.CE([self.mol(m) for m in act["ms"]], n_conformers=int(act.get("n", 0)))
        elif a == "newcopy":
            self._drop()
            n = int(act.get("n", 0))
            if n == 0 and e.n_conformers > 0 and self.rnd.random() < 0.4:     # (a conformerless source is not adopted: no copy route)
                # the other public way to the same copy: an ensemble without atoms adopts atoms, bonds and conformers of the
                # first ensemble it is extended with; source and copy are independent afterwards (seeded change C14-k)
                d = self.CE()
                d.extend(e)
                self.src, self.e = e, d
            else:
                self.src, self.e = e, self.CE(e, n_conformers=n)
        elif a == "append":
            self.its = {}                 # running iterations are abandoned; every conformer already held is KEPT
            e.append(self.mol(act["m"]))
        elif a == "extlist":
            self.its = {}
            e.extend([self.mol(m) for m in act["ms"]])
        elif a == "extens":
            self.its = {}
            e.extend(e if act["how"] == "self" else self.ens_from(act["o"]))
        elif a == "scale":
            e.scale(act["f"])
        elif a == "invert":
            e.invert()
        elif a == "translate":
            e.translate(self.cf(act["v"]))
        elif a == "rotate":
            e.rotate(np.array(act["R"], dtype=float))
        elif a == "center":
            e.center_at_atom(e.atoms[int(act["a"]) - 1])
        elif a == "rotstack":
            e.rotate(np.array(act["Rs"], dtype=float))
        elif a == "trstack":
            e.translate(self.cf(act["vs"]))
        elif a == "swc":
            self.src[int(act["i"]) - 1].coords = self.row(act["row"])
        elif a == "swq":
            self.src[int(act["i"]) - 1].atomic_charges = self.qf(act["row"])
        elif a == "ssw":
            w = np.array(self.src.weights, dtype=float)
            w[int(act["i"]) - 1] = act["w"] / 1e3
            self.src.weights = w                       # the whole-array setter of the source
        elif a == "str":
            self.src.translate(self.cf(act["v"]))
        elif a == "vwc":
            self.view(act["i"], self.rnd.random() < 0.3).coords = self.row(act["row"])
        elif a == "vwq":
            self.view(act["i"], self.rnd.random() < 0.3).atomic_charges = self.qf(act["row"])
        elif a == "vsa":
            self.view(act["i"], self.rnd.random() < 0.3).coords[int(act["b"]) - 1] = self.cf(act["p"])
        elif a == "vtr":
            self.view(act["i"], self.rnd.random() < 0.3).translate(self.cf(act["v"]))
        elif a == "asc":
            e.coords = self.rows(act["X"])
        elif a == "asq":
            e.atomic_charges = self.qrows(act["X"])
        elif a == "asw":
            e.weights = self.qf(act["X"])
        elif a == "setw":
            e.weights[int(act["i"]) - 1] = act["w"] / 1e3
        elif a == "start":
            self.its[act["it"]] = iter(e)
            self.held[act["it"]] = []
        elif a == "next":
            c = next(self.its[act["it"]])
            self.held[act["it"]].append(c)
            return {"out": "ok", "val": self._rowval(c)}
        elif a == "collect":
            kept = list(e) if self.rnd.random() < 0.5 else sorted((c for c in e), key=lambda c: 0)   # stable: order kept
            self.held[act["it"]] = kept
            self.its[act["it"]] = iter(())
            return {"out": "ok", "val": [self._rowval(c) for c in kept]}
        elif a == "hwc":
            self.held[act["it"]][int(act["j"]) - 1].coords = self.row(act["row"])
        elif a == "hwq":
            self.held[act["it"]][int(act["j"]) - 1].atomic_charges = self.qf(act["row"])
        elif a == "dump":
            return {"out": "ok", "val": self._dump(e, act["fmt"])}
        elif a == "cdump":
            return {"out": "ok", "val": self._dump(self.view(act["i"], True), act["fmt"])}
        elif a == "ser":
            blob = self.msgpack.dumps(self.mio._serialize_ens_v2(e), use_single_float=True)
            r = self.mio._deserialize_ens_v2(self.msgpack.loads(blob, use_list=False))
            return {"out": "ok", "val": {"na": r.n_atoms, "nb": r.n_bonds, "C": self.ci(r.coords), "Q": self.qi(r.atomic_charges),
                                         "W": self.qi(r.weights)}}
        elif a == "cser":
            blob = self.msgpack.dumps(self.mio._serialize_mol_v2(self.view(act["i"], True)), use_single_float=True)
            r = self.mio._deserialize_mol_v2(self.msgpack.loads(blob, use_list=False))
            return {"out": "ok", "val": {"na": r.n_atoms, "nb": r.n_bonds, "c": self.ci(r.coords), "q": self.qi(r.atomic_charges)}}
        elif a == "slice":
            got = e[int(act["lo"]):int(act["hi"])]
            for k, c in enumerate(got):               # conformers obtained from a slice are kept as held views, too
                self.views.setdefault(int(act["lo"]) + k + 1, c)
            return {"out": "ok", "val": [self._rowval(c) for c in got]}
        else:
            raise AssertionError(f"unknown action {a}")
        return {"out": "ok"}

    def _rowval(self, c):
        try:
            cc = self.ci(c.coords)
        except Exception:
            cc = []
        try:
            qq = self.qi(c.atomic_charges)
        except Exception:
            qq = []
        return {"c": cc, "q": qq}

    def _src(self):
        s = self.src
        if s is None:
            return {"made": False, "C": [], "Q": [], "W": []}
        return {"made": True, "C": self.ci(s.coords), "Q": self.qi(s.atomic_charges), "W": self.qi(s.weights)}

    # ---- observation ---------------------------------------------------------------------------
    def observe(self):
        e = self.e
        if e is None:
            return {"made": False, "na": 0, "nb": 0, "shC": [0, 0, 3], "shQ": [0, 0], "shW": [0], "C": [], "Q": [], "W": [],
                    "src": {"made": False, "C": [], "Q": [], "W": []}, "held": {it: [] for it in self.iters}, "v": []}
        v = []
        for i in range(1, e.n_conformers + 1):
            held, fresh = self.view(i), e[i - 1]
            rv, rf = self._rowval(held), self._rowval(fresh)
            if rv != rf:                          # a held conformer went stale: show what it shows
                rv = {"c": rv["c"], "q": rv["q"], "stale_vs_fresh": rf}
            try:
                rv["na"], rv["nb"] = int(held.n_atoms), int(held.n_bonds)
            except Exception:
                rv["na"], rv["nb"] = -1, -1
            v.append(rv)
        return {"made": True, "na": int(e.n_atoms), "nb": int(e.n_bonds),
                "shC": [int(x) for x in e.coords.shape], "shQ": [int(x) for x in e.atomic_charges.shape],
                "shW": [int(x) for x in e.weights.shape],
                "C": self.ci(e.coords), "Q": self.qi(e.atomic_charges), "W": self.qi(e.weights), "src": self._src(),
                "held": {it: [self._rowval(c) for c in self.held.get(it, [])] for it in sorted(set(self.iters) | set(self.held))}, "v": v}


# ------------------------------------------------------------------------------------------------
# Direction B: seeded random histories on random (and file-loaded) ensembles, recorded as events for
# EnsembleTrace.tla.  The driver only chooses calls and arguments; what must happen is decided by TLC.
# ------------------------------------------------------------------------------------------------
ROTS = (
    [[0, 1, 0], [-1, 0, 0], [0, 0, 1]], [[1, 0, 0], [0, 0, -1], [0, 1, 0]], [[0, 0, 1], [0, 1, 0], [-1, 0, 0]],
    [[0, 1, 0], [0, 0, 1], [1, 0, 0]], [[-1, 0, 0], [0, -1, 0], [0, 0, 1]], [[0, 1, 0], [1, 0, 0], [0, 0, 1]],
)
LIMIT = 200_000_000          # |coordinate| stays below 200 A in micro-Angstrom: TLC integers are 32 bit


class History:
    def __init__(self, seed, max_atoms=4, max_conf=4, base=None):
        self.r = random.Random(seed)
        self.ad = EnsembleAdapter(cunit=1, seed=seed, iters=("i1", "i2", "i3"))
        self.max_atoms, self.max_conf, self.base = max_atoms, max_conf, base
        self.ev = []
        self.na = None

    # random arguments: coordinates are multiples of 1/64 A (exact in float32) below 16 A
    def coord(self):
        return [self.r.randint(-1000, 1000) * 15625 for _ in range(3)]

    def rmol(self, na=None):
        if self.base is not None and (na is None or na == self.base["na"]):
            b = self.base
            i = self.r.randrange(len(b["C"]))
            g = [[x + 15625 * self.r.randint(-8, 8) for x in p] for p in b["C"][i]]
            return {"na": b["na"], "nb": b["nb"], "g": g, "q": list(b["Q"][i])}
        na = self.r.randint(1, self.max_atoms) if na is None else na
        return {"na": na, "nb": self.r.randint(0, max(0, na - 1)), "g": [self.coord() for _ in range(na)],
                "q": [self.r.randint(-1000, 1000) for _ in range(na)]}

    def do(self, act):
        out = self.ad.apply(act)
        self.ev.append({"a": {**act, **out}, "post": self.ad.observe()})
        return out

    def maxabs(self):
        e = self.ad.e
        if e is None or e.coords.size == 0:
            return 0
        with np.errstate(invalid="ignore"):
            m = np.nanmax(np.abs(e.coords)) if not np.all(np.isnan(e.coords)) else 0
        return int(m * 1e6) + 1

    def construct(self):
        r = self.r
        kind = r.choice(["newlist", "newlist", "newmol", "newatoms", "newatoms", "boundary"] if self.base is None else ["newlist"])
        if kind == "newlist":
            m0 = self.rmol()
            ms = [m0] + [dict(self.rmol(m0["na"]), nb=m0["nb"]) for _ in range(r.randint(0, self.max_conf - 1))]
            self.do({"act": "newlist", "ms": ms, "n": r.choice([0, 0, 1, 5])})
        elif kind == "newmol":
            m, n = self.rmol(), r.choice([0, 1, 2, 3])
            k = n or 1
            rows = [self.rmol(m["na"]) for _ in range(k)]
            self.do({"act": "newmol", "m": m, "n": n, "a": r.choice([0, 0, 1, 7]), "C": [x["g"] for x in rows], "Q": [x["q"] for x in rows]})
        elif kind == "newatoms":
            na, n = r.randint(1, self.max_atoms), r.randint(0, 3)
            rows = [self.rmol(na) for _ in range(n)]
            form = r.choice(["none", "list"])
            self.do({"act": "newatoms", "form": form, "k": 0 if form == "none" else na, "a": na if form == "none" else r.choice([0, 1, 9]),
                     "C": [x["g"] for x in rows], "Q": [x["q"] for x in rows]})
        else:                               # boundary values: no atoms, with or without conformers
            n = r.choice([0, 0, 1, 2, 3])
            form = r.choice(["none", "list"])
            self.do({"act": "newatoms", "form": form, "k": 0, "a": 0 if form == "none" else r.choice([0, 2]),
                     "C": [[] for _ in range(n)], "Q": [[] for _ in range(n)]})

    def step(self):
        r, e = self.r, self.ad.e
        n, na = int(e.coords.shape[0]), int(e.n_atoms)
        can_grow = n < self.max_conf + 3
        ops = ["append"] * 2 + ["extlist", "extens", "extself", "newcopy", "dump", "dump", "ser", "slice", "start", "start",
                                "scale", "invert", "translate", "rotate", "center", "rotstack", "rotstack", "trstack"] \
            + ["next"] * (6 if self.ad.its else 0) + ["collect"] * 2 + (["hwc", "hwq"] * 3 if any(self.ad.held.values()) else []) + (["swc", "swq", "ssw", "str"] * 2 if self.ad.src is not None else [])
        if n:
            ops += ["vwc", "vwq", "vsa", "vtr", "setw", "cdump", "cser"] * 2 + ["asc", "asq", "asw"]
        op = r.choice(ops)
        def m_same():
            if na == 0 and r.random() < 0.4:                                   # a molecule without atoms
                return {"na": 0, "nb": 0, "g": [], "q": []}
            return dict(self.rmol(na if na else None), **({} if not na else {"nb": int(e.n_bonds)}))
        if op == "append" and can_grow:
            m = m_same() if r.random() < 0.9 or na == 0 else self.rmol(na + 1)
            self.do({"act": "append", "m": m})
        elif op == "extlist" and can_grow:
            k = r.choice([0, 1, 2])
            first = m_same()
            self.do({"act": "extlist", "ms": [first] + [dict(self.rmol(first["na"]), nb=first["nb"]) for _ in range(k - 1)] if k else []})
        elif op == "extens" and can_grow:
            first = m_same()
            rows = [first] + [self.rmol(first["na"]) for _ in range(r.randint(0, 1))]
            self.do({"act": "extens", "how": "other", "o": {"na": first["na"], "nb": first["nb"], "C": [x["g"] for x in rows],
                                                           "Q": [x["q"] for x in rows], "W": [r.randint(1, 4000) for _ in rows]}})
        elif op == "extself" and n and 2 * n <= self.max_conf + 3:
            post = self.ad.observe()
            self.do({"act": "extens", "how": "self", "o": {"na": post["na"], "nb": post["nb"], "C": post["C"], "Q": post["Q"], "W": post["W"]}})
        elif op == "newcopy":
            self.do({"act": "newcopy", "n": r.choice([0, 0, 1, n, 6])})
        elif op == "dump":
            self.do({"act": "dump", "fmt": r.choice(["xyz", "mol2"])})
        elif op == "ser":
            self.do({"act": "ser"})
        elif op == "slice":
            lo = r.randint(0, n)
            self.do({"act": "slice", "lo": lo, "hi": r.randint(lo, n)})
        elif op == "start":
            self.do({"act": "start", "it": r.choice(["i1", "i2", "i3"])})
        elif op == "collect":
            self.do({"act": "collect", "it": r.choice(["i1", "i2", "i3"])})
        elif op in ("hwc", "hwq"):
            it = r.choice(sorted(k for k, v in self.ad.held.items() if v))
            j = r.randint(1, len(self.ad.held[it]))
            self.do({"act": op, "it": it, "j": j, "row": self.rmol(na)["g" if op == "hwc" else "q"]})
        elif op == "next":
            live = sorted(self.ad.its)
            if live:
                self.do({"act": "next", "it": r.choice(live)})
        elif op == "scale" and self.maxabs() * 3 < LIMIT:
            self.do({"act": "scale", "f": r.choice([2, 3])})
        elif op == "invert":
            self.do({"act": "invert"})
        elif op == "translate" and self.maxabs() < LIMIT // 2:
            self.do({"act": "translate", "v": self.coord()})
        elif op == "rotate":
            self.do({"act": "rotate", "R": r.choice(ROTS)})
        elif op == "center" and na and self.maxabs() < LIMIT // 2:
            self.do({"act": "center", "a": r.randint(1, na)})
        elif op in ("rotstack", "trstack") and n and self.maxabs() < LIMIT // 2:
            # one matrix / vector per conformer, or (one time in four) a stack of another length >= 2
            k = n if r.random() < 0.75 else r.choice([x for x in (2, 3, 4, n + 1) if x != n])
            if k == 1 and n != 1:
                return
            if op == "rotstack":
                self.do({"act": "rotstack", "Rs": [r.choice(ROTS) for _ in range(k)]})
            else:
                self.do({"act": "trstack", "vs": [self.coord() for _ in range(k)]})
        elif op in ("swc", "swq", "ssw", "str") and self.ad.src is not None:
            sn = int(self.ad.src.coords.shape[0])
            if op == "str":
                if self.maxabs() < LIMIT // 2 and float(np.nanmax(np.abs(self.ad.src.coords), initial=0)) * 1e6 < LIMIT // 2:
                    self.do({"act": "str", "v": self.coord()})
            elif sn:
                i = r.randint(1, sn)
                if op == "swc":
                    self.do({"act": "swc", "i": i, "row": self.rmol(na)["g"]})
                elif op == "swq":
                    self.do({"act": "swq", "i": i, "row": self.rmol(na)["q"]})
                else:
                    self.do({"act": "ssw", "i": i, "w": r.randint(1, 4000)})
        elif op == "vwc":
            self.do({"act": "vwc", "i": r.randint(1, n), "row": self.rmol(na)["g"]})
        elif op == "vwq":
            self.do({"act": "vwq", "i": r.randint(1, n), "row": self.rmol(na)["q"]})
        elif op == "vsa" and na:
            self.do({"act": "vsa", "i": r.randint(1, n), "b": r.randint(1, na), "p": self.coord()})
        elif op == "vtr" and self.maxabs() < LIMIT // 2:
            self.do({"act": "vtr", "i": r.randint(1, n), "v": self.coord()})
        elif op == "asc":
            self.do({"act": "asc", "X": [self.rmol(na)["g"] for _ in range(n)]})
        elif op == "asq":
            self.do({"act": "asq", "X": [self.rmol(na)["q"] for _ in range(n)]})
        elif op == "asw":
            self.do({"act": "asw", "X": [r.randint(1, 4000) for _ in range(n)]})
        elif op == "setw":
            self.do({"act": "setw", "i": r.randint(1, n), "w": r.randint(1, 4000)})
        elif op == "cdump":
            self.do({"act": "cdump", "i": r.randint(1, n), "fmt": r.choice(["xyz", "mol2"])})
        elif op == "cser":
            self.do({"act": "cser", "i": r.randint(1, n)})

    def run(self, length):
        self.construct()
        guard = 0
        while len(self.ev) < length and guard < 10 * length:
            guard += 1
            if self.ad.e is None:
                break
            self.step()
        return self.ev


def file_base(cunit=1):
    """the bundled 7-conformer pentane ensemble, coordinates snapped to 1/64 A, as a source of rows"""
    import molli as ml
    ens = ml.ConformerEnsemble.load_mol2(ml.files.pentane_confs_mol2)
    C = [[[int(round(float(x) * 64)) * 15625 for x in p] for p in row] for row in ens.coords]
    Q = [[int(round(float(x) * 1e3)) for x in row] for row in ens.atomic_charges]
    return {"na": int(ens.n_atoms), "nb": int(ens.n_atoms) - 1, "C": C, "Q": Q}
