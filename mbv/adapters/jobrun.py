"""Adapters for C17: JobBind (descriptor binding) and JobRun (real _molli_run executions)."""
from __future__ import annotations
import os, re, shutil, subprocess, sys, tempfile
from pathlib import Path
from ..tlc import WORK

SETTINGS = {"d1": ("exeA", 1, {"A": "1"}), "d2": ("exeB", 4, {"B": "2"}), "d3": ("exeC", 16, None)}


class JobBindAdapter:
    """Two driver classes per universe: a harness-defined one (decorator pattern of XTBDriver, passes
    envars on) and the real XTBDriver.optimize_m."""
    def __init__(self):
        from molli.pipeline.job import Job, JobInput
        from molli.pipeline.driver import DriverBase

        class MyDriver(DriverBase):
            default_executable = "mydefault"

            @Job(return_files=("r.txt",)).prep
            def calc(self, obj, flag=None):
                return JobInput(jid=str(obj), commands=[(f"{self.executable} -n {self.nprocs} {obj}", "c")],
                                files={}, return_files=self.return_files, envars=dict(self.envars or {}))

        self.cls = MyDriver
        self.inst, self.xinst = {}, {}
        self.reconf = set()

    def cleanup(self):
        pass

    def apply(self, act):
        d = act["d"]
        exe, np_, env = SETTINGS[d]
        if act["act"] == "create":
            from molli.pipeline.xtb import XTBDriver
            self.inst[d] = self.cls(executable=exe, nprocs=np_, envars=env, check_exe=False, find=False)
            self.xinst[d] = XTBDriver(executable=exe + "x", nprocs=np_, envars=env, check_exe=False, find=False)
            return {"out": "ok"}
        if act["act"] == "reconfigure":
            for inst, suffix in ((self.inst[d], ""), (self.xinst[d], "x")):
                inst.executable = "exeZ" + suffix
                inst.nprocs = 7
                inst.envars = {"Z": "9"}
            self.reconf.add(d)
            return {"out": "ok"}
        if act["act"] == "use":
            import molli as ml
            inp = self.inst[d].calc.prepare("item")
            m = re.match(r"(\S+) -n (\d+) item", inp.commands[0][0])
            mol = ml.Molecule([ml.Atom("H"), ml.Atom("H")], name="h2")
            mol.coords = [[0, 0, 0], [0, 0, 0.74]]
            xin = self.xinst[d].optimize_m.prepare(mol)
            xcmd = xin.commands[0][0]
            xm = re.match(r"(\S+) input\.xyz .* -P (\d+)", xcmd)
            rexe, rnp = m.group(1), int(m.group(2))
            if not xm or xm.group(1) != rexe + "x" or int(xm.group(2)) != rnp:
                rexe = f"{rexe} (XTBDriver command: {xcmd!r})"
            return {"exe": rexe, "np": rnp, "env": sorted(f"{k}={v}" for k, v in (inp.envars or {}).items())}
        raise AssertionError(act)

    def observe(self):
        return {"made": sorted(self.inst), "conf": {d: (1 if d in self.reconf else 0) for d in ("d1", "d2", "d3")}}


F1 = b"F1 content\n"
F2 = b"\x00\xff\x01binary"


class JobRunAdapter:
    def __init__(self):
        WORK.mkdir(exist_ok=True)
        self.dir = Path(tempfile.mkdtemp(prefix="jr-", dir=WORK))
        self.last = None

    def cleanup(self):
        shutil.rmtree(self.dir, ignore_errors=True)

    def apply(self, act):
        from molli.pipeline.job import JobInput, JobOutput
        cmds = act["cmds"]
        log = self.dir / "exec.log"
        commands = []
        form = act.get("form", "full")
        # env_path: the job's own environment overrides PATH and the commands name a program that only that PATH holds
        shell = "mbvsh" if form == "env_path" else "sh"
        for j, c in enumerate(cmds, start=1):
            w = ""
            if "f1.txt" in c["writes"]:
                w += "printf \"F1 content\\n\" > f1.txt; "
            if "f2.bin" in c["writes"]:
                w += "printf \"\\000\\377\\001binary\" > f2.bin; "
            script = (f'echo "{j}|$([ -e note.txt ] && cat note.txt || echo NOFILE)|$([ -e blob.bin ] && wc -c < blob.bin | tr -d " " || echo 0)'
                      f'|$MBV_A|$MBV_B|$(pwd)" >> {log}; '
                      f'echo out-{j}; echo err-{j} >&2; {w}' + ("kill -9 $$" if c["rc"] == 137 else f'exit {c["rc"]}'))
            commands.append((f"{shell} -c '" + script + "'", f"c{j}" if c["named"] else None))
        # the optional fields of the JobInput: omitted (None) vs explicitly empty vs given
        form = act.get("form", "full")
        kw = {"files": {"note.txt": "hello text", "blob.bin": b"\x00\x01\x02\xff" * 3}, "return_files": ("f1.txt", "f2.bin"),
              "envars": {"MBV_A": "job"}}
        if form == "env_path":
            bindir = self.dir / "jobbin"
            bindir.mkdir(exist_ok=True)
            (bindir / "mbvsh").write_text('#!/bin/sh\nexec /bin/sh "$@"\n')
            (bindir / "mbvsh").chmod(0o755)
            kw["envars"]["PATH"] = f"{bindir}:/usr/bin:/bin"
        field = {"nofiles": "files", "noenv": "envars", "noret": "return_files"}.get(form.split("_")[0])
        if field:
            if form.endswith("_none"):
                del kw[field]
            else:
                kw[field] = {} if field != "return_files" else ()
        inp = JobInput(jid="job17", commands=commands, **kw)
        want_in = ["hello text", "12"] if "files" in kw and kw["files"] else ["NOFILE", "0"]
        want_env = ["job" if kw.get("envars") else "parent", "parent"]
        ifn = self.dir / "job17.inp"
        inp.dump(ifn)
        env = dict(os.environ, MBV_A="parent", MBV_B="parent")
        scratch, outdir, cwd = self.dir / "scratch", self.dir / "out", self.dir / "cwd"
        cwd.mkdir(exist_ok=True)
        runner = Path(sys.executable).with_name("_molli_run")
        # how the runner is started: absolute paths, or one of them relative to the directory it is started in
        a_job, a_out, a_scr = str(ifn), str(outdir), str(scratch)
        if form == "rel_out":
            a_out = os.path.relpath(outdir, cwd)
        elif form == "rel_scratch":
            a_scr = os.path.relpath(scratch, cwd)
        elif form == "rel_job":
            a_job = os.path.relpath(ifn, cwd)
        p = subprocess.run([str(runner), a_job, "-o", a_out, "-s", a_scr], cwd=cwd, env=env,
                           capture_output=True, text=True, timeout=120)
        res = {"exit": 0 if p.returncode == 0 else 1}
        lines = log.read_text().splitlines() if log.exists() else []
        res["executed"] = [int(l.split("|")[0]) for l in lines]
        res["inputs_ok"] = all(l.split("|")[1:3] == want_in for l in lines)
        res["env_ok"] = all(l.split("|")[3:5] == want_env for l in lines)
        dirs = {l.split("|")[5] for l in lines}
        private = all(Path(d_).parent == scratch for d_ in dirs) and len(dirs) <= 1
        try:
            out = JobOutput.load(outdir / "job17.out")
        except Exception as e:
            self.last = {**res, "error": f"no output: {e}"}
            return {"out": "ok"}
        cap = []
        for j in range(1, len(cmds) + 1):
            n = f"c{j}"
            if n in (out.stdouts or {}) or n in (out.stderrs or {}):
                ok = (out.stdouts or {}).get(n) == f"out-{j}\n" and (out.stderrs or {}).get(n) == f"err-{j}\n"
                cap.append(j if ok else f"wrong-content-{j}")
        extra = set(out.stdouts or {}) - {f"c{j}" for j in range(1, len(cmds) + 1)}
        if extra:
            cap.append("extra:" + ",".join(sorted(extra)))
        res["captured"] = cap
        want = {"f1.txt": F1, "f2.bin": F2}
        res["files"] = sorted(k if want.get(k) == bytes(v) else f"corrupt:{k}" for k, v in (out.files or {}).items())
        res["hash_ok"] = out.input_hash == inp.hash
        left = sorted(x.name for x in scratch.glob("*")) if scratch.exists() else []
        res["residue"] = bool(left) or not private or bool(list(cwd.glob("*")))
        self.last = res
        return {"out": "ok"}

    def observe(self):
        return self.last
