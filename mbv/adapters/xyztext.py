"""C08 lab + adapter: XyzText spec actions -> real molli dump/load calls.

Everything here is interpretation (abstract value -> concrete input), the real call, and abstraction
(result -> tokens / integers).  Nothing here knows what the result *should* be: expected values come
from TLC (graph edges or trace validation).

Independent of molli: the periodic table used to abstract symbols / atomic numbers, the tokenizer of
written xyz text, and the renderer of "files of other programs" (xyz and mol2, any distance unit)."""
from __future__ import annotations
import io, math, shutil, tempfile
from decimal import Decimal, ROUND_HALF_EVEN
from pathlib import Path
from ..tlc import WORK

SYMBOLS = ("H He Li Be B C N O F Ne Na Mg Al Si P S Cl Ar K Ca Sc Ti V Cr Mn Fe Co Ni Cu Zn Ga Ge As Se Br Kr Rb Sr Y Zr "
           "Nb Mo Tc Ru Rh Pd Ag Cd In Sn Sb Te I Xe Cs Ba La Ce Pr Nd Pm Sm Eu Gd Tb Dy Ho Er Tm Yb Lu Hf Ta W Re Os Ir "
           "Pt Au Hg Tl Pb Bi Po At Rn Fr Ra Ac Th Pa U Np Pu Am Cm Bk Cf Es Fm Md No Lr Rf Db Sg Bh Hs Mt Ds Rg Cn Nh Fl "
           "Mc Lv Ts Og").split()
assert len(SYMBOLS) == 118
_SYM_LC = {s.lower(): s for s in SYMBOLS}
DUMMY = "dummy"
_DUMMY_TOKENS = {"*", "x", "xx", "du", "unknown", "q", "lp"}       # what writers use for "no element"
GEOM_CLASSES = ("CartesianGeometry", "Structure", "Molecule")
ENS = "ConformerEnsemble"


def el_of_symbol(tok: str) -> str:
    t = tok.strip().lower()
    if t in _SYM_LC:
        return _SYM_LC[t]
    if t in _DUMMY_TOKENS:
        return DUMMY
    return "?" + tok


def el_of_z(z: int) -> str:
    z = int(z)
    if z == 0:
        return DUMMY
    return SYMBOLS[z - 1] if 1 <= z <= 118 else f"?Z{z}"


# the names (= xyz comment lines) behind the spec's name tokens; "empty" / "space" / "tab" give a blank comment line
NAMES = {"plain": "mbv", "empty": "", "space": " ", "tab": "\t", "padded": "  two words  ", "count": "3"}
_NAME_TOK = {v: k for k, v in NAMES.items()}


def name_token(name) -> str:
    if name in _NAME_TOK:
        return _NAME_TOK[name]
    return "space" if isinstance(name, str) and name.strip() == "" else "plain"


def scale_of(world: int) -> Decimal:
    """world = decimal exponent of the object's length scale: 10^world Angstrom (0, 3, -3)."""
    return Decimal(10) ** int(world)


def coord_float(c, world=0) -> float:
    """[u, s] -> (10u + s) * 1e-7 units of 10^world Angstrom (the object's length scale), the nearest double."""
    return float(Decimal(10 * int(c["u"]) + int(c["s"])).scaleb(-7) * scale_of(world))


def coord_abs(x: float, world=0):
    """Inverse of coord_float on its image; other doubles are reported at 1e-7 scale units resolution."""
    if not math.isfinite(x):
        return {"u": str(x), "s": 0}
    v = int(((Decimal(x) / scale_of(world)).scaleb(7)).to_integral_value(ROUND_HALF_EVEN))
    u = (v + 5) // 10
    return {"u": u, "s": v - 10 * u}


def to_units(x: float, res: int, world=0):
    """A loaded coordinate (Angstrom) as an integer number of `res` micro-units of the length scale 10^world A."""
    if not math.isfinite(x):
        return str(x)
    return int((Decimal(x) / scale_of(world) * 1000000 / res).to_integral_value(ROUND_HALF_EVEN))


def dec_str(t: int, d: int) -> str:
    """integer t in units of 10^-d -> exact decimal string with d decimals."""
    return format(Decimal(int(t)).scaleb(-d), "f")


class Lab:
    """Builds real objects, renders foreign files, tokenizes molli's text, performs the real calls."""

    def __init__(self):
        import molli as ml
        from molli.chem import Element, AtomType
        self.ml, self.Element, self.AtomType = ml, Element, AtomType
        self.cls = {"CartesianGeometry": ml.CartesianGeometry, "Structure": ml.Structure, "Molecule": ml.Molecule,
                    ENS: ml.ConformerEnsemble}
        WORK.mkdir(exist_ok=True)
        self.dir = Path(tempfile.mkdtemp(prefix="c08-", dir=WORK))
        self._n = 0
        self._file = (None, None)

    def cleanup(self):
        shutil.rmtree(self.dir, ignore_errors=True)

    def unit_names(self):
        from molli.chem import DistanceUnit
        return sorted(DistanceUnit.__members__)

    # ---- interpretation ------------------------------------------------------------------------------
    def _one(self, cls, frame, name, world=0):
        import numpy as np
        n = len(frame)
        xyz = np.array([[coord_float(a["x"], world), coord_float(a["y"], world), coord_float(a["z"], world)] for a in frame],
                       dtype=float).reshape(n, 3)
        g = cls(n_atoms=n, coords=xyz, name=name)
        for atom, a in zip(g.atoms, frame):
            atom.element = self.Element.Unknown if a["el"] == DUMMY else self.Element[a["el"]]
            if a.get("ty", "dummy" if a["el"] == DUMMY else "regular") == "dummy":
                atom.atype = self.AtomType.Dummy            # dummy TYPE, possibly on a real element
        return g

    def build(self, g, name="mbv"):
        """g = {cls, frames}: a real object of that class holding those frames."""
        w = g.get("world", 0)
        name = NAMES.get(g.get("name"), name)
        if g["cls"] == ENS:
            mols = [self._one(self.ml.Molecule, f, name, w) for f in g["frames"]]
            return self.ml.ConformerEnsemble(mols)
        assert len(g["frames"]) == 1
        return self._one(self.cls[g["cls"]], g["frames"][0], name, w)

    def render_xyz(self, lines, dec, comment="written by another program") -> str:
        out = []
        for ln in lines:
            if ln["k"] == "count":
                out.append(f"{ln['n']}")
            elif ln["k"] == "comment":
                out.append("" if ln.get("blank") else comment)
            else:
                sym = "*" if ln["el"] == DUMMY else ln["el"]
                out.append(f"{sym:<3} {dec_str(ln['x'], dec):>18} {dec_str(ln['y'], dec):>18} {dec_str(ln['z'], dec):>18}")
        return "".join(s + "\n" for s in out)

    def render_mol2(self, blocks, dec, name="foreign") -> str:
        out = []
        for b in blocks:
            atoms = b["atoms"]
            out += ["@<TRIPOS>MOLECULE", name, f" {len(atoms)} 0 0 0 0", "SMALL", "NO_CHARGES", "", "@<TRIPOS>ATOM"]
            for i, a in enumerate(atoms, 1):
                typ = "Du" if a["el"] == DUMMY else a["el"]
                lab = ("X" if a["el"] == DUMMY else a["el"]) + str(i)
                out.append(f"{i:>7} {lab:<5} {dec_str(a['x'], dec):>16} {dec_str(a['y'], dec):>16} "
                           f"{dec_str(a['z'], dec):>16} {typ:<6} 1  UNL1   0.0000")
            out.append("@<TRIPOS>BOND")
        return "".join(s + "\n" for s in out)

    # ---- abstraction ---------------------------------------------------------------------------------
    def _els(self, obj):
        return [el_of_z(a.element.z if hasattr(a.element, "z") else a.element.value) for a in obj.atoms]

    def abstract_obj(self, obj, world=0):
        """In-memory object -> {cls, frames, world} with [u, s] coordinates in the length scale `world` (public
        accessors only)."""
        ca = lambda v: coord_abs(float(v), world)
        cn = type(obj).__name__
        els = list(zip(self._els(obj), ["dummy" if a.atype == self.AtomType.Dummy else "regular" for a in obj.atoms]))
        if cn == ENS:
            frames = [[{"el": e, "ty": t, "x": ca(r[0]), "y": ca(r[1]), "z": ca(r[2])}
                       for (e, t), r in zip(els, conf)] for conf in obj.coords]
        else:
            frames = [[{"el": e, "ty": t, "x": ca(r[0]), "y": ca(r[1]), "z": ca(r[2])}
                       for (e, t), r in zip(els, obj.coords)]]
        return {"cls": cn, "frames": frames, "world": world, "name": name_token(getattr(obj, "name", None))}

    def abstract_loaded(self, res_obj, res: int, world=0):
        """Result of a load call -> (ret, class name, frames of [el, x, y, z] in units of res micro-A)."""
        def geom(o, coords):
            els = self._els(o)
            if len(els) != len(coords):
                return [["?misaligned", len(els), len(coords), 0]]
            return [[e, to_units(float(r[0]), res, world), to_units(float(r[1]), res, world), to_units(float(r[2]), res, world)]
                    for e, r in zip(els, coords)]
        if isinstance(res_obj, list):
            names = sorted({type(o).__name__ for o in res_obj})
            return "list", (names[0] if len(names) == 1 else "|".join(names) or "empty"), [geom(o, o.coords) for o in res_obj]
        cn = type(res_obj).__name__
        if cn == ENS:
            return "ensemble", cn, [geom(res_obj, c) for c in res_obj.coords]
        return "object", cn, [geom(res_obj, res_obj.coords)]

    def tokenize_xyz(self, text: str, dec: int | None, world=0):
        """Independent positional tokenizer of xyz text.  Returns (lines, observed decimals).  `dec` = decimals of
        Angstrom the text shows (None: those found in it).  Coordinates are integers in units of 10^-d of the length
        scale 10^world A with d = min(6, dec + world) (what the model follows, XyzText!ModelDec); a comment line reports
        whether it is blank."""
        raw = text.split("\n")
        if raw and raw[-1] == "":
            raw.pop()
        found = set()
        for ln in raw:
            t = ln.split()
            if len(t) == 4:
                for c in t[1:]:
                    if "." in c and "e" not in c.lower():
                        found.add(len(c.split(".")[1]))
                    elif c.lstrip("+-").isdigit():
                        found.add(0)
        odec = min(found) if found else None
        D = dec if dec is not None else (odec if odec is not None else 0)
        d, capped, sc = min(6, D + world), D + world > 6, scale_of(world)

        def num(c):
            try:
                v = Decimal(c)
            except Exception:
                return "?" + c
            if not v.is_finite():
                return str(v)
            w = (v / sc).scaleb(d)
            if w != w.to_integral_value():
                if capped:                            # finer than the model's resolution: look at it at the sixth decimal
                    return int(w.to_integral_value(ROUND_HALF_EVEN))
                return "?" + c                  # not on the grid of the declared precision
            return int(w)
        lines, i = [], 0
        while i < len(raw):
            t = raw[i].split()
            n = None
            if len(t) == 1:
                try:
                    n = int(t[0])
                except ValueError:
                    n = None
            if n is None or n < 0:
                lines.append({"k": "bad", "raw": raw[i][:40]})
                i += 1
                continue
            lines.append({"k": "count", "n": n})
            i += 1
            if i < len(raw):
                lines.append({"k": "comment", "blank": raw[i].strip() == ""})
                i += 1
            for _ in range(n):
                if i >= len(raw):
                    break
                t = raw[i].split()
                if len(t) == 4:
                    lines.append({"k": "atom", "el": el_of_symbol(t[0]), "x": num(t[1]), "y": num(t[2]), "z": num(t[3])})
                else:
                    lines.append({"k": "bad", "raw": raw[i][:40]})
                i += 1
        return lines, odec

    # ---- the real calls ------------------------------------------------------------------------------
    def dump(self, obj, route: str, stream: io.StringIO, D=None):
        if route == "dumps":
            stream.write(obj.dumps_xyz())
        elif route == "dump":
            obj.dump_xyz(stream)
        elif route == "dump_fmt":                            # the caller chooses the number of decimals
            obj.dump_xyz(stream, fmt=f"{D + 8}.{D}f")
        else:
            raise AssertionError(route)

    def dump_conformer(self, ens, i: int, route: str, stream: io.StringIO, D=None):
        conf = ens[i - 1]                                    # the Conformer view
        if route == "dumps":
            stream.write(conf.dumps_xyz())
        elif route == "dump":
            conf.dump_xyz(stream)
        elif route == "dump_fmt":
            conf.dump_xyz(stream, fmt=f"{D + 8}.{D}f")
        else:
            raise AssertionError(route)

    def load(self, text: str, fmt: str, cls: str, entry: str, units: str, res: int, world=0):
        """cls.<entry>_<fmt>(..., source_units=units) -> outcome dict (out, ret, cls, val)."""
        k = self.cls[cls]
        base = {"load_path": "load", "load_stream": "load", "loads": "loads", "load_all_path": "load_all",
                "load_all_stream": "load_all", "loads_all": "loads_all"}[entry]
        fn = getattr(k, f"{base}_{fmt}")
        try:
            if entry.endswith("_path"):
                if self._file[0] != (text, fmt):               # one file per text, re-used by its path loads
                    self._n += 1
                    p = self.dir / f"f{self._n % 8}.{fmt}"
                    p.write_text(text)
                    self._file = ((text, fmt), p)
                r = fn(self._file[1], source_units=units)
            elif entry.endswith("_stream"):
                r = fn(io.StringIO(text), source_units=units)
            else:
                r = fn(text, source_units=units)
        except Exception as e:
            return {"out": "error", "exc": type(e).__name__}
        ret, cn, val = self.abstract_loaded(r, res, world)
        return {"out": "ok", "ret": ret, "cls": cn, "val": val}


class XyzAdapter:
    """replay.cover adapter for the MCXyzText graph."""

    def __init__(self, lab: Lab, dec: int):
        self.lab, self.dec = lab, dec
        self.obj = None
        self.stream = io.StringIO()
        self.text = ""
        self.fmt = "none"
        self.foreign = False
        self.changed = True
        self.world = 0
        self.D = dec

    def cleanup(self):
        self.obj = None

    def apply(self, act):
        a = act["act"]
        self.changed = a != "load"
        if a == "make":
            self.obj = self.lab.build(act["g"])
            self.world = act["g"].get("world", 0)
            return {"out": "ok"}
        if a in ("dump", "dumpconf"):
            self.D = act["D"] if act["route"] == "dump_fmt" else self.dec
            if a == "dump":
                self.lab.dump(self.obj, act["route"], self.stream, act.get("D"))
            else:
                self.lab.dump_conformer(self.obj, act["i"], act["route"], self.stream, act.get("D"))
            self.text, self.fmt, self.obj = self.stream.getvalue(), "xyz", None
            return {"out": "ok"}
        if a == "foreign":
            self.fmt, self.foreign, self.world = act["fmt"], True, 0
            self.text = (self.lab.render_xyz if act["fmt"] == "xyz" else self.lab.render_mol2)(act["lines"], act["dec"])
            return {"out": "ok"}
        if a == "load":
            o = self.lab.load(self.text, act["fmt"], act["cls"], act["entry"], act["units"], act["res"], act.get("world", 0))
            o.pop("exc", None)
            return o
        raise AssertionError(f"unknown action {a}")

    def observe(self):
        if not self.changed:
            return None
        mem = self.lab.abstract_obj(self.obj, self.world) if self.obj is not None else {"cls": "none", "frames": []}
        if self.fmt == "none":
            text = {"fmt": "none", "lines": []}
        elif self.foreign:
            text = None                                   # rendered by the harness itself: nothing of molli to observe
        else:
            text = {"fmt": "xyz", "lines": self.lab.tokenize_xyz(self.text, self.D, self.world)[0]}
        return {"mem": mem, "text": text}


def walk(graph, adapter_factory, *, sig=None, per_sig=2, stop_after=12, budget_s=None, revisit=False):
    """Exercise every (state, action) pair of a graph whose state-changing edges form a tree-like order
    (an adapter cannot go back): per path, at every state first all not yet exercised state-preserving
    actions (loads), then one not yet exercised state-changing action.  Uses replay.step for the real call
    and the matching, like replay.cover, without its per-step replanning cost.
    Every pair is exercised even after violations; at most `per_sig` violations are kept per signature
    sig(violation) and the walk stops early only after `stop_after` distinct signatures.
    revisit=True: on the way to a deeper state, state-preserving actions of every state passed
    are executed (again) before moving on (first, middle and last of them), so that every state-changing call is preceded by reads of the state it
    changes (what a cache inside the code would need to go stale).
    Returns (stats, violations, samples)."""
    import time
    from .. import replay
    t0 = time.time()
    loops, moves, parent = {}, {}, {graph.init: None}
    for n in graph.out:
        loops[n] = [a for a, es in graph.out[n].items() if all(e["to"] == n for e in es)]
        moves[n] = [a for a, es in graph.out[n].items() if not all(e["to"] == n for e in es)]
    order, queue = [], [graph.init]
    while queue:                                              # BFS tree: shortest action path to every state
        n = queue.pop(0)
        order.append(n)
        for a in moves.get(n, ()):
            for e in graph.out[n][a]:
                if e["to"] not in parent:
                    parent[e["to"]] = (n, a)
                    queue.append(e["to"])
    todo = {(n, a) for n in graph.out for a in graph.out[n]}
    stats = {"pairs": len(todo), "edges": graph.nedges, "nodes": len(graph.nodes), "paths": 0, "steps": 0}
    violations, samples, matched, nviol = [], [], set(), {}

    def route(n):
        seq = []
        while parent[n] is not None:
            n, a = parent[n]
            seq.append(a)
        return seq[::-1]

    for start in sorted(order, key=lambda n: -len(route(n))):
        while any((start, a) in todo for a in graph.out.get(start, ())):
            if len(nviol) >= stop_after or (budget_s and time.time() - t0 > budget_s):
                break
            adapter = adapter_factory()
            stats["paths"] += 1
            before = len(todo)
            cands, path = {graph.init}, []
            plan = route(start)
            try:
                while True:
                    node = sorted(cands)[0]
                    reads = ()
                    if plan:
                        lp = loops.get(node, ()) if revisit else ()
                        reads = [lp[i] for i in sorted({0, len(lp) // 2, len(lp) - 1})] if lp else []
                        seq = reads + [plan.pop(0)]
                    else:
                        seq = [a for a in loops.get(node, ()) if (node, a) in todo]
                        mv = [a for a in moves.get(node, ()) if (node, a) in todo]
                        if mv:
                            seq.append(mv[0])
                        if not seq:
                            break
                    dead = False
                    for akey in seq:
                        if akey not in graph.out[node]:
                            dead = True                        # the code took another allowed branch: `start` not reachable this way
                            break
                        act0 = graph.out[node][akey][0]["act"]
                        try:
                            oks = replay.step(adapter, graph, cands, akey)
                        except replay.Mismatch as m:
                            todo.discard((node, akey))
                            v = {"path": path + [act0], **m.info}
                            k = sig(v) if sig else len(violations)
                            nviol[k] = nviol.get(k, 0) + 1
                            if nviol[k] <= per_sig:
                                violations.append(v)
                            if akey in loops.get(node, ()):
                                continue                       # a wrong load result does not spoil the state
                            dead = True
                            break
                        stats["steps"] += 1
                        for n, e in oks:
                            todo.discard((n, akey))
                            matched.add((n, akey, e["to"]))
                        if akey in reads:
                            path.append(oks[0][1]["act"])      # part of the history that leads to what follows
                        elif akey not in loops.get(node, ()):
                            path.append(oks[0][1]["act"])
                            cands = {e["to"] for _, e in oks}
                    if dead:
                        break
            finally:
                adapter.cleanup()
            if len(samples) < 3 and len(path) >= 2:
                samples.append(path[:6])
            if len(todo) == before:
                break                                          # no progress (the way to `start` is broken)
    stats["pairs_exercised"] = stats["pairs"] - len(todo)
    stats["edges_matched"] = len(matched)
    stats["unreached_pairs"] = len(todo)
    stats["mismatches"] = sum(nviol.values())
    return stats, violations, samples
