"""Child process of the C07 check: executes real molli calls in a FRESH interpreter, so that hidden process-wide state
(memo tables, caches) starts empty and every worker sees its own order of calls.

usage: python -m mbv.adapters.mol2text_worker <in.json> <out.json>
  in  = {"job": "cases", "seed": s, "items": [[ci, case], ...]}          -> traces of the structure round trips
      | {"job": "typing_history", "seed": s, "items": [[el, at, g], ...]} -> atype traces with history first"""
from __future__ import annotations
import json, random, sys, traceback


def main(inp, outp):
    doc = json.load(open(inp))
    if doc["job"] == "typing_history":
        from . import mol2text as A
        traces, calls = A.typing_history_rows(doc["items"], doc["seed"])
        json.dump({"traces": traces, "calls": calls}, open(outp, "w"))
        return 0
    from ..checks import c07
    rnd = random.Random(doc["seed"])
    items = doc["items"]
    rnd.shuffle(items)                                   # every worker / seed has its own order of cases
    out, calls, samples, prev = [], 0, [], None
    for ci, case in items:
        where = rnd.choice(((), ("before_read",), ("before_reread",), ("before_read", "before_reread")))
        hist = {"where": where, "rnd": rnd, "prev": prev} if where else None
        trs, n, text, obj = c07.case_traces(ci, case, hist=hist)
        calls += n
        out += trs
        prev = (text, obj)
        if case["src"] == "rec" and len(samples) < 2 and len(case["rec"]["atoms"]) >= 3 and case["rec"]["bonds"] and where:
            samples.append({"recipe": case["rec"], "edits": case.get("edits"), "text": text, "events": [e["ev"] for e in trs[0][0]["ev"]]})
    json.dump({"traces": out, "calls": calls, "samples": samples}, open(outp, "w"))
    return 0


if __name__ == "__main__":
    try:
        sys.exit(main(sys.argv[1], sys.argv[2]))
    except Exception:
        traceback.print_exc()
        sys.exit(3)
