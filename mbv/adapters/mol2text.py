"""Driver for C07 (Mol2Text): recipe -> real molli object; real dumps/loads calls; abstraction of objects
(public accessors only) and of the written text (independent tokenizer) into the shapes Mol2Text.tla uses.

Numbers: coordinate -> {"a": whole Angstrom, "f": fraction in 1e-7 A} (same sign), charge -> int in 1e-5 e.
Nothing here decides anything: verdicts come from TLC (Mol2TextTrace)."""
from __future__ import annotations
import warnings
from decimal import Decimal, ROUND_HALF_EVEN

UNIT = 10 ** 7
_Q7 = Decimal(1).scaleb(-7)
_Q5 = Decimal(1).scaleb(-5)


# ----------------------------------------------------------------------------- numbers
def af(x) -> dict:
    """float / Decimal / str -> {"a","f"}: exact decimal expansion rounded to 1e-7 (half even)."""
    d = x if isinstance(x, Decimal) else Decimal(x if isinstance(x, str) else float(x))
    if not d.is_finite():
        raise ValueError(f"non-finite coordinate {x!r}")
    n = int(d.quantize(_Q7, rounding=ROUND_HALF_EVEN).scaleb(7))
    s = -1 if n < 0 else 1
    a, f = divmod(abs(n), UNIT)
    if a >= 2 ** 31:
        raise ValueError(f"coordinate {x!r} outside the 32-bit range of TLC")
    return {"a": s * a, "f": s * f}


def af_float(c: dict) -> float:
    return float(Decimal(c["a"]) + Decimal(c["f"]) / Decimal(UNIT))


def q5(x) -> int:
    d = x if isinstance(x, Decimal) else Decimal(x if isinstance(x, str) else float(x))
    if not d.is_finite():
        raise ValueError(f"non-finite charge {x!r}")
    n = int(d.quantize(_Q5, rounding=ROUND_HALF_EVEN).scaleb(5))
    if abs(n) >= 2 ** 31:
        raise ValueError(f"charge {x!r} outside the 32-bit range of TLC")
    return n


def text_num(s: str, conv) -> dict:
    """A number AS WRITTEN: its value plus `nz` = 1 for a negative zero token ("-0.000"): the sign of a zero matters for
    the equality of two texts (fixed point), not for the value clauses, which look at the object read back."""
    v = conv(Decimal(s))
    zero = (v == 0) if isinstance(v, int) else (v["a"] == 0 and v["f"] == 0)
    nz = 1 if zero and s.lstrip().startswith("-") else 0
    return {"v": v, "nz": nz} if isinstance(v, int) else {**v, "nz": nz}


def split_tok(t: str) -> dict:
    pre, _, suf = t.partition(".")
    return {"pre": pre, "suf": suf}


# ----------------------------------------------------------------------------- vocabulary (read from the code)
def vocab():
    from molli.chem.atom import Element, AtomType, AtomGeom
    from molli.chem.bond import BondType
    return {"Elements": [e.symbol for e in Element], "AtomTypes": [t.name for t in AtomType],
            "AtomGeoms": [g.name for g in AtomGeom], "BondTypes": [b.name for b in BondType]}


def typing_row(el: str, at: str):
    """One trace: the atom (el, at) under every geometry -> emitted token -> fresh atom -> token again."""
    from molli.chem.atom import Element, AtomType, AtomGeom, Atom
    E = {e.symbol: e for e in Element}
    evs, calls = [], 0
    for g in AtomGeom:
        a = Atom(E[el], atype=AtomType[at], geom=g)
        e = {"ev": "atype", "el": el, "at": at, "g": g.name, "tok": {"pre": "", "suf": ""},
             "res": {"out": "raise", "el": "", "at": "", "g": ""}, "tok2": {"pre": "", "suf": ""}}
        evs.append(e)
        b = Atom()
        try:
            calls += 1
            tok = a.get_mol2_type()
            e["tok"] = split_tok(tok)
            b.set_mol2_type(tok)
            calls += 1
            e["res"] = {"out": "ok", "el": b.element.symbol, "at": AtomType(b.atype).name, "g": AtomGeom(b.geom).name}
            e["tok2"] = split_tok(b.get_mol2_type())
            calls += 1
        except Exception as ex:
            e["exc"] = type(ex).__name__
    return evs, calls


def bond_rows():
    from molli.chem.atom import Atom
    from molli.chem.bond import Bond, BondType
    evs, calls = [], 0
    for bt in BondType:
        b = Bond(Atom("C"), Atom("N"), btype=bt)
        e = {"ev": "btype", "bt": bt.name, "tok": "", "res": "rejected", "tok2": ""}
        evs.append(e)
        c = Bond(Atom("C"), Atom("N"))
        try:
            calls += 1
            tok = b.get_mol2_type()
            e["tok"] = tok
            c.set_mol2_type(tok)
            calls += 1
            e["res"] = BondType(c.btype).name
            e["tok2"] = c.get_mol2_type()
            calls += 1
        except Exception as ex:
            e["exc"] = type(ex).__name__
    return evs, calls


# ----------------------------------------------------------------------------- recipe -> real object
def build(rec: dict, obj: dict):
    """One line of MCMol2Text.Emit: rec = {kind, name, atoms, bonds:[{a,b,bt}] in connect() order, nconf} is the recipe,
    obj = {kind, blocks:[{name, atoms:[{el,at,g,lab}], xyz, q, bonds}]} the abstract object the spec built from it
    (coordinates / charges of every conformer are taken from there: the pools live only in the spec)."""
    import numpy as np
    import molli as ml
    from molli.chem.atom import Element, AtomType, AtomGeom, Atom
    from molli.chem.bond import BondType
    E = {e.symbol: e for e in Element}
    blocks = obj["blocks"]
    b0 = blocks[0]
    atoms = [Atom(E[p["el"]], label=(p["lab"] or None), atype=AtomType[p["at"]], geom=AtomGeom[p["g"]]) for p in b0["atoms"]]
    n, k = len(atoms), len(blocks)
    xyz = np.array([[[af_float(c) for c in row] for row in b["xyz"]] for b in blocks], dtype=float).reshape(k, n, 3)
    kind, name = obj["kind"], b0["name"]
    base = ml.Structure(atoms, name=name) if kind == "Struct" else ml.Molecule(atoms, name=name)
    base.coords = xyz[0]
    for b in rec["bonds"]:
        base.connect(base.atoms[b["a"] - 1], base.atoms[b["b"] - 1], btype=BondType[b["bt"]])
    if kind == "Struct":
        return base
    chg = np.array([[q / 1e5 for q in b["q"]] for b in blocks], dtype=float).reshape(k, n)
    base.atomic_charges = chg[0]
    if kind == "Mol":
        return base
    ens = ml.ConformerEnsemble(base, n_conformers=k)
    ens.coords = xyz
    ens.atomic_charges = chg
    return ens


def apply_edits(o, ops: list, newobj: dict):
    """Edit the SAME real object through public attributes, as the spec's Edit actions did on the recipe
    (RetypeBond -> bond.btype, RetypeAtom -> element/atype/geom/label, MoveAtom -> coords/charges, Rename -> name)."""
    import numpy as np
    import molli as ml
    from molli.chem.atom import Element, AtomType, AtomGeom
    from molli.chem.bond import BondType
    E = {e.symbol: e for e in Element}
    moved, keep = False, []
    for op in ops:
        if op["op"] == "alias":
            keep.append(alias(o, op["mode"], op["atoms"]))
            continue
        if op["op"] == "bond":
            o.bonds[op["i"] - 1].btype = BondType[op["bt"]]
        elif op["op"] == "atom":
            a = o.atoms[op["i"] - 1]
            a.element, a.atype, a.geom, a.label = E[op["el"]], AtomType[op["at"]], AtomGeom[op["g"]], (op["lab"] or None)
        elif op["op"] == "name":
            o.name = op["n"]
        elif op["op"] == "move":
            moved = True
        else:
            raise AssertionError(f"unknown edit {op}")
    if moved:
        blocks = newobj["blocks"]
        k, n = len(blocks), len(blocks[0]["atoms"])
        xyz = np.array([[[af_float(c) for c in row] for row in b["xyz"]] for b in blocks], dtype=float).reshape(k, n, 3)
        ens = isinstance(o, ml.ConformerEnsemble)
        o.coords = xyz if ens else xyz[0]
        if newobj["kind"] != "Struct":
            chg = np.array([[q / 1e5 for q in b["q"]] for b in blocks], dtype=float).reshape(k, n)
            o.atomic_charges = chg if ens else chg[0]
    return keep                                  # containers / views that must stay alive while the object is written


def alias(o, mode: str, idx: list):
    """Put some of the object's Atom objects (in the given order) into another container WITHOUT copying, or look at
    them through a view.  Nothing of the object itself is changed; only the atoms' parent bookkeeping may be."""
    import gc, weakref
    import molli as ml
    atoms = [o.atoms[i - 1] for i in idx]
    if mode == "promol":
        return ml.Promolecule(atoms)             # copy_atoms=False: the atoms now point to this container
    if mode == "struct":
        return ml.Structure(atoms)
    if mode == "dropped":
        p = ml.Promolecule(atoms)
        r = weakref.ref(p)
        del p
        if r() is not None:
            gc.collect()
        return None                              # the atoms' parent is gone
    if mode == "view":
        if isinstance(o, ml.ConformerEnsemble):
            return [o[k] for k in range(o.n_conformers)]
        return ml.Substructure(o, atoms)
    raise AssertionError(f"unknown alias mode {mode}")


# ----------------------------------------------------------------------------- abstraction of objects
def _block(name, atoms, bonds, coords, charges):
    from molli.chem.atom import AtomType, AtomGeom
    from molli.chem.bond import BondType
    idx = {id(a): i + 1 for i, a in enumerate(atoms)}
    bl = []
    for b in bonds:
        i, j = idx[id(b.a1)], idx[id(b.a2)]
        bl.append({"a": min(i, j), "b": max(i, j), "bt": BondType(b.btype).name})
    return {"name": name,
            "atoms": [{"el": a.element.symbol, "at": AtomType(a.atype).name, "g": AtomGeom(a.geom).name,
                       "lab": a.label or ""} for a in atoms],
            "xyz": [[af(c) for c in row] for row in coords],
            "q": [] if charges is None else [q5(c) for c in charges],
            "bonds": bl}


def abstract(o) -> list:
    """Molecule / Structure / ConformerEnsemble / list of those -> list of blocks (public accessors only)."""
    import molli as ml
    if isinstance(o, (list, tuple)):
        return [b for x in o for b in abstract(x)]
    if isinstance(o, ml.ConformerEnsemble):
        return [_block(o.name, o.atoms, o.bonds, o.coords[k], o.atomic_charges[k]) for k in range(o.coords.shape[0])]
    if isinstance(o, ml.Molecule):
        return [_block(o.name, o.atoms, o.bonds, o.coords, o.atomic_charges)]
    return [_block(o.name, o.atoms, o.bonds, o.coords, None)]


def kind_of(o) -> str:
    import molli as ml
    return "Ens" if isinstance(o, ml.ConformerEnsemble) else "Mol" if isinstance(o, ml.Molecule) else "Struct"


# ----------------------------------------------------------------------------- independent tokenizer of mol2 text
def tokenize(text: str) -> list:
    """Only the tokens C07 names: name line, atom rows (label, x, y, z, type, charge), bond rows (a1, a2, type).
    Layout (widths, comments, blank lines, other TRIPOS sections) is ignored."""
    blocks, sec, cur = [], None, None
    lines = text.splitlines()
    i = 0
    while i < len(lines):
        s = lines[i].strip()
        i += 1
        if s.startswith("@<TRIPOS>"):
            sec = s[len("@<TRIPOS>"):]
            if sec == "MOLECULE":
                cur = {"name": lines[i].strip() if i < len(lines) else "", "atoms": [], "bonds": []}
                blocks.append(cur)
                i += 1
                sec = "HEADER"
            continue
        if not s or s.startswith("#") or cur is None or sec not in ("ATOM", "BOND"):
            continue                                    # rows start with an integer id; '#' starts a comment line
        p = s.split()
        try:
            if sec == "ATOM":
                row = {"lab": p[1], "xyz": [text_num(p[2], af), text_num(p[3], af), text_num(p[4], af)],
                       "tok": split_tok(p[5]), "q": text_num(p[8], q5) if len(p) > 8 else {"v": 0, "nz": 0}, "raw": ""}
            else:
                a, b = int(p[1]), int(p[2])
                row = {"a": min(a, b), "b": max(a, b), "tok": p[3], "raw": ""}
        except Exception:
            # a row this tokenizer cannot split (e.g. glued columns): kept verbatim.  The text is free in the contract,
            # it is only compared with the second text; whether molli's own reader copes is decided by the read step.
            z = {"a": 0, "f": 0, "nz": 0}
            row = ({"lab": "?", "xyz": [z, z, z], "tok": {"pre": "?", "suf": ""}, "q": {"v": 0, "nz": 0}, "raw": s} if sec == "ATOM"
                   else {"a": 0, "b": 0, "tok": "?", "raw": s})
        cur["atoms" if sec == "ATOM" else "bonds"].append(row)
    return blocks


# ----------------------------------------------------------------------------- history: unrelated public-API calls
# atoms / bonds that ALREADY carry a type are re-typed with the tokens of the text under test, other texts are read,
# other objects are written.  None of this touches the object under test; hidden process-wide state (memo tables,
# caches keyed by token or type, module-level "current" objects) is what it is meant to disturb.
PRE_TYPED = (("Aromatic", "R3_Planar"), ("sp3", "R4_Tetrahedral"), ("Dummy", "R6_Octahedral"), ("N_Amide", "R1"),
             ("O_Sulfone", "R2_Bent"), ("sp2", "R3_Pyramidal"), ("C_Guanidinium", "R4_SquarePlanar"), ("sp", "R2_Linear"))


def retype_pretyped(tok: str, rnd) -> int:
    """set_mol2_type(tok) + get_mol2_type() on already-typed atoms (of the token's own element and of another one)."""
    from molli.chem.atom import Element, AtomType, AtomGeom, Atom
    E = {e.symbol: e for e in Element}
    own = E.get(tok.partition(".")[0]) or E.get(tok.partition(".")[2]) or Element.C
    pre = list(PRE_TYPED)
    rnd.shuffle(pre)
    n = 0
    for at, g in pre:
        for el in (own, rnd.choice((Element.C, Element.N, Element.S, Element.Fe))):
            a = Atom(el, atype=AtomType[at], geom=AtomGeom[g], label="h")
            try:
                n += 2
                a.set_mol2_type(tok)
                a.get_mol2_type()
            except Exception:
                pass                                   # e.g. "N.4" on a non-nitrogen: not under test here
    return n


def retype_prebonded(tok: str, rnd) -> int:
    from molli.chem.atom import Atom
    from molli.chem.bond import Bond, BondType
    n = 0
    for bt in rnd.sample(list(BondType), 4):
        b = Bond(Atom("C"), Atom("N"), btype=bt)
        try:
            n += 2
            b.set_mol2_type(tok)
            b.get_mol2_type()
        except Exception:
            pass
    return n


def history_calls(text_blocks: list, rnd, prev=None) -> dict:
    """Unrelated calls for the tokens of a text (+ reading / writing the previous case's text / object)."""
    import molli as ml
    toks = sorted({a["tok"]["pre"] + ("." + a["tok"]["suf"] if a["tok"]["suf"] else "") for b in text_blocks for a in b["atoms"]})
    btoks = sorted({x["tok"] for b in text_blocks for x in b["bonds"]})
    n = sum(retype_pretyped(t, rnd) for t in toks) + sum(retype_prebonded(t, rnd) for t in btoks)
    other = 0
    if prev is not None:
        ptext, pobj = prev
        try:
            if ptext:
                ml.Molecule.loads_all_mol2(ptext)
                other += 1
            if pobj is not None:
                _dumps(pobj)
                other += 1
        except Exception:
            pass
    return {"ev": "history", "retyped_tokens": toks + btoks, "calls": n + other, "other_texts": other}


def typing_history_rows(items: list, seed: int):
    """items = [(el, at, g)], one per distinct emitted token.  In a FRESH process: the token is first interpreted on
    already-typed atoms (history), only then on a fresh atom; the usual atype chain is recorded.  One trace per element."""
    import random
    from molli.chem.atom import Element, AtomType, AtomGeom, Atom
    E = {e.symbol: e for e in Element}
    rnd = random.Random(seed)
    traces, calls = {}, 0
    for el, at, g in items:
        a = Atom(E[el], atype=AtomType[at], geom=AtomGeom[g])
        evs = traces.setdefault(el, [])
        e = {"ev": "atype", "el": el, "at": at, "g": g, "tok": {"pre": "", "suf": ""},
             "res": {"out": "raise", "el": "", "at": "", "g": ""}, "tok2": {"pre": "", "suf": ""}}
        try:
            calls += 1
            tok = a.get_mol2_type()
            e["tok"] = split_tok(tok)
            n = retype_pretyped(tok, rnd)
            calls += n
            evs.append({"ev": "history", "retyped_tokens": [tok], "calls": n, "other_texts": 0})
            b = Atom()
            calls += 2
            b.set_mol2_type(tok)
            e["res"] = {"out": "ok", "el": b.element.symbol, "at": AtomType(b.atype).name, "g": AtomGeom(b.geom).name}
            e["tok2"] = split_tok(b.get_mol2_type())
        except Exception as ex:
            e["exc"] = type(ex).__name__
        evs.append(e)
    return [{"tid": f"th-{el}", "ev": evs} for el, evs in traces.items()], calls


# ----------------------------------------------------------------------------- the four real calls
def _loader(kind, route):
    import molli as ml
    if route == "loads":
        return {"Mol": ml.Molecule.loads_mol2, "Struct": ml.Structure.loads_mol2, "Ens": ml.ConformerEnsemble.loads_mol2}[kind]
    return {"Mol": ml.Molecule.loads_all_mol2, "Struct": ml.Structure.loads_all_mol2, "Ens": ml.Molecule.loads_all_mol2}[kind]


def _dumps(o) -> str:
    if isinstance(o, (list, tuple)):
        return "".join(x.dumps_mol2() for x in o)
    return o.dumps_mol2()


def _raise(ex):
    return {"out": "raise", "blocks": [], "exc": f"{type(ex).__name__}: {str(ex)[:120]}"}


def run_case(o, route: str, edit=None, hist=None):
    """Build(observed) / write / read / write2 / read2 events of one real object; stops at the first exception.
    edit = (ops, object after the edits as the spec computed it): the same object is then edited and written / read
    once more (events edit / write / read).  hist = {"where": subset of {"before_read", "before_reread"}, "rnd", "prev"}:
    unrelated public-API calls (history_calls) are made at those points and the first text is read once more
    (event reread).  Returns (events, number of molli calls, first text)."""
    kind = kind_of(o)
    ev = [{"ev": "build", "obj": {"kind": kind, "blocks": abstract(o)}}]
    calls, text = 0, None
    load = _loader(kind, route)
    with warnings.catch_warnings():
        warnings.simplefilter("ignore")
        cur = o
        for w, r in (("write", "read"), ("write2", "read2")):
            try:
                calls += 1
                t = _dumps(cur)
            except Exception as ex:
                ev.append({"ev": w, "res": _raise(ex)})
                break
            ev.append({"ev": w, "res": {"out": "ok", "blocks": tokenize(t)}})      # harness errors are not outcomes
            text = text or t
            if hist and w == "write" and "before_read" in hist["where"]:
                h = history_calls(ev[-1]["res"]["blocks"], hist["rnd"], hist.get("prev"))
                calls += h["calls"]
                ev.append(h)
            try:
                calls += 1
                cur = load(t)
            except Exception as ex:
                ev.append({"ev": r, "route": route, "res": _raise(ex)})
                break
            try:
                ev.append({"ev": r, "route": route, "res": {"out": "ok", "blocks": abstract(cur)}})
            except ValueError as ex:
                # the object read back holds nan / inf / a value beyond 32 bits: certainly not what was written
                # (objects handed to run_case are in range), and not representable for TLC
                ev.append({"ev": r, "route": route, "res": {"out": "unrepresentable", "blocks": [], "exc": str(ex)[:120]}})
                break
            if hist and r == "read" and "before_reread" in hist["where"]:
                h = history_calls(ev[1]["res"]["blocks"], hist["rnd"], hist.get("prev"))
                calls += h["calls"] + 1
                ev.append(h)
                try:
                    again = load(t)                     # the same first text, once more
                    ev.append({"ev": "reread", "route": route, "res": {"out": "ok", "blocks": abstract(again)}})
                except ValueError as ex:
                    ev.append({"ev": "reread", "route": route, "res": {"out": "unrepresentable", "blocks": [], "exc": str(ex)[:120]}})
                except Exception as ex:
                    ev.append({"ev": "reread", "route": route, "res": _raise(ex)})
        if edit is not None and [e["ev"] for e in ev if e["ev"] not in ("history", "reread")] == \
                ["build", "write", "read", "write2", "read2"] and ev[-1]["res"]["out"] == "ok":
            ops, newobj = edit
            keep = apply_edits(o, ops, newobj)    # noqa: F841  (kept alive until the function returns)
            ev.append({"ev": "edit", "ops": ops, "obj": {"kind": kind, "blocks": abstract(o)}})
            calls += 1
            try:
                t = _dumps(o)                                   # the object that was written before, now edited
            except Exception as ex:
                ev.append({"ev": "write", "res": _raise(ex)})
                return ev, calls, text
            ev.append({"ev": "write", "res": {"out": "ok", "blocks": tokenize(t)}})
            calls += 1
            try:
                cur = load(t)
            except Exception as ex:
                ev.append({"ev": "read", "route": route, "res": _raise(ex)})
                return ev, calls, text
            try:
                ev.append({"ev": "read", "route": route, "res": {"out": "ok", "blocks": abstract(cur)}})
            except ValueError as ex:
                ev.append({"ev": "read", "route": route, "res": {"out": "unrepresentable", "blocks": [], "exc": str(ex)[:120]}})
    return ev, calls, text
