"""Adapter for SessionSeq: whole sessions with injected failures on real Collection objects, plus a
lock probe from a separate process after every session."""
from __future__ import annotations
import atexit, shutil, tempfile
from pathlib import Path
from ..tlc import WORK
from ..ukvparse import parse
from ..drivers_sessions import Prober, Injected


def _enc(v):
    if v is None:
        raise Injected("encoder failure")
    return v


class FailingStream:
    """Proxy around the binary stream of the backend's UKVFile: the write that carries `needle` stores half of its
    data and raises OSError (what a full disk does)."""
    def __init__(self, raw, needle):
        self._raw, self._needle = raw, needle

    def write(self, data):
        if self._needle is not None and self._needle in bytes(data):
            self._needle = None
            self._raw.write(bytes(data)[: max(1, len(data) // 2)])
            raise Injected("stream write failure (ENOSPC)")
        return self._raw.write(data)

    def __getattr__(self, name):
        return getattr(self._raw, name)


class SessionSeqAdapter:
    _shared = None

    @classmethod
    def shutdown(cls):
        if cls._shared:
            d, pr = cls._shared
            pr.close()
            shutil.rmtree(d, ignore_errors=True)
            cls._shared = None

    def __init__(self, handles=("h1", "h2"), buffered=("h2",)):
        from molli.storage import Collection, UkvCollectionBackend
        WORK.mkdir(exist_ok=True)
        cls = type(self)
        if cls._shared is None:                      # one directory + one prober process per check run
            d = Path(tempfile.mkdtemp(prefix="sseq-", dir=WORK))
            cls._shared = (d, Prober(d / "lib.ukv"))
            atexit.register(cls.shutdown)
        self.dir, self.prober = cls._shared
        self.path = self.dir / "lib.ukv"
        if self.path.exists():
            self.path.unlink()
        self.h = {}
        for n in handles:
            self.h[n] = Collection(self.path, UkvCollectionBackend, readonly=False,
                                   bufsize=100000 if n in buffered else -1, value_encoder=_enc)
        self.ns = 0

    def cleanup(self):
        for c in self.h.values():
            try:
                atexit.unregister(c._backend.flush)
            except Exception:
                pass

    def apply(self, act):
        assert act["act"] == "sess"
        lib = self.h[act["h"]]
        b = lib._backend
        self.ns += 1
        s, n, f, at = self.ns, act["n"], act["fault"], act["at"]
        mykeys = [f"{s}-{j}" for j in range(1, n + 1)]
        seen = 0
        patched = []

        def patch(name, fn):
            patched.append(name)
            setattr(b, name, fn)

        try:
            if f == "begin":
                def bad_begin():
                    raise Injected("begin failure")
                patch("begin_write" if act["kind"] == "w" else "begin_read", bad_begin)
            if f == "end":
                name = "end_write" if act["kind"] == "w" else "end_read"
                orig_end = getattr(b, name)

                def bad_end():
                    orig_end()
                    raise Injected("end failure")
                patch(name, bad_end)
            if f == "write":
                orig_write = b._write

                def bad_write(k, v):
                    if k == mykeys[at - 1]:
                        raise Injected("backend write failure")
                    return orig_write(k, v)
                patch("_write", bad_write)
            try:
                if act["kind"] == "w":
                    with lib.writing(timeout=10):
                        if f == "stream":
                            uk = b._ukvfile
                            uk._stream = FailingStream(uk._stream, mykeys[at - 1].encode() * 3)
                        seen = len(lib.keys())
                        for j, k in enumerate(mykeys, start=1):
                            if f == "body" and at == j - 1:
                                raise Injected("user code")
                            lib[k] = None if (f == "enc" and at == j) else k.encode() * 3
                        if f == "body" and at == n:
                            raise Injected("user code")
                else:
                    with lib.reading(timeout=10):
                        seen = len(lib.keys())
                        for k in list(lib.keys()):
                            assert lib[k] == k.encode() * 3
                        if f == "body":
                            raise Injected("user code")
                out = "ok"
            except Injected:
                out = "Injected"
            except Exception as e:
                out = type(e).__name__
        finally:
            for name in patched:
                try:
                    delattr(b, name)
                except AttributeError:
                    pass
        return {"out": out, "seen": seen}

    def observe(self):
        lockfree = self.prober.probe(5.0) == "acquired"
        p = parse(self.path.read_bytes())
        ids = sorted([int(x) for x in k.decode().split("-")] for k, v in p["recs"] if v == k * 3)
        bad = [k for k, v in p["recs"] if v != k * 3]
        o = {"file": ids, "lockfree": lockfree, "torn": p["junk"] > 0}
        if bad:
            o["corrupt"] = repr(bad)
        return o
