"""C15 adapter: builds real molli graph objects from abstract cases and records what the public graph
queries return, as events of spec/GraphQTrace.tla.  No expected value is computed here: the module only
generates inputs, performs the real calls and abstracts the answers (1-based positions in the atom / bond
list).  Everything is decided by TLC from GraphQ.tla.

case  = {"n": int, "el": [element names], "bonds": [[a, b, btype name], ..], "cls": class name}
query = {"q": "bfs", "api": "bfsd"|"bfs", "s": a, "d": a|0}
      | {"q": "ring", "b": bond position} | {"q": "local", "a": a}
      | {"q": "match", "api": "match"|"substr", "pat": case, "mode": "exact"|"sound", "must": [..]}
"""
from __future__ import annotations
import itertools, random

CLASSES = ("Connectivity", "Structure", "Molecule", "ConformerEnsemble")
CLASSES_Q = CLASSES + ("Substructure",)      # query-only traces (no edits): also a Substructure view of a larger molecule


def _molli():
    import molli.chem as mc
    return mc


# Attributes of atoms / bonds that the property does NOT make part of a match (it names elements and adjacency
# only): they are varied independently in target and pattern and must not change any answer.
ATYPES = ("Unknown", "Regular", "Aromatic", "CoordinationCenter", "Hypervalent", "sp3", "sp2", "sp", "Dummy",
          "AttachmentPoint", "LonePair", "N_Amide", "O_Carboxylate")
GEOMS = ("Unknown", "R1", "R2_Linear", "R2_Bent", "R3_Planar", "R3_Pyramidal", "R4_Tetrahedral", "R6_Octahedral")
ASTEREO = ("Unknown", "NotStereogenic", "R", "S", "Delta")
BSTEREO = ("Unknown", "NotStereogenic", "E", "Z", "Axial_R")


def set_deco(atom, d):
    mc = _molli()
    if "atype" in d:
        atom.atype = mc.AtomType[d["atype"]]
    if "geom" in d:
        atom.geom = mc.AtomGeom[d["geom"]]
    if "stereo" in d:
        atom.stereo = mc.AtomStereo[d["stereo"]]
    if "isotope" in d:
        atom.isotope = d["isotope"]
    if "formal_charge" in d:
        atom.formal_charge = d["formal_charge"]
    if "formal_spin" in d:
        atom.formal_spin = d["formal_spin"]
    if "attrib" in d:
        atom.attrib.update(d["attrib"])


def random_deco(rnd, side):
    """One atom's decoration.  The matcher documents two query fields of PATTERN atoms (isotope, stereo descriptor):
    those stay at their defaults in patterns; everything else varies on both sides."""
    d = {}
    if rnd.random() < 0.7:
        d["atype"] = rnd.choice(ATYPES)
    if rnd.random() < 0.5:
        d["geom"] = rnd.choice(GEOMS)
    if rnd.random() < 0.3:
        d["formal_charge"] = rnd.choice((-1, 1, 2))
    if rnd.random() < 0.2:
        d["formal_spin"] = rnd.choice((1, 2))
    if rnd.random() < 0.2:
        d["attrib"] = {"tag": rnd.choice(("x", "y"))}
    if side == "target":
        if rnd.random() < 0.3:
            d["isotope"] = rnd.choice((2, 13, 15))
        if rnd.random() < 0.3:
            d["stereo"] = rnd.choice(ASTEREO)
    return d


def decorate(case, rnd, side):
    case["deco"] = [random_deco(rnd, side) for _ in range(case["n"])]
    if side == "target":
        case["bdeco"] = [({"stereo": rnd.choice(BSTEREO)} if rnd.random() < 0.3 else {}) |
                         ({"label": f"b{i}"} if rnd.random() < 0.3 else {}) | ({"f_order": 1.5} if rnd.random() < 0.2 else {})
                         for i in range(len(case["bonds"]))]
    return case


def warm(i=0):
    """Import molli in a worker process (called once per worker before the lanes start)."""
    import time
    _molli()
    time.sleep(0.2)
    return 1


def build(case, cls=None):
    """Real object for an abstract graph; returns (object, atoms, bonds) with atoms/bonds in list order."""
    mc = _molli()
    c = mc.Connectivity(n_atoms=0)
    atoms = [mc.Atom(mc.Element[e], label=f"a{i + 1}") for i, e in enumerate(case["el"])]
    for a, d in zip(atoms, case.get("deco") or ()):
        set_deco(a, d)
    for a in atoms:
        c.append_atom(a)
    bdeco = case.get("bdeco") or [{}] * len(case["bonds"])
    for (a, b, t), bd in zip(case["bonds"], bdeco):
        bond = c.connect(atoms[a - 1], atoms[b - 1], btype=mc.BondType[t])
        if bd.get("stereo"):
            bond.stereo = mc.BondStereo[bd["stereo"]]
        if bd.get("label"):
            bond.label = bd["label"]
        if "f_order" in bd:
            bond.f_order = float(bd["f_order"])
    cls = cls or case.get("cls") or "Connectivity"
    if cls == "Connectivity":
        obj = c
    elif cls == "Structure":
        obj = mc.Structure(c)
    elif cls == "Molecule":
        obj = mc.Molecule(c)
    elif cls == "ConformerEnsemble":
        obj = mc.ConformerEnsemble(mc.Molecule(c))
    elif cls == "Substructure":
        # the case's graph as a VIEW of a larger molecule: two foreign atoms come first (one of them bonded into the
        # selection) and the selected atoms stand in REVERSE order in the parent, so that positions in the queried graph
        # and indices in the atoms' owner differ for every atom (seeded change C15-k)
        n = len(atoms)
        par = mc.Connectivity(n_atoms=0)
        x1, x2 = mc.Atom(mc.Element.F, label="x1"), mc.Atom(mc.Element.Cl, label="x2")
        for a in [x1, x2] + atoms[::-1]:
            par.append_atom(a)
        if n:
            par.connect(x1, atoms[0])
        for b in c.bonds:
            par.append_bond(b)
        pm = mc.Molecule(par)
        obj = mc.Substructure(pm, [2 + (n - 1 - j) for j in range(n)])
    else:
        raise ValueError(cls)
    return obj, list(obj.atoms), list(obj.bonds)


def graph_event(obj, atoms, bonds):
    """The graph as the object's own public accessors show it (atoms, bonds, Bond.order)."""
    pos = {a: i + 1 for i, a in enumerate(atoms)}
    bl = []
    for b in bonds:
        o2 = 2.0 * float(b.order)
        bl.append([pos[b.a1], pos[b.a2], int(round(o2)) if abs(o2 - round(o2)) < 1e-9 else -1])
    return {"ev": "graph", "n": len(atoms), "el": [a.element.name for a in atoms], "bonds": bl}


def _bond_pos(bonds, b):
    for i, x in enumerate(bonds):
        if x is b:
            return i + 1
    return 0


FORMS = ("atom", "index", "label")      # the AtomLike forms the API documents (Element = "first atom of that element" is
                                        # ambiguous on a graph and is not used); labels are unique by construction


def atomlike(atoms, a, form):
    """Interpretation of the abstract atom a (1-based position) as an argument of the public API."""
    if form == "index":
        return a - 1                    # NB: the first atom is the integer 0
    if form == "label":
        return atoms[a - 1].label
    return atoms[a - 1]


def run_query(obj, atoms, bonds, q, hooks=None):
    """Perform one real query through the handle `obj`; returns the trace event (h = name of the handle)."""
    e = _run_query(obj, atoms, bonds, q)
    e["h"] = q.get("h", "obj")
    return e


def _run_query(obj, atoms, bonds, q):
    """An exception becomes an event no action explains."""
    pos = {a: i + 1 for i, a in enumerate(atoms)}
    try:
        if q["q"] == "bfs":
            fs, fd = q.get("fs", "atom"), q.get("fd", "atom")
            s = atomlike(atoms, q["s"], fs)
            args = (s,) if not q["d"] else (s, atomlike(atoms, q["d"], fd))
            if q["api"] == "bfsd":
                y = [[pos.get(a, 0), int(k)] for a, k in obj.yield_bfsd(*args)]
            else:
                y = [[pos.get(a, 0), 0] for a in obj.yield_bfs(*args)]
            return {"ev": "bfs", "api": q["api"], "s": q["s"], "d": q["d"], "y": y, "fs": fs, "fd": fd if q["d"] else "none"}
        if q["q"] == "ring":
            r = obj.is_bond_in_ring(bonds[q["b"] - 1])
            return {"ev": "ring", "b": q["b"], "res": bool(r)}
        if q["q"] == "local":
            fa = q.get("fa") or ("atom", "atom", "atom")        # one form per accessor
            nbrs = [pos.get(x, 0) for x in obj.connected_atoms(atomlike(atoms, q["a"], fa[0]))]
            bl = [_bond_pos(bonds, b) for b in obj.bonds_with_atom(atomlike(atoms, q["a"], fa[1]))]
            v = 2.0 * float(obj.bonded_valence(atomlike(atoms, q["a"], fa[2])))
            return {"ev": "local", "a": q["a"], "nbrs": nbrs, "bonds": bl,
                    "v2": int(round(v)) if abs(v - round(v)) < 1e-9 else -1, "fa": list(fa)}
        if q["q"] == "match":
            pobj, patoms, _ = build(q["pat"], "Connectivity")
            if q["api"] == "match":
                maps = [[pos.get(m[x], 0) for x in patoms] for m in obj.match(pobj)]
            else:
                maps = [[int(i) + 1 for i in m] for m in obj.get_substr_indices(pobj)]
            p = q["pat"]
            return {"ev": "match", "api": q["api"], "pn": p["n"], "pel": p["el"], "pb": [[a, b] for a, b, _ in p["bonds"]],
                    "maps": maps, "mode": q["mode"], "must": list(q.get("must") or [])}
        raise ValueError(q)
    except Exception as e:                                    # noqa: BLE001 - the property allows no exception here
        return {"ev": "raised", "q": q["q"], "exc": type(e).__name__, "msg": str(e)[:200]}


def record(case, queries):
    """One trace: the graph event followed by one event per query."""
    obj, atoms, bonds = build(case)
    evs = [graph_event(obj, atoms, bonds)]
    for q in queries:
        evs.append(run_query(obj, atoms, bonds, q))
    return evs


# --------------------------------------------------------------------------------------------------
# input generators (pure; seeded)

BT_ANY = ("Single", "Double", "Triple", "Aromatic", "Amide", "Unknown", "Quadruple", "Dummy", "Ligand",
          "FractionalOrder", "H_Donor", "H_Acceptor")             # traversal ignores the type of a bond
BT_MATCH = ("Single", "Double", "Triple", "Aromatic", "Amide")      # types the matcher implements and relates reflexively
EL_ANY = ("C", "C", "C", "N", "O", "H", "S", "Cl", "Unknown")
EL_TGT = ("C", "C", "C", "N", "O", "S")


def pairs(n):
    return list(itertools.combinations(range(1, n + 1), 2))


def labelled_graphs(n):
    """All labelled graphs on n atoms as edge lists."""
    ps = pairs(n)
    for mask in range(1 << len(ps)):
        yield [p for i, p in enumerate(ps) if mask >> i & 1]


def connected(n, edges):
    adj = {i: set() for i in range(1, n + 1)}
    for a, b in edges:
        adj[a].add(b); adj[b].add(a)
    seen, st = {1}, [1]
    while st:
        for v in adj[st.pop()]:
            if v not in seen:
                seen.add(v); st.append(v)
    return len(seen) == n


def dress(n, edges, rnd, *, els=None, bts=None, shuffle=True, cls=None):
    """Abstract graph -> case: bond list order and bond orientation are the code's input too, so they vary."""
    edges = [tuple(e) for e in edges]
    if shuffle:
        rnd.shuffle(edges)
        edges = [(a, b) if rnd.random() < 0.5 else (b, a) for a, b in edges]
    el = [rnd.choice(els) for _ in range(n)] if not isinstance(els, list) else list(els)
    if isinstance(bts, str):
        bl = [[a, b, bts] for a, b in edges]
    else:
        bl = [[a, b, rnd.choice(bts)] for a, b in edges]
    return {"n": n, "el": el, "bonds": bl, "cls": cls or "Connectivity"}


def adjacency(case):
    adj = {i: [] for i in range(1, case["n"] + 1)}
    for a, b, _ in case["bonds"]:
        adj[a].append(b); adj[b].append(a)
    return adj


def traversal_queries(case, rnd, *, starts=None, both_apis=True):
    """Every start (or the given ones) x no direction and every neighbour as direction; every bond; every atom.
    The form in which an atom is passed (Atom object / integer index / label) rotates through all 9 (start,
    direction) combinations from a per-graph offset, so that over the enumerated graphs every atom - the first
    one, whose index is 0, included - is passed in every form in every role."""
    adj = adjacency(case)
    qs = []
    c = rnd.randrange(9)
    for s in (starts if starts is not None else range(1, case["n"] + 1)):
        for d in [0] + sorted(adj[s]):
            apis = ("bfsd", "bfs") if both_apis else (rnd.choice(("bfsd", "bfsd", "bfs")),)
            for api in apis:
                qs.append({"q": "bfs", "api": api, "s": s, "d": d, "fs": FORMS[c % 3], "fd": FORMS[(c // 3) % 3]})
                c += 1
    for i in range(1, len(case["bonds"]) + 1):
        qs.append({"q": "ring", "b": i})            # is_bond_in_ring takes a Bond object only
    for a in range(1, case["n"] + 1):
        qs.append({"q": "local", "a": a, "fa": [FORMS[(c + k) % 3] for k in range(3)]})
        c += 1
    return qs


def random_graph(rnd, n, style):
    """Edge list of a random simple graph on n atoms."""
    edges = set()
    if style == "mol":                    # tree with bounded degree + a few ring closures, possibly several fragments
        deg = {i: 0 for i in range(1, n + 1)}
        order = list(range(1, n + 1)); rnd.shuffle(order)
        for i in range(1, n):
            if rnd.random() < 0.06:
                continue                  # start a new fragment
            cand = [v for v in order[:i] if deg[v] < 4]
            if not cand:
                continue
            u = rnd.choice(cand[-6:]) if rnd.random() < 0.7 else rnd.choice(cand)
            v = order[i]
            edges.add((min(u, v), max(u, v))); deg[u] += 1; deg[v] += 1
        for _ in range(rnd.randint(0, max(1, n // 6))):
            u, v = rnd.sample(range(1, n + 1), 2) if n >= 2 else (1, 1)
            if u != v and deg[u] < 4 and deg[v] < 4:
                edges.add((min(u, v), max(u, v))); deg[u] += 1; deg[v] += 1
    else:                                 # G(n, p): dense only when small (the number of embeddings explodes otherwise)
        p = rnd.choice((0.1, 0.2, 0.35, 0.6, 0.9)) if n <= 12 else rnd.choice((1.5, 2.5, 3.0)) / n
        for a, b in pairs(n):
            if rnd.random() < p:
                edges.add((a, b))
    return sorted(edges)


def cut_pattern(case, rnd, size, *, induced=True, wild=0.0, mutate=0.0):
    """A connected sub-pattern cut out of the target: returns (pattern case, the atoms it was cut from)."""
    adj = adjacency(case)
    nodes = [rnd.randint(1, case["n"])]
    while len(nodes) < size:
        cand = sorted({v for u in nodes for v in adj[u] if v not in nodes})
        if not cand:
            break
        nodes.append(rnd.choice(cand))
    rnd.shuffle(nodes)
    where = {v: i + 1 for i, v in enumerate(nodes)}
    pb = [[where[a], where[b], t] for a, b, t in case["bonds"] if a in where and b in where]
    rnd.shuffle(pb)
    if not induced and pb:
        # drop one bond that keeps the pattern connected, if there is one
        for k in rnd.sample(range(len(pb)), len(pb)):
            rest = pb[:k] + pb[k + 1:]
            if connected(len(nodes), [(a, b) for a, b, _ in rest]):
                pb = rest
                break
    el = []
    for v in nodes:
        e = case["el"][v - 1]
        r = rnd.random()
        if r < wild:
            e = "Unknown"
        elif r < wild + mutate:
            e = rnd.choice(("C", "N", "O"))
        el.append(e)
    return {"n": len(nodes), "el": el, "bonds": pb, "cls": "Connectivity"}, nodes


# --------------------------------------------------------------------------------------------------
# jobs (run in worker processes): generate a slice of inputs, perform the real calls, return the traces

def _trace(tid, case, queries):
    return {"tid": tid, "case": case, "queries": queries, "ev": record(case, queries)}


def job_exhaustive_traversal(n, lo, hi, seed, both_apis):
    """Labelled graphs number lo..hi-1 on n atoms (bit mask over the pairs): every start, direction, bond, atom."""
    ps = pairs(n)
    out = []
    for mask in range(lo, hi):
        rnd = random.Random(f"{seed}/trav/{n}/{mask}")
        edges = [p for i, p in enumerate(ps) if mask >> i & 1]
        case = dress(n, edges, rnd, els=("C", "C", "N", "Unknown"), bts=BT_ANY)
        out.append(_trace(f"x{n}-{mask}", case, traversal_queries(case, rnd, both_apis=both_apis)))
    return out


def iso_classes(n):
    """One representative edge list per isomorphism class of connected graphs on n atoms (n <= 4: by brute force)."""
    reps, seen = [], set()
    for edges in labelled_graphs(n):
        if not connected(n, edges):
            continue
        key = min(tuple(sorted(tuple(sorted((perm[a - 1], perm[b - 1]))) for a, b in edges))
                  for perm in itertools.permutations(range(1, n + 1)))
        if key not in seen:
            seen.add(key); reps.append(edges)
    return reps


def small_patterns(rnd, pmax):
    """All connected labelled patterns on <= 3 atoms; on 4 atoms one randomly relabelled member of each class."""
    pats = []
    for n in range(1, min(pmax, 3) + 1):
        pats += [(n, e) for e in labelled_graphs(n) if connected(n, e)]
    if pmax >= 4:
        for e in iso_classes(4):
            perm = list(range(1, 5)); rnd.shuffle(perm)
            pats.append((4, [tuple(sorted((perm[a - 1], perm[b - 1]))) for a, b in e]))
    return pats


def job_exhaustive_match(n, lo, hi, seed, pmax):
    """Every labelled target lo..hi-1 on n atoms x every small connected pattern, two element dressings; one bond type."""
    ps = pairs(n)
    out = []
    for mask in range(lo, hi):
        rnd = random.Random(f"{seed}/match/{n}/{mask}")
        edges = [p for i, p in enumerate(ps) if mask >> i & 1]
        bt = rnd.choice(BT_MATCH)
        for dressing in ("plain", "elements"):
            case = dress(n, edges, rnd, els=("C",) if dressing == "plain" else ("C", "C", "N"), bts=bt,
                         cls=rnd.choice(CLASSES))
            if dressing == "elements":
                decorate(case, rnd, "target")
            qs = []
            for pn, pe in small_patterns(rnd, pmax):
                pat = dress(pn, pe, rnd, els=("C",) if dressing == "plain" else ("C", "C", "N", "Unknown", "Unknown"), bts=bt)
                if dressing == "elements":
                    decorate(pat, rnd, "pattern")
                qs.append({"q": "match", "api": rnd.choice(("match", "substr")), "pat": pat, "mode": "exact", "must": []})
            out.append(_trace(f"m{n}-{mask}-{dressing}", case, qs))
    return out


def job_small(n0, n1, _unused, seed):
    """Everything exhaustive on n0..n1 atoms in one slice (the graphs are few)."""
    out = []
    for n in range(n0, n1 + 1):
        total = 1 << (n * (n - 1) // 2)
        out += job_exhaustive_traversal(n, 0, total, seed, True)
        out += job_exhaustive_match(n, 0, total, seed, 4)
    return out


def job_random(lo, hi, seed, nmax):
    """Random graphs lo..hi-1: a traversal case (any element / bond type) and a matching case with cut-out patterns."""
    out = []
    for i in range(lo, hi):
        rnd = random.Random(f"{seed}/rand/{nmax}/{i}")
        n = rnd.randint(2, nmax) if nmax <= 12 else rnd.randint(13, nmax)
        style = "mol" if rnd.random() < 0.7 else "gnp"
        edges = random_graph(rnd, n, style)
        cls = rnd.choice(CLASSES_Q)
        case = dress(n, edges, rnd, els=EL_ANY, bts=BT_ANY, cls=cls)
        starts = None if n <= 10 else sorted(rnd.sample(range(1, n + 1), 6))
        out.append(_trace(f"r{nmax}-{i}-t", case, traversal_queries(case, rnd, starts=starts, both_apis=False)))
        # matching
        if rnd.random() < 0.5:
            style = "mol" if rnd.random() < 0.8 else "gnp"
            edges = random_graph(rnd, n, style)
        flavour = rnd.choice(("uniform", "uniform", "mixed", "mixed", "anytype-vs-unknown"))
        if flavour == "uniform":
            tb = rnd.choice(BT_MATCH)
        elif flavour == "mixed":
            tb = BT_MATCH
        else:
            tb = BT_ANY
        tcase = dress(n, edges, rnd, els=EL_TGT if rnd.random() < 0.8 else ("C",), bts=tb, cls=rnd.choice(CLASSES_Q))
        deco = rnd.random() < 0.6
        if deco:
            decorate(tcase, rnd, "target")
        qs = []
        for _ in range(4):
            size = rnd.randint(1, min(n, 4 if style == "gnp" else 6 if n <= 20 else 5))
            kind = rnd.choice(("induced", "induced", "dropped-bond", "wild", "mutated"))
            pat, nodes = cut_pattern(tcase, rnd, size, induced=(kind != "dropped-bond"),
                                     wild=0.35 if kind == "wild" else 0.0, mutate=0.3 if kind == "mutated" else 0.0)
            if flavour == "anytype-vs-unknown":
                pat["bonds"] = [[a, b, "Unknown"] for a, b, _ in pat["bonds"]]
            if deco:
                decorate(pat, rnd, "pattern")
            qs.append({"q": "match", "api": rnd.choice(("match", "substr")), "pat": pat,
                       "mode": "sound" if flavour == "mixed" else "exact", "must": nodes, "kind": kind, "flavour": flavour})
        out.append(_trace(f"r{nmax}-{i}-m", tcase, qs))
    return out


# --------------------------------------------------------------------------------------------------
# histories on the SAME target and pattern objects: queries, in-place edit, queries again

def _o2(btype):
    """Twice the order a bond of this type reports (a throw-away Bond: interpretation of the type token)."""
    mc = _molli()
    o = 2.0 * float(mc.Bond(mc.Atom("C"), mc.Atom("C"), btype=mc.BondType[btype]).order)
    return int(round(o)) if abs(o - round(o)) < 1e-9 else -1


def _view(obj):
    atoms, bonds = list(obj.atoms), list(obj.bonds)
    return atoms, bonds, graph_event(obj, atoms, bonds)


def _op(op, a=0, b=0, e="", i=0, o2=0, t="", via="", deco=None):
    return {"op": op, "a": a, "b": b, "e": e, "i": i, "o2": o2, "t": t, "via": via, **({"deco": deco} if deco else {})}


def apply_edit(obj, atoms, bonds, op, serial, handles=None):
    """The real edit for an abstract op (on the target or on the pattern object).  Structural bond edits go
    through the handle op["via"]: the object, a held view of it, or the live bond list itself ("list")."""
    mc = _molli()
    k = op["op"]
    via = op.get("via") or "obj"
    if k == "connect" and via == "list":
        obj.bonds.append(mc.Bond(atoms[op["a"] - 1], atoms[op["b"] - 1], btype=mc.BondType[op["t"]]))
        return
    if k == "delbond" and via == "list":
        obj.bonds.remove(bonds[op["i"] - 1])
        return
    if handles and via in handles:
        obj = handles[via]
    if k == "attr":
        set_deco(atoms[op["a"] - 1], op["deco"])
        return
    if k == "relabel":
        atoms[op["a"] - 1].element = mc.Element[op["e"]]
    elif k == "label":
        atoms[op["a"] - 1].label = f"z{serial}"
    elif k == "rebond":
        bonds[op["i"] - 1].btype = mc.BondType[op["t"]]
    elif k == "connect":
        obj.connect(atoms[op["a"] - 1], atoms[op["b"] - 1], btype=mc.BondType[op["t"]])
    elif k == "delbond":
        obj.del_bond(bonds[op["i"] - 1])
    elif k == "addatom":
        obj.append_atom(mc.Atom(mc.Element[op["e"]], label=f"n{serial}"))
    elif k == "delatom":
        obj.del_atom(atoms[op["a"] - 1])
    else:
        raise ValueError(op)


def _choose_edit(rnd, gev, flavour, bt, structural_atoms, pn, pel, vias=("obj",)):
    """An edit that is applicable to the graph the object shows now: ("edit" | "pedit", op)."""
    n, bl = gev["n"], gev["bonds"]
    adj = {i: set() for i in range(1, n + 1)}
    for a, b, _ in bl:
        adj[a].add(b); adj[b].add(a)
    kinds = ["relabel", "relabel", "prelabel", "prelabel", "label", "plabel", "connect", "connect", "delbond", "delbond",
             "attr", "pattr"]
    if flavour == "unk":
        kinds += ["rebond", "rebond"]
    if structural_atoms:
        kinds += ["addatom", "delatom"]
    for _ in range(20):
        k = rnd.choice(kinds)
        if k == "relabel":
            a = rnd.randint(1, n)
            e = rnd.choice([x for x in ("C", "N", "O", "S") if x != gev["el"][a - 1]])
            return "edit", _op("relabel", a=a, e=e)
        if k == "prelabel":
            a = rnd.randint(1, pn)
            e = rnd.choice([x for x in ("C", "N", "O", "Unknown", "Unknown") if x != pel[a - 1]])
            return "pedit", _op("relabel", a=a, e=e)
        if k == "attr":
            return "edit", _op("attr", a=rnd.randint(1, n), deco=random_deco(rnd, "target") or {"atype": "sp3"})
        if k == "pattr":
            return "pedit", _op("attr", a=rnd.randint(1, pn), deco=random_deco(rnd, "pattern") or {"atype": "sp3"})
        if k == "label":
            return "edit", _op("label", a=rnd.randint(1, n))
        if k == "plabel":
            return "pedit", _op("label", a=rnd.randint(1, pn))
        if k == "rebond" and bl:
            t = rnd.choice(BT_ANY)
            return "edit", _op("rebond", i=rnd.randint(1, len(bl)), t=t, o2=_o2(t))
        if k == "connect":
            free = [(a, b) for a in range(1, n + 1) for b in range(a + 1, n + 1) if b not in adj[a]]
            if free:
                a, b = rnd.choice(free)
                if rnd.random() < 0.5:
                    a, b = b, a
                t = bt if flavour == "uni" else rnd.choice(BT_ANY)
                return "edit", _op("connect", a=a, b=b, t=t, o2=_o2(t), via=rnd.choice(vias))
        if k == "delbond" and bl:
            return "edit", _op("delbond", i=rnd.randint(1, len(bl)), via=rnd.choice(vias))
        if k == "addatom" and n < 12:
            return "edit", _op("addatom", e=rnd.choice(("C", "N", "O")))
        if k == "delatom" and n > 3:
            return "edit", _op("delatom", a=rnd.randint(1, n))
    return "edit", _op("label", a=1)


def _battery(rnd, gev, focus, hs=("obj",)):
    """Queries after an edit: the match of the pattern object and a few traversal / ring / local queries near the edit."""
    n, bl = gev["n"], gev["bonds"]
    adj = {i: [] for i in range(1, n + 1)}
    for a, b, _ in bl:
        adj[a].append(b); adj[b].append(a)
    qs = [{"q": "matchp", "api": rnd.choice(("match", "substr")), "mode": "exact"}]
    starts = [a for a in focus if 1 <= a <= n][:2] or [rnd.randint(1, n)]
    starts.append(rnd.randint(1, n))
    for s in starts:
        d = rnd.choice([0] + sorted(adj[s]))
        qs.append({"q": "bfs", "api": rnd.choice(("bfsd", "bfs")), "s": s, "d": d, "fs": rnd.choice(FORMS), "fd": rnd.choice(FORMS)})
    if bl:
        near = [i + 1 for i, (a, b, _) in enumerate(bl) if a in focus or b in focus]
        qs.append({"q": "ring", "b": rnd.choice(near or list(range(1, len(bl) + 1)))})
    qs.append({"q": "local", "a": starts[0], "fa": [rnd.choice(FORMS) for _ in range(3)]})
    for q in qs:
        q["h"] = rnd.choice(hs)                       # every query through one of the handles on the graph
    if len(hs) > 1:                                   # and the listing of the edited atom through EVERY handle
        qs += [{"q": "local", "a": starts[0], "fa": [rnd.choice(FORMS) for _ in range(3)], "h": h} for h in hs]
    return qs


def history(tcase, pcase, flavour, *, rnd=None, n_edits=6, script=None):
    """One trace on ONE target graph and ONE pattern object.  The target is reached through several handles where
    the class offers them (the ensemble and two held Conformer views of it; the live bond list for edits); queries
    and edits are interleaved across the handles.  With `script` (a replay) the recorded steps are followed
    literally; otherwise the steps are chosen from what the object shows after each edit."""
    obj, atoms, bonds = build(tcase)
    pobj, patoms, pbonds = build(pcase, "Connectivity")
    atoms, bonds, gev = _view(obj)
    patoms, pbonds, pgev = _view(pobj)
    evs = [gev, {"ev": "pattern", "pn": pgev["n"], "pel": pgev["el"], "pb": [[a, b] for a, b, _ in pgev["bonds"]]}]
    handles = {"obj": obj}
    if (tcase.get("cls") or "Connectivity") == "ConformerEnsemble":
        for h in ("view", "view2"):                   # two held views of conformer 0: each is an object of its own
            handles[h] = obj[0]
            evs.append({"ev": "open", "h": h})
    hs = tuple(handles)
    vias = hs + ("list",)
    out_script = []
    bt = tcase["bonds"][0][2] if tcase["bonds"] else "Single"
    structural_atoms = (tcase.get("cls") or "Connectivity") == "Connectivity"

    def query(q):
        hobj = handles[q.get("h", "obj")]
        if q["q"] == "matchp":
            pos = {a: i + 1 for i, a in enumerate(atoms)}
            try:
                if q["api"] == "match":
                    maps = [[pos.get(m[x], 0) for x in patoms] for m in hobj.match(pobj)]
                else:
                    maps = [[int(i) + 1 for i in m] for m in hobj.get_substr_indices(pobj)]
                return {"ev": "matchp", "api": q["api"], "pel": [a.element.name for a in patoms], "maps": maps,
                        "mode": q["mode"], "h": q.get("h", "obj")}
            except Exception as e:                                # noqa: BLE001
                return {"ev": "raised", "q": "matchp", "exc": type(e).__name__, "msg": str(e)[:200], "h": q.get("h", "obj")}
        return run_query(hobj, atoms, bonds, q)

    steps = iter(script) if script is not None else None
    serial = 0
    focus = [1]
    phase_edits = 0
    pending = []
    if script is None:                                # before the first edit every handle answers once (and may cache)
        for h in hs:
            pending += [dict(q, h=h) for q in _battery(rnd, gev, focus)]
    while True:
        if steps is not None:
            st = next(steps, None)
            if st is None:
                break
        else:
            if pending:
                st = {"step": "query", "q": pending.pop(0)}
            elif phase_edits < n_edits:
                which, op = _choose_edit(rnd, gev, flavour, bt, structural_atoms, len(patoms),
                                         [a.element.name for a in patoms], vias)
                st = {"step": which, "op": op}
                phase_edits += 1
            else:
                break
        out_script.append(st)
        if st["step"] == "query":
            evs.append(query(st["q"]))
            continue
        op = st["op"]
        serial += 1
        try:
            if st["step"] == "edit":
                apply_edit(obj, atoms, bonds, op, serial, handles)
                atoms, bonds, gev = _view(obj)
                evs.append({"ev": "edit", **{k: v for k, v in op.items() if k != "deco"}, "deco": json_safe(op.get("deco")),
                            "n": gev["n"], "el": gev["el"], "bonds": gev["bonds"]})
                focus = [x for x in (op["a"], op["b"]) if x] or ([gev["bonds"][op["i"] - 1][0]] if op["op"] == "rebond" else [1])
                if op["op"] == "addatom":
                    focus = [gev["n"]]
            else:
                apply_edit(pobj, patoms, pbonds, op, serial)
                evs.append({"ev": "pedit", **{k: v for k, v in op.items() if k != "deco"}, "deco": json_safe(op.get("deco"))})
        except Exception as e:                                    # noqa: BLE001 - the edit itself failed: outside C15
            evs.append({"ev": "edit-raised", "op": op["op"], "exc": type(e).__name__, "msg": str(e)[:200]})
            break
        if steps is None:
            pending = _battery(rnd, gev, focus, hs)
    return evs, out_script


def json_safe(d):
    """Decorations are information only in a trace: a flat string keeps heterogeneous records away from TLC."""
    return "" if not d else ",".join(f"{k}={v}" for k, v in sorted(d.items()))


def job_history(lo, hi, seed, nmax):
    out = []
    for i in range(lo, hi):
        rnd = random.Random(f"{seed}/hist/{nmax}/{i}")
        n = rnd.randint(3, nmax)
        edges = random_graph(rnd, n, "mol" if rnd.random() < 0.6 else "gnp")
        flavour = rnd.choice(("uni", "unk"))
        bt = rnd.choice(BT_MATCH)
        cls = rnd.choice(("Connectivity", "Connectivity", "ConformerEnsemble", "ConformerEnsemble", "Molecule", "Structure"))
        tcase = dress(n, edges, rnd, els=("C", "C", "N", "O"), bts=bt if flavour == "uni" else BT_ANY, cls=cls)
        pat, _ = cut_pattern(tcase, rnd, rnd.randint(1, min(n, 4)), wild=0.15)
        if rnd.random() < 0.6:
            decorate(tcase, rnd, "target"); decorate(pat, rnd, "pattern")
        if flavour == "unk":
            pat["bonds"] = [[a, b, "Unknown"] for a, b, _ in pat["bonds"]]
        evs, script = history(tcase, pat, flavour, rnd=rnd, n_edits=rnd.randint(4, 7))
        out.append({"tid": f"h{nmax}-{i}", "case": tcase, "pattern": pat, "flavour": flavour, "script": script, "hist": True, "ev": evs})
    return out


LIFO_WITNESS = [(1, 2), (1, 3), (2, 4), (4, 5), (3, 5)]


def job_mutant(name, seed):
    """A fixed small workload recorded with a wrong implementation patched in: TLC must reject at least one trace."""
    out = []
    if name in HISTORY_MUTANTS:
        with patched(name):
            out = job_history(0, 40, f"{seed}/mutant/{name}", 8)
        for i, t in enumerate(out):
            t["tid"] = f"mut-{name}-{i}"
        return out
    with patched(name):
        rnd = random.Random(f"{seed}/mutant/{name}")
        ps = pairs(5)
        masks = rnd.sample(range(1 << len(ps)), 60)
        graphs = [LIFO_WITNESS] + [[p for i, p in enumerate(ps) if m >> i & 1] for m in masks]
        for gi, edges in enumerate(graphs):
            case = dress(5, edges, rnd, els=("C", "N"), bts="Aromatic")
            qs = traversal_queries(case, rnd, both_apis=True)
            if gi % 2:
                decorate(case, rnd, "target")
            for pn, pe in small_patterns(rnd, 4):
                pat = dress(pn, pe, rnd, els=("C", "Unknown"), bts="Aromatic")
                if gi % 2:
                    decorate(pat, rnd, "pattern")
                qs.append({"q": "match", "api": rnd.choice(("match", "substr")), "pat": pat, "mode": "exact", "must": []})
            out.append(_trace(f"mut-{name}-{gi}", case, qs))
    return out


# --------------------------------------------------------------------------------------------------
# code mutants (binding demonstration): realistic wrong implementations patched over the real methods

def mutants():
    mc = _molli()
    from collections import deque
    import networkx as nx
    C = mc.Connectivity

    def bfsd(lifo=False, mark_start=True, mark_dir=True, k0=1, falsy=False):
        def yield_bfsd(self, _start, _direction=None):
            start = self.get_atom(_start)
            visited = {start} if mark_start else set()
            queue = deque()
            if (not _direction) if falsy else (_direction is None):
                queue.append((start, 0))
            else:
                direction = self.get_atom(_direction)
                if mark_dir:
                    visited.add(direction)
                queue.append((direction, k0))
                yield (direction, k0)
            while queue:
                start, dist = queue.pop()
                for a in self.connected_atoms(start):
                    if a not in visited:
                        yield (a, dist + 1)
                        visited.add(a)
                        (queue.append if lifo else queue.appendleft)((a, dist + 1))
        return yield_bfsd

    def bfs_from(f):
        def yield_bfs(self, _start, _direction=None):
            for a, _ in f(self, _start, _direction):
                yield a
        return yield_bfs

    def ring_through_bond(self, _b):
        connections = {a for a in self.connected_atoms(_b.a1)}
        for a in self.yield_bfs(_b.a1, _b.a2):
            if a in connections:
                return True
        return False

    def match_mono(self, pattern, /, *, node_match=None, edge_match=None):
        m = nx.isomorphism.GraphMatcher(self.to_nxgraph(), pattern.to_nxgraph(),
                                        node_match=node_match or self._node_match, edge_match=edge_match or self._edge_match)
        for iso in m.subgraph_monomorphisms_iter():
            yield {v: k for k, v in iso.items()}

    _orig_node = C.__dict__["_node_match"].__func__

    def valence_counts(self, a):
        return float(sum(1 for _ in self.bonds_with_atom(a)))

    out = {}
    for name, f in (("LIFO", bfsd(lifo=True)), ("StartNotVisited", bfsd(mark_start=False)),
                    ("DirectionNotExcluded", bfsd(mark_dir=False)), ("DirectionAtZero", bfsd(k0=0)),
                    ("DirectionIndex0IsNone", bfsd(falsy=True))):
        out[name] = {"yield_bfsd": f, "yield_bfs": bfs_from(f)}
    out["RingThroughBond"] = {"is_bond_in_ring": ring_through_bond}
    out["NonInducedMatch"] = {"match": match_mono}
    out["WildcardOnWrongSide"] = {"_node_match": staticmethod(lambda a1, a2: _orig_node(a2, a1))}
    out["ValenceCountsBonds"] = {"bonded_valence": valence_counts}

    # memoisation in the query paths: only visible in histories (query, in-place edit, query again)
    nx_cache, adj_cache = {}, {}
    _orig_nx = C.__dict__["to_nxgraph"]

    def to_nxgraph_memo(self):
        g = nx_cache.get(id(self))
        if (g is not None and list(g.nodes) == self.atoms and g.number_of_edges() == self.n_bonds
                and all(g.has_edge(b.a1, b.a2) for b in self.bonds)):
            return g                                  # node / edge ATTRIBUTES (element, bond type) may be stale
        g = _orig_nx(self)
        nx_cache[id(self)] = g
        return g

    def connected_atoms_memo(self, a):
        _a = self.get_atom(a)
        c = adj_cache.get(id(self))
        if c is None or c[0] != list(self.atoms):
            c = (list(self.atoms), {})
            adj_cache[id(self)] = c
        if _a not in c[1]:
            c[1][_a] = [b % _a for b in self.bonds_with_atom(_a)]
        yield from c[1][_a]                           # stale after connect / del_bond

    def node_match_atype(a1, a2):                     # an attribute the property does not name decides the match
        if a1["atype"] != mc.AtomType.Unknown and a1["atype"] != a2["atype"]:
            return False
        return _orig_node(a1, a2)

    tables = {}

    def bonds_with_atom_table(self, a):               # a table per HANDLE, dropped only by edits through that handle
        _a = self.get_atom(a)
        t = tables.get(id(self))
        if t is None or t[0]() is not self:
            tab = {}
            for b in self._bonds:
                tab.setdefault(b.a1, []).append(b)
                tab.setdefault(b.a2, []).append(b)
            import weakref
            t = (weakref.ref(self), tab)
            tables[id(self)] = t
        yield from t[1].get(_a, ())

    def _dropping(name):
        orig = C.__dict__[name]

        def f(self, *a, **k):
            tables.pop(id(self), None)
            return orig(self, *a, **k)
        return f

    out["AtypeDecidesMatch"] = {"_node_match": staticmethod(node_match_atype)}
    out["PerHandleBondTable"] = {"bonds_with_atom": bonds_with_atom_table, "append_bond": _dropping("append_bond"),
                                 "del_bond": _dropping("del_bond")}
    out["MemoisedNxGraph"] = {"to_nxgraph": to_nxgraph_memo}
    out["MemoisedAdjacency"] = {"connected_atoms": connected_atoms_memo}
    return out


HISTORY_MUTANTS = ("MemoisedNxGraph", "MemoisedAdjacency", "PerHandleBondTable")


class patched:
    """Context manager: install a mutant on Connectivity (in this process only)."""
    def __init__(self, name):
        self.name, self.saved = name, {}

    def __enter__(self):
        C = _molli().Connectivity
        for k, f in mutants()[self.name].items():
            self.saved[k] = C.__dict__[k]
            setattr(C, k, f)
        return self

    def __exit__(self, *a):
        C = _molli().Connectivity
        for k, f in self.saved.items():
            setattr(C, k, f)
        return False
