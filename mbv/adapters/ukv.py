"""Adapter: UKVFile spec actions -> real molli.storage.ukvfile.UKVFile objects."""
from __future__ import annotations
import os, shutil, struct, tempfile
from pathlib import Path
from ..interp import KEYS, VALS, HDRS, key_tok, val_tok, hdr_tok
from ..ukvparse import parse
from ..tlc import WORK


def exc_name(e: BaseException) -> str:
    if isinstance(e, struct.error):
        return "error"
    return type(e).__name__


class UKVAdapter:
    def __init__(self, handles=("h1", "h2")):
        from molli.storage.ukvfile import UKVFile
        self.UKVFile = UKVFile
        WORK.mkdir(exist_ok=True)
        self.dir = Path(tempfile.mkdtemp(prefix="ukv-", dir=WORK))
        self.path = self.dir / "f.ukv"
        self.h = {}
        self.names = list(handles)
        self.n = 0       # the equivalent public forms of a call are used in turn: put / h[k] = v, get / h[k], open / with h, close / __exit__

    def cleanup(self):
        for h in self.h.values():
            try:
                h.close()
            except Exception:
                pass
        shutil.rmtree(self.dir, ignore_errors=True)

    def apply(self, act):
        a = act["act"]
        self.n += 1
        alt = self.n % 2 == 0
        try:
            if a == "newx":
                h1, h2, b0 = HDRS[act["hdr"]]
                self.h[act["h"]] = self.UKVFile(self.path, "x", h1=h1, h2=h2, b0=b0)
            elif a == "new":
                self.h[act["h"]] = self.UKVFile(self.path, act["mode"])
            elif a == "reopen":
                h = self.h[act["h"]]
                if alt and h.mode == act["mode"]:
                    assert h.__enter__() is h          # `with h:` re-opens in the mode the handle had
                else:
                    h.open(act["mode"])
            elif a == "close":
                if alt:
                    self.h[act["h"]].__exit__(None, None, None)
                else:
                    self.h[act["h"]].close()
            elif a == "put":
                if alt:
                    self.h[act["h"]][KEYS[act["k"]]] = VALS[act["v"]]
                else:
                    self.h[act["h"]].put(KEYS[act["k"]], VALS[act["v"]])
            elif a == "get":
                v = self.h[act["h"]][KEYS[act["k"]]] if alt else self.h[act["h"]].get(KEYS[act["k"]])
                return {"out": "ok", "val": val_tok(v)}
            elif a == "truncate":
                self.h[act["h"]].truncate()
            elif a == "pickle":
                import pickle
                self.h[act["h"]] = pickle.loads(pickle.dumps(self.h[act["h"]]))
            else:
                raise AssertionError(f"unknown action {a}")
        except AssertionError:
            raise
        except Exception as e:
            return {"out": exc_name(e)}
        return {"out": "ok"}

    def _hobs(self, name):
        h = self.h.get(name)
        if h is None:
            return {"mode": "none", "keys": [], "hdr": "none", "gets": {}}
        mode = "closed" if h.closed else ("a" if h.writable else "r")
        keys = sorted(key_tok(k) for k in h.keys())
        gets = {}
        if mode != "closed":
            for k in h.keys():
                try:
                    gets[key_tok(k)] = val_tok(h.get(k))
                except Exception as e:
                    gets[key_tok(k)] = "!" + exc_name(e)
            # items() and values() must tell the same story as get()
            if not any(v.startswith("!") for v in gets.values()):
                try:
                    via_items = {key_tok(k): val_tok(v) for k, v in h.items()}
                    via_values = sorted(val_tok(v) for v in h.values())
                except Exception as e:
                    via_items, via_values = {"!items": exc_name(e)}, None
                if via_items != gets:
                    gets = {"!items() disagrees with get()": via_items}
                elif via_values != sorted(gets.values()):
                    gets = {"!values() disagrees with get()": via_values}
        return {"mode": mode, "keys": keys, "hdr": hdr_tok(h.h1, h.h2, h.b0), "gets": gets}

    def observe(self):
        hob = {n: self._hobs(n) for n in self.names}
        writer_open = any(o["mode"] == "a" for o in hob.values())
        if not self.path.exists():
            fo = {"exists": False, "hdr": "none", "recs": []}
        elif writer_open:
            fo = {"exists": True, "hdr": None, "recs": None}     # buffered bytes are not file content (§3.6)
        else:
            p = parse(self.path.read_bytes())
            fo = {"exists": True, "hdr": hdr_tok(p["h1"], p["h2"], p["b0"]),
                  "recs": sorted([key_tok(k), val_tok(v)] for k, v in p["recs"])}
            if p["junk"]:
                fo["junk"] = p["junk"]
        return {**fo, "h": hob}
