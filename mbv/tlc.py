"""Thin driver around TLC: run a module with a generated cfg, collect statistics, PrintT
output, coverage and verdicts.  Exit status 2 of bin/check is reserved for failures of this layer."""
from __future__ import annotations
import json, os, re, shutil, subprocess, time, tempfile
from dataclasses import dataclass, field
from pathlib import Path

VERIF = Path(__file__).resolve().parent.parent
SPEC = VERIF / "spec"
WORK = VERIF / ".work"
JAR = "/opt/veriftools/tla/tla2tools.jar:/opt/veriftools/tla/CommunityModules-deps.jar"


class MachineryError(Exception):
    """TLC crashed / spec does not parse / no verdict printed: never a silent pass."""


@dataclass
class TLCResult:
    module: str
    cfg: str
    stdout: str
    wall_s: float
    generated: int = 0
    distinct: int = 0
    depth: int = 0
    ok: bool = False                    # finished without violation
    violated: str | None = None         # name of violated invariant / property, if any
    printed: list = field(default_factory=list)   # parsed PrintT JSON payloads
    coverage: dict = field(default_factory=dict)  # action name -> (distinct, total)
    cmd: str = ""

    def stats(self):
        return {"module": self.module, "generated": self.generated, "distinct": self.distinct,
                "depth": self.depth, "wall_s": round(self.wall_s, 2), "cmd": self.cmd}


def workdir(tag: str) -> Path:
    WORK.mkdir(exist_ok=True)
    d = Path(tempfile.mkdtemp(prefix=f"{tag}-", dir=WORK))
    return d


def write_cfg(path: Path, *, spec=None, init=None, next_=None, constants: dict | None = None,
              invariants=(), properties=(), constraints=(), action_constraints=(), view=None,
              postcondition=None, deadlock=False, symmetry=None):
    lines = []
    if spec:
        lines.append(f"SPECIFICATION {spec}")
    else:
        lines.append(f"INIT {init}")
        lines.append(f"NEXT {next_}")
    if constants:
        lines.append("CONSTANTS")
        for k, v in constants.items():
            if isinstance(v, str) and v.startswith("<-"):
                lines.append(f"  {k} {v}")
            else:
                lines.append(f"  {k} = {v}")
    for i in invariants:
        lines.append(f"INVARIANT {i}")
    for p in properties:
        lines.append(f"PROPERTY {p}")
    for c in constraints:
        lines.append(f"CONSTRAINT {c}")
    for c in action_constraints:
        lines.append(f"ACTION_CONSTRAINT {c}")
    if view:
        lines.append(f"VIEW {view}")
    if symmetry:
        lines.append(f"SYMMETRY {symmetry}")
    if postcondition:
        lines.append(f"POSTCONDITION {postcondition}")
    lines.append(f"CHECK_DEADLOCK {'TRUE' if deadlock else 'FALSE'}")
    path.write_text("\n".join(lines) + "\n")
    return path


_RE_STATS = re.compile(r"^(\d+) states generated, (\d+) distinct states found", re.M)
_RE_DEPTH = re.compile(r"depth of the complete state graph search is (\d+)")
_RE_INV = re.compile(r"Invariant (\S+) is violated")
_RE_PROP = re.compile(r"(?:Action|Temporal) propert(?:y|ies) (\S+)? ?(?:is|were) violated|property (\S+) is violated", re.I)
_RE_COV = re.compile(r"^<(\w+) line \d+, col \d+ to line \d+, col \d+ of module (\w+)(?: \([\d ]+\))?>: (\d+):(\d+)", re.M)


def parse_printed(stdout: str):
    """PrintT(ToJson(x)) prints a TLA+ string literal; decode to python objects.
    Lines that are TLA+ tuples (<<"VERDICT", ...>>) are returned as raw strings."""
    out = []
    for line in stdout.splitlines():
        line = line.strip()
        if len(line) >= 2 and line[0] == '"' and line[-1] == '"':
            try:
                inner = json.loads(line)
                if inner[:1] in "{[":
                    out.append(json.loads(inner))
                else:
                    out.append(inner)
            except Exception:
                pass
    return out


def run(module: str, cfg: Path, *, workers: int | str = 16, timeout: int = 900, simulate: str | None = None,
        depth: int | None = None, seed: int | None = None, coverage: bool = False, env: dict | None = None,
        dfs_queue: bool = False, extra=(), expect_violation: bool = False, metadir: Path | None = None,
        keep_stdout_limit: int | None = None) -> TLCResult:
    """Run TLC on spec/<module>.tla with the given cfg."""
    tla = SPEC / f"{module}.tla"
    if not tla.exists():
        raise MachineryError(f"no such module {tla}")
    md = metadir or workdir("tlcmeta")
    cmd = ["java", "-XX:+UseParallelGC", "-Xmx12g", "-Dtlc2.tool.fp.FPSet.impl=tlc2.tool.fp.OffHeapDiskFPSet"]
    cmd = ["java", "-XX:+UseParallelGC", "-Xmx12g", "-Xss64m"]
    if dfs_queue:
        cmd.append("-Dtlc2.tool.queue.IStateQueue=StateDeque")
    cmd += ["-cp", JAR, "tlc2.TLC", "-workers", str(workers), "-metadir", str(md), "-noGenerateSpecTE",
            "-config", str(cfg)]
    if simulate:
        cmd += ["-simulate", simulate]
    if depth is not None:
        cmd += ["-depth", str(depth)]
    if seed is not None:
        cmd += ["-seed", str(seed)]
    if coverage:
        cmd += ["-coverage", "1"]
    cmd += list(extra)
    cmd.append(str(tla))
    e = dict(os.environ)
    if env:
        e.update(env)
    t0 = time.time()
    try:
        p = subprocess.run(cmd, cwd=str(SPEC), env=e, capture_output=True, text=True, timeout=timeout)
    except subprocess.TimeoutExpired as ex:
        subprocess.run(["pkill", "-f", str(md)], capture_output=True)
        shutil.rmtree(md, ignore_errors=True)
        raise MachineryError(f"TLC timeout after {timeout}s on {module}")
    wall = time.time() - t0
    if metadir is None:
        shutil.rmtree(md, ignore_errors=True)
    out = p.stdout + ("\n" + p.stderr if p.stderr.strip() else "")
    r = TLCResult(module=module, cfg=cfg.read_text(), stdout=out, wall_s=wall, cmd=" ".join(cmd[6:]))
    m = _RE_STATS.findall(out)
    if m:
        r.generated, r.distinct = int(m[-1][0]), int(m[-1][1])
    m = _RE_DEPTH.search(out)
    if m:
        r.depth = int(m.group(1))
    mi = _RE_INV.search(out)
    if mi:
        r.violated = mi.group(1)
    elif "is violated" in out or "was violated" in out:
        mm = re.search(r"([\w!]+) (?:is|was) violated", out)
        r.violated = mm.group(1) if mm else "property"
    if "Deadlock reached" in out:
        r.violated = r.violated or "Deadlock"
    finished = ("Model checking completed" in out) or ("Finished in" in out and simulate is not None) \
        or (simulate is not None and "states checked" in out)
    errors = re.findall(r"^Error: (.*)$", out, re.M)
    r.ok = finished and r.violated is None and not errors and p.returncode == 0
    if coverage:
        for m in _RE_COV.finditer(out):
            d0, t0 = r.coverage.get(m.group(1), (0, 0))
            r.coverage[m.group(1)] = (d0 + int(m.group(3)), t0 + int(m.group(4)))
    r.printed = parse_printed(out)
    if not r.ok and r.violated is None:
        # parse / semantic / runtime error
        first = out.find("Error:")
        raise MachineryError(f"TLC failed on {module} (rc={p.returncode}):\n" + (out[first:first + 1500] if first >= 0 else "") + "\n...\n" + out[-1500:])
    if r.violated and not expect_violation:
        pass
    return r


def sany(module: str) -> bool:
    p = subprocess.run(["java", "-cp", JAR, "tla2sany.SANY", str(SPEC / f"{module}.tla")], cwd=str(SPEC),
                       capture_output=True, text=True, timeout=120)
    return p.returncode == 0 and "Semantic errors" not in p.stdout and "***Parse Error***" not in p.stdout


def counterexample(stdout: str) -> str:
    i = stdout.find("Error:")
    return stdout[i:i + 6000] if i >= 0 else ""
