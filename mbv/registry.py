"""Single source of truth for MANIFEST.json (bin/mkmanifest writes it from here)."""

CHECKS = {}
NOT_APPLICABLE = {
    "C11": "rigid-motion identities of pure numeric kernels (orthogonality, distances, RMSD): no discrete state or "
           "history for a TLA+ specification to decide; the discrete clause 'moves exactly the selected atoms' is "
           "covered by the Substructure actions of MolEdit (C05). See DESIGN.md section 7.",
    "C19": "pointwise float equality of compiled distance kernels / grid descriptors with their mathematical definition: "
           "no state machine, schedule or case table for TLC to enumerate. See DESIGN.md section 7.",
}
PENDING_REASON = "check not built yet in this round (planned, see DESIGN.md section 8); not claimed until it exists"


MODULES = {}


def check(pid, text, note, technique, design_ref, category="model_checking", thorough=True, modules=()):
    MODULES[pid] = tuple(modules)
    CHECKS[pid] = dict(property_id=pid, quick_cmd=f"bin/check {pid} quick",
                       **({"thorough_cmd": f"bin/check {pid} thorough"} if thorough else {}),
                       evidence_file=f"evidence/{pid}.json", replay_cmd_template=f"bin/check {pid} --replay {{path}}",
                       engine="tlc+mbv", level_claimed={"category": category, "text": text, "design_ref": design_ref},
                       level_note=note, technique=technique)


check("C02",
      "TLC exhausts the UKVFile and Backend models (3 keys incl. a 256-byte one, 2 values, 2-3 handles/collections, "
      "<=3 records, four buffer sizes) against the C02 clauses and the refinement of the insert-only KVMap; every "
      "(state, action) pair of those graphs is then executed on real UKVFile / Collection objects and the observable "
      "state (public keys/get of every handle - read through every equivalent public form: get / [], items(), values(), "
      "iteration, `in`, len; put / []=; open / `with`; explicit flush(); sessions left normally or with the caller's exception "
      "propagating out of the with block - + an independent parse of the file bytes) must equal "
      "the model's after each call.  Direction B: seeded random histories (150-300 calls, 12 keys of 1..256 bytes incl. binary, values of "
      "0..70 kB, 3 handles, pickled handles) on real UKVFile objects are validated event by event by TLC against UKVFile.tla "
      "(outcome, key listing, returned value, file size); the same for seeded random histories on several long-lived "
      "Collection objects (read-only / read-write, buffer sizes -1, 0, 6, 300, 100000) against Backend.tla.",
      "bounded model (constants in the evidence); scope: one writable handle at a time, no mode-'w' re-creation, puts "
      "only inside sessions; trusted: TLC, the harness's struct parser of the UKV format",
      "TLA+ spec (KVMap/UKVFile/Backend) model-checked with TLC; spec->code replay of every transition",
      "DESIGN.md 4/C02", modules=("KVMap", "UKVFile", "MCUKVFile", "UKVFileTrace", "Backend", "MCBackend", "BackendTrace"))

check("C03",
      "TLC exhausts UKVCrash (every crash offset of append sessions over records with lengths 0..3, recovery by r / a+put / "
      "second crash) for CommittedSurvive, ViewIsComplete, NoPartialKey, NoGapOnAppend; then real append sessions "
      "(key lengths 1..255, values 0..70 kB) are recorded by a stream wrapper, EVERY byte offset (small sessions) or "
      "every offset within 6 bytes of a structural boundary (large ones) is materialised as a crash image, six real "
      "recovery histories (UKVFile r, a+new key, a+torn key, the same handle through r-then-a and through a-r-a, Collection reading / "
      "reading-then-writing; plus a second crash at every byte of the "
      "recovery put, the bytes written IN PLACE over whatever the first crash left) are executed on it and each event trace is "
      "validated by TLC against UKVCrash.",
      "assumes a crash leaves a prefix of the session's logical byte stream and an intact file header; trusted: TLC, "
      "the stream wrapper, the harness's struct parser (only used for the header length)",
      "TLA+ spec (UKVCrash) model-checked with TLC; batched TLC trace validation of real recovery executions on "
      "enumerated crash images (fault enumeration)",
      "DESIGN.md 4/C03", modules=("UKVCrash", "MCUKVCrash", "UKVCrashTrace"))

check("C04",
      "TLC exhausts Sessions.tla (the reading()/writing() protocol step by step, 2 processes x 2 sessions x 2 puts with an "
      "exception possible in the body, in each backend write of the flush and in end_write; 3 processes in the thorough tier) "
      "for writer exclusion, durability of acknowledged records, readers seeing only complete records, lock freed and file "
      "closed when idle, and progress under fairness; the lock discipline alone (LockProto.tla) is additionally shown to have WriterExclusive and "
      "LockFreeWhenIdle as an INDUCTIVE invariant with Apalache (4 processes, unbounded time).  Binding A: every (state, whole-session-with-failure-point) pair of "
      "SessionSeq.tla is executed on real long-lived Collection objects (buffered and unbuffered); after each session a "
      "separate process must obtain the write lock and the independently parsed file must equal the model's.  Binding B: "
      "8-16 real processes with random delays and injected failures emit events inside the library lock, ordered by a "
      "flock-protected counter; TLC validates the merged trace against SessionsTrace.tla (exclusion, every session sees "
      "exactly the committed keys, reads return committed values, foreign process gets the lock after each failed session "
      "and at the end, final content = committed records)."
      "  The handle constructor is part of the model (four steps; deviation TestOutsideLock) and of B (schedules on a library "
      "that does not exist yet, all constructors racing).  B also contains schedules in which worker processes are killed with "
      "SIGKILL at random moments or kill themselves in the middle of one of their own write() calls: SessionsTrace explains "
      "them with a silent Die step per process the harness reports as killed (lock released by the OS, a prefix of the open "
      "session's puts survives as complete records).",
      "fasteners' fcntl lock trusted; threads sharing a handle / nested sessions in one process outside the claim; schedules "
      "in B are sampled, not exhaustive; bounded model constants in the evidence",
      "TLA+ specs (Sessions, SessionSeq, SessionsTrace) model-checked with TLC incl. liveness; spec->code replay with "
      "fault injection + lock probe; TLC trace validation of real multi-process executions",
      "DESIGN.md 4/C04", modules=("Sessions", "MCSessions", "SessionSeq", "MCSessionSeq", "SessionsTrace", "LockProto", "MC_LockProto"))

check("C18",
      "TLC exhausts JobMap.tla (histories of <=3 jobmap runs over 2-3 source keys with scripted per-item outcomes ok / fail / "
      "omit-return-file / killed-by-a-signal-after-writing-a-partial-return-file / succeed-on-2nd-attempt (every job has a second "
      "command that always succeeds; the job argument reaches the program on the command line, only through an input file, or only through the job's environment), two argument versions, pre-populated, foreign-key and fresh destinations; "
      "plain and vectorised jobs) for DestIsExactlySuccesses, ForeignKeysUntouched, NoReuseOfStaleOrFailed, "
      "AtMostOncePerValidInput, MustExecuteInvalid, RerunOnlyMissing.  Root paths of the TLC graph covering every abstract "
      "per-item situation class (+ seeded random paths) are replayed with the real jobmap() and real _molli_run "
      "subprocesses; after each run the per-item execution counters and the destination contents must equal the model's.",
      "real runs are sampled from the exhaustive model graph (situation-class cover + random paths; counts in the evidence); "
      "commands are sh scripts; trusted: TLC, the shell, the counter files",
      "TLA+ spec (JobMap) model-checked with TLC; spec->code replay of covering behaviours with real subprocesses",
      "DESIGN.md 4/C18", modules=("JobMap", "MCJobMap"))

check("C17",
      "Part 1: TLC exhausts JobBind.tla (every order of creating/using 3 driver instances with distinct executable, "
      "processor count and environment, <=6-7 operations) for NoCrossTalk and every (state, operation) pair is replayed on "
      "a harness-defined driver and on the real XTBDriver.  Part 2: TLC enumerates every command list of length 1..3 (4 in "
      "the thorough tier) over 6 command kinds (named/unnamed, exit 0/non-zero/killed by a signal, writing none/one/both requested "
      "files) x the forms of the optional JobInput fields (files / envars / return_files each given, explicitly empty or omitted) x the "
      "way the runner is started (absolute or relative output / scratch / job paths; PATH overridden by the job's own envars, programs found only there) and "
      "computes, step by step as run_local does, the required result (executed prefix, captured names, returned files, exit "
      "status, no residue); each job is executed by the real _molli_run and its execution log, JobOutput (stdout/stderr "
      "content, files byte for byte, input hash), exit status, materialised text/binary inputs, environment override and "
      "scratch listing are compared with TLC's result.",
      "bounded command alphabet; commands are sh scripts; trusted: TLC, sh",
      "TLA+ specs (JobBind, JobRun) model-checked with TLC; spec->code replay of every generated operation order / job",
      "DESIGN.md 4/C17", modules=("JobBind", "MCJobBind", "JobRun", "MCJobRun"))

check("C05",
      "TLC exhausts MolEdit.tla (3-4 harness-created atom identities with fixed element/label incl. a duplicated label, "
      "library-created hydrogens and attachment points, <=2-3 live atoms; actions add_atom with/without charge, append_atom, "
      "connect (also of a bonded pair: a second, parallel bond object), append_bond with 0/1/2 foreign atoms and of the reversed pair, "
      "the batch forms append_bonds / extend_bonds, del_bond (of either of two parallel bond objects), del_atom by object/index/label/element incl. failing calls, "
      "new_atom, remove_substituent, add_implicit_hydrogens, substructure translation, cloning) for Aligned, KeepsGiven, BondsInside, "
      "DeleteRemovesExactlyIncident, MovesExactlySelected, FailedIsNoOp.  Every (state, action) pair reached within the time "
      "budget is replayed on a real Molecule and a real Structure; after each call the identity-keyed observation (atom "
      "order, per-atom coordinate and charge tokens, array shapes and dtype, bond endpoints, parent/idx/get_atom_index) "
      "must equal the model's.  Direction B: seeded random edit histories of length 40 on file-loaded and cloned molecules "
      "(dendrobine, benzene, dmf, ...; Molecule and Structure; extra atoms adopted, deleted atoms re-added as the same object, "
      "hydrogens added, substituents removed, a substructure translated) are validated event by event by TLC against the same "
      "actions (MolEditTrace).",
      "small molecules only in direction A (bounds in the evidence); self-bonds and more than two bonds per pair not generated; coordinates of library-placed "
      "hydrogens are not compared; quick tier covers the pair set within a time budget (seeded order, pairs partitioned among "
      "forked workers: about 90 % / 60 % of the two quick graphs)",
      "TLA+ spec (MolEdit) model-checked with TLC; spec->code replay of the transitions with identity-keyed projection",
      "DESIGN.md 4/C05", modules=("MolEdit", "MCMolEdit", "MolEditTrace"))

check("C06",
      "TLC exhausts MolHeap.tla (objects of the seven structure classes, copy routes construct / construct with the source's own "
      "arrays as explicit arguments / pickle / deepcopy / upcast / concatenate / a | b (also with one operand without atoms) / join / extend or append into an empty ensemble / "
      "ensemble-from-molecule / "
      "conformer view, one or two mutations of any cell kind on either side, <=3 live "
      "objects) for NoSharedCell, Independent, CopyEqual, ViewWritesThrough.  Every (heap state, action) pair (quick: all 23 k, pairs partitioned among "
      "forked workers; thorough: within the budget) is replayed on real objects: a mutation bumps a counter stored in the real cell (attribute dict of object / "
      "atom / bond, nested attribute value, label, bond type, coordinate, charge, weight, atom list); after each step the "
      "counters of ALL live objects must equal the model's, a deep snapshot comparison decides `copy equals source` (incl. "
      "charges, attributes, parents, indices) at copy time and `nothing else changed` for every other object at mutation time.",
      "bounded heaps (<=3 objects); first atom / first bond / element [0,0] represent their cell kind, deep snapshots cover "
      "the rest; copy.copy is not a copy route; copying from a Substructure selection is not a route (it has no name / charge / "
      "multiplicity of its own)",
      "TLA+ spec (MolHeap) model-checked with TLC; spec->code replay with counters stored in the real cells + deep snapshots",
      "DESIGN.md 4/C06", modules=("MolHeap", "MCMolHeap"))

check("C13",
      "TLC exhausts the Cdxml reference model of the parser (node/bond tables, nested-fragment expansion, label cache) over "
      "17 (quick) / 228 (thorough) small drawings x all look-up histories of length <= 3 incl. re-opened objects, for "
      "AtomsAsDrawn, AttachmentPointsWhereDrawn, BondsAsDrawn, ChargeMultFollow, ResolvesAsDrawn/Stably, Deterministic, "
      "MirrorKeepsConstitution, MirrorFlipsHandedness; 10 named deviations each violate their clause.  Then every labelled "
      "fragment of every bundled CDXML file and of 4 (quick) / 31 (thorough) seeded variants per file (stereo marks mirrored, "
      "page translated, page children permuted, ids renumbered incl. into the range of displayed atom numbers, atom records "
      "reordered, compositions and their mirrors) is parsed by the real CDXMLFile through two objects and three look-up "
      "orders; an independent ElementTree walk supplies the abstract drawing; TLC validates each file as a trace (keys, "
      "every look-up, every repeat, every base/variant relation with signed-volume handedness tokens) against the Cdxml clauses.  Look-ups are repeated on the same handle with caller edits of the returned molecules in between (hydrogens added, charges / coordinates changed, atoms deleted): every look-up must yield the drawing's content (object identity is counted, not judged).",
      "handedness enters only as signed-volume tokens (1e-3 A^3, threshold 50) whose inversion/preservation the spec demands; "
      "label->fragment accepts group sibling or nearest-above (L1/L2); the atom correspondence is a harness-found witness "
      "verified by the spec; Dash bonds, hapto bonds and atoms bonded to hapto centres are unconstrained; trusted: TLC, Json "
      "module, ElementTree, networkx (witness search)",
      "TLA+ spec (Cdxml) model-checked with TLC incl. deviations; batched TLC trace validation (CdxmlTrace) of real parses of "
      "bundled files and generated variants",
      "DESIGN.md 4/C13", modules=("Cdxml", "MCCdxml", "CdxmlTrace"))

check("C16",
      "TLC checks HAdd.tla over the whole case table (7 centres B,C,N,O,Si,P,S x charge -1..1 x spin x every multiset of 0-3 "
      "single/double/triple/aromatic bonds x hint none/0..3 x neighbour palettes x orientations incl. exactly axis-aligned) "
      "for OnlyHydrogensAdded, CountRule, BondedOnceToCentre, PlacedRight, Idempotent, ValenceComplete; 12 named deviations "
      "each violate their clause.  Every row of the TLC-emitted table is executed on a real Molecule (first and second call) "
      "and must equal the edge (count, atoms/bonds prefix, coordinate/charge tokens, placement classes).  The same executions "
      "plus 300/3000 seeded random 3-D molecules (Molecule and Structure, rings, radicals, ions, isolated atoms, axis-aligned "
      "bonds) and all 239 bundled CDXML fragments are validated by TLC as traces of HAdd (full micro-Angstrom coordinates and "
      "1e-3 e charges before/after, measured distance/cos/finiteness of every new atom).  Molecules with a history: TLC-enumerated Build / Query* / Rewire / Query* / AddH / AddH behaviours (neighbour and valence accessors judged by the spec, count-preserving edits) are replayed pair by pair, and 400 / 4000 seeded random public-edit histories are trace-validated.",
      "case table exhaustive within the stated bounds, random part sampled; placement clauses judged by TLC on integers "
      "measured by the harness (tolerances 0.003 A, cos <= -0.03, degenerate below 0.1 A offset -> only 'not towards'); "
      "hapto-bonded centres out of the direction clause; hinted rows limited to neighbours+hint <= 4; order of new atoms/bonds "
      "and orientation left free",
      "TLA+ case-table spec model-checked with TLC; spec->code replay of every emitted row; batched TLC trace validation of real calls",
      "DESIGN.md 4/C16", modules=("HAdd", "MCHAdd", "HAddTrace"))

check("C01",
      "TLC exhausts LibCodec (reference codec of both schema versions over the MolModel value domain; library = map key -> "
      "positional record; codec chosen by the file's magic; writer + second read-only object; pre-existing legacy records) for "
      "RoundTrip, V1DomainClosed, PutAccepted, CodecByMagic, StoredInSchema over pools of abstract objects it enumerates itself "
      "(every enum member, element classes, None/empty labels, attribute classes, 0-3 atoms, bond-end orders, repeated bonds, "
      "0-3 conformers, special floats).  The enumerated Put arguments are built as real objects and stored and re-read in real "
      ".mlib/.clib files (v2 and legacy magic, incl. records placed by an independent legacy encoder and genuine bundled legacy "
      "records).  Those sessions plus seeded generated objects are abstracted into traces that TLC validates against "
      "LibCodecTrace - the verdict 'reads back as the same object' is MolModel!Same evaluated by TLC.  Sessions include every constructor form over a pre-existing file (absent / current / legacy, overwrite on and off) followed by a read through a fresh handle and a fresh process, re-reads after the caller edited a returned object, re-reads after the file was rewritten, and objects with parallel bonds (same pair twice, reversed, different type / order / attributes).",
      "bounded pools plus seeded generation; value equality per DESIGN 3.3; float32 tolerance only for coordinates, charges and "
      "weights, f_order and attribute floats exact; trusted: TLC, the abstraction function, the independent v1 codec (verified "
      "byte-for-byte against bundled files), msgpack; record byte layout free",
      "TLA+ specs (MolModel, LibCodec) model-checked with TLC incl. 10 deviations; TLC-enumerated inputs replayed into the code; "
      "batched TLC trace validation of real library sessions",
      "DESIGN.md 4/C01", modules=("MolModel", "LibCodec", "MCLibCodec", "MCLibCodecQ", "MCLibCodecT", "LibCodecTrace"))

check("C12",
      "TLC exhausts Join.tla: an implementation-shaped lattice reference model of Structure.join (3-5 fragments x 6-24 poses x "
      "every degree-1 atom as attachment point x 3-5 option records incl. overrides of 0, each call made twice across a "
      "hidden-state change) and of molli combine's iterated join (every order of 1-3 attachment indices) against "
      "ProductConstitution, ChargeMultRule, KeepsShape, NotMirrored, BondLength, Direction, BackAligned, Functional, "
      "InputsUntouched, IndexShiftCorrect.  The enumerated joins and assemblies are executed on real Structure/Molecule objects "
      "and compared with the TLC-computed product.  Every execution - enumerated, random 3-D tree/ring fragments in general, "
      "aligned, opposite and near-opposite poses, real combine._ml_assemble runs - is validated by TLC against the contract (JoinTrace).",
      "geometry enters as integers computed by the harness (micro-Angstrom distances, orientation signs of atom quadruples; "
      "tolerance 5 uA; quadruples with |volume| < 0.01 A^3 unconstrained); torsion about the new bond is free; atom order of the "
      "product and B's back-alignment are read as part of 'the intended molecule'; the molli combine CLI itself is not run "
      "(openbabel stubbed for the import)",
      "TLA+ spec model-checked with TLC; spec->code execution of enumerated cases; batched TLC trace validation of real calls",
      "DESIGN.md 4/C12", modules=("Join", "MCJoin", "JoinTrace"))

check("C07",
      "TLC exhausts Mol2Text.tla: a reference model of molli's mol2 writer/reader (typing tables transcribed from "
      "Atom.get/set_mol2_type and MOL2_BOND_TYPE_MAP) satisfies every clause of the write/read/write/read contract for every "
      "Element x AtomType x AtomGeom triple (44,982, enums read from the code), every bond type and every bounded structure "
      "(<=3 atoms, <=3 bonds, <=3 conformers, Molecule/Structure/ConformerEnsemble); eleven named deviations must each violate "
      "their clause.  On the real code the typing chain get->set->get is recorded for every triple and bond type, and "
      "TLC-generated objects (random walks of the spec's build actions; 669 quick / ~17,000 thorough, plus the bundled mol2 "
      "files) are written, read by loads_mol2 and loads_all_mol2 / ConformerEnsemble.loads_mol2, written and read again; every "
      "recorded step is validated by TLC against Mol2TextTrace, which accepts a step only if name, atom order, elements, "
      "non-empty labels, coordinates (1e-6 A), charges (1e-3 e), bonds with endpoints and expressible types, conformer "
      "count/order, acceptance of every emitted token, text fixed point and read stability all hold.  History independence: unrelated public-API calls (re-typing already typed atoms with the same tokens, reading and writing other texts) are stuttering steps of the spec and a second read of the same text must equal the first (RereadSame); round trips run in fresh worker processes in shuffled order.  Bond lists may hold two bonds over one atom pair (same or reversed direction, same or different types); charges include values that round to zero from below.",
      "typing exhaustive on model and code; structures exhaustive on the model within the bounds and sampled on the code; scope: "
      "whitespace-free labels, one-line names, finite |x| < 1e5 A, at most two bonds per atom pair, >=1 conformer; bond endpoints compared as "
      "an unordered pair; '-0.000' equals '0.000'; trusted: TLC, the Json module, the harness's mol2 tokenizer",
      "TLA+ spec (Mol2Text) model-checked with TLC incl. exhaustive typing table; TLC-generated inputs; batched TLC trace "
      "validation of real dumps/loads executions; built-in trace-mutation self-test",
      "DESIGN.md 4/C07", modules=("Mol2Text", "MCMol2Text", "Mol2TextTrace"))

check("C08",
      "TLC exhausts XyzText (objects of 0-3 atoms over {H,C,Og,dummy} and 11 coordinate values with a 7th digit up to 2000 A, "
      "ensembles of 1-3 frames, up to 3 dumps onto one stream, files of other programs in every DistanceUnit name, xyz and mol2, "
      "1-3 frames) for TextDenotesTruth, LoadFaithful, UnitsPreserveDistance.  Every (state, action) pair is executed on "
      "CartesianGeometry / Structure / Molecule / ConformerEnsemble through dumps_xyz / dump_xyz and every load / loads / "
      "load_all / loads_all entry point (path, stream, string); the written lines (independent tokenizer), the loaded "
      "micro-Angstrom values, the return shape and the class must equal what TLC computed.  Seeded random geometries (all 118 "
      "elements), multi-dump streams, files in every unit and the bundled xyz files are recorded and validated by TLC against XyzTextTrace.  Objects carry a length scale (1 or 1000 A) so that every writer class, incl. Conformer views dumped on their own, is exercised with coordinates up to 2e6 A (13-14 characters).",
      "bounded pools (constants in the evidence); |x| <= 2147 A; Bohr compared at 1e-4 A (A) or relative 5e-6 (B); written "
      "precision read off the text; trusted: TLC, harness tokenizer and renderer, Decimal",
      "TLA+ spec (XyzText) model-checked with TLC; spec->code replay of every transition; batched TLC trace validation of "
      "recorded round trips",
      "DESIGN.md 4/C08", modules=("XyzText", "MCXyzText", "XyzTextTrace"))

check("C09",
      "TLC checks Dispatch: the load / loads / load_all / loads_all decision table written from the documentation, and the state "
      "machine of dump targets (files with mode a/w, caller-owned streams), against Total, ListsWherePromised, "
      "UnsupportedIsValueError, SupportedSucceeds, RouteMatchesOtype, NameHonoured, StreamsStayOpen, StreamGrowsByText, "
      "AppendAccumulates.  Every cell fn x document (bundled and generated xyz / mol2 / cdxml / unsupported) x format argument x "
      "source kind x 5 output types x name x key, every dump cell in every target state of histories of <=2 (quick) or <=3 "
      "(thorough) dumps (StringIO and real-file streams), and loads of the produced files, is one real call.  The result must "
      "equal field-wise what the class method TLC names returns on the same input, with the shape, class, count, error class "
      "and target contents TLC computed.  Random histories are validated against DispatchTrace.",
      "openbabel absent; cdxml-from-string and otype=None not generated; file left by a refused dump left free; cdxml without "
      "key must equal one labelled molecule",
      "TLA+ decision table + state machine model-checked with TLC; spec->code replay of every cell; TLC trace validation",
      "DESIGN.md 4/C09", modules=("Dispatch", "MCDispatch", "DispatchTrace"))

check("C14",
      "TLC exhausts Ensemble.tla (constructors from atoms, molecule, list and ensemble; append/extend incl. self-extension and "
      "atom-less ensembles; scale, invert, translate, rotate and center_at_atom in exact integer arithmetic; writes through "
      "conformers; 1-3 independent iterators; dump, store, slice) for Rectangular, WriteThrough, EachOnceInOrder, "
      "TransformsOnlyCoords, DumpableAndStorable and nine further action properties.  Eight named deviations must each be caught. "
      "Every (state, action) pair of 4-6 bounded slice graphs (<=3 conformers, <=2 atoms, <=3 row mutations) is executed on real "
      "ConformerEnsemble and Conformer objects.  After each call the three arrays, every row read through held and fresh ens[i], "
      "the yielded conformers, the re-parsed xyz/mol2 text and the v2-codec round trip must equal the model.  Seeded random "
      "histories of 25-40 calls on random ensembles and the bundled pentane ensemble are validated event by event by TLC against "
      "the same actions with real micro-Angstrom / 1e-3 values.  Conformer objects obtained earlier are HELD across every later action incl. append / extend (re-allocation) and whole-array assignments; reads and writes through them are judged after every step.",
      "bounded model with constants recorded in the evidence; rotations are signed permutations, scale factors integers, "
      "coordinates multiples of 1/64 A (float32-exact); the charge row of an appended geometry, the weights of rows taken from "
      "another ensemble, extend([]) and adopt-or-refuse for an atom-less ensemble are left free; iterators and held views are not "
      "used across a change of the conformer count; trusted: TLC, numpy, the harness's text re-parsers, msgpack",
      "TLA+ spec (Ensemble) model-checked with TLC; spec->code replay of every transition of bounded slices; batched TLC trace "
      "validation of random real histories (EnsembleTrace)",
      "DESIGN.md 4/C14", modules=("Ensemble", "MCEnsemble", "EnsembleTrace"))

check("C15",
      "TLC exhausts GraphQ.tla: the FIFO/visited-set model of yield_bfsd/yield_bfs/is_bond_in_ring/bonds_with_atom takes only "
      "steps the property accepts on every labelled graph with <=4 (quick) / <=5 (thorough) atoms, every start, direction, bond "
      "and neighbour order; the level-wise distance/bridge definitions equal the declarative ball definitions on all graphs with "
      "<=5/<=6 atoms; the extension matcher equals the declarative set of induced embeddings for all targets <=4 x connected "
      "patterns <=3.  Then the real queries run on real Connectivity/Structure/Molecule/ConformerEnsemble objects (random graphs also as Substructure views of a larger molecule) for EVERY "
      "labelled graph with <=5/<=6 atoms (every start, direction, bond, atom), every target <=4/<=5 x small connected patterns, "
      "and random graphs up to 40 atoms with random elements, bond types, bond order and cut-out patterns; every single yield, "
      "ring flag, listing and mapping list is validated by TLC against GraphQTrace.  Edit histories run over several handles on ONE "
      "graph (the ensemble, two held Conformer views, the live bond list) with edits and queries interleaved across handles; attributes "
      "the property does not name (atom type, geometry, formal charge / spin, attrib; on targets also isotope, stereo, bond label / order) "
      "are varied independently in pattern and target and must not decide a match.",
      "simple graphs only; directed distance = shortest path through the chosen neighbour avoiding the start; Unknown = wildcard "
      "in patterns only; with mixed bond types only validity of returned maps and presence of the cut-out position are demanded "
      "(the code filters by bond type, which the property does not describe); matcher bond types limited to "
      "Unknown/Single/Double/Triple/Aromatic/Amide; trusted: TLC, Json module, adapter position bookkeeping",
      "TLA+ spec (GraphQ) model-checked with TLC incl. 8 deviations; batched TLC trace validation of recorded real executions; "
      "built-in corrupted-trace and code-mutant self-test",
      "DESIGN.md 4/C15", modules=("GraphQ", "MCGraphQ", "GraphQTrace"))

check("C10",
      "TLC exhausts Readers.tla (line-level machines of read_mol2+yield_from_mol2 and read_xyz+yield_from_xyz with put_back) "
      "over every line-boundary truncation, deletion, duplication, invalid-token / unknown-tag / count+-1 replacement of every "
      "generated mol2/xyz file (<=3 molecules, <=2 atoms, <=1 bond, 5 header styles) for ErrorOrComplete, GoodAccepted, "
      "Terminates; each TLC-enumerated (file, damage) pair and every bundled / molli-written / seeded text under the damage "
      "catalogue (all line cuts, all byte offsets of the last record, del/dup of every line, every closed-vocabulary token "
      "corrupted, counts +-1, seeded combinations) is given to the real Molecule.loads_all_mol2/xyz under a 5 s limit and the "
      "outcome is validated by TLC against the same contract (declared counts computed by TLC from the damaged text; reference = "
      "parse of the undamaged text, which must equal the model reader's result).  Damage classes also include token-level loss / mid-line truncation and byte-level damage (invalid UTF-8 inside tokens) written to real files, for three consuming classes (Structure, Molecule, ConformerEnsemble) through 16 entry points (path, stream, string; class loaders and ml.load / ml.load_all).",
      "bounded model; files > 400 lines sampled; content compared through a digest of public accessors; free-text fields are not "
      "corrupted; three format-level known findings (known_findings.json); trusted: TLC, harness tokenizer",
      "TLA+ spec model-checked with TLC incl. 9 deviations; fault enumeration; batched TLC trace validation of real reader outcomes",
      "DESIGN.md 4/C10", category="model_checking", modules=("Readers", "MCReaders", "ReadersTrace"))
