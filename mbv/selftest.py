"""Binding demonstrations (DESIGN section 5): corrupt one recorded field / drop one event of an accepted
trace -> the trace specification must reject it at that event; flip one adapter observation -> the
replay must report a mismatch.  Run: bin/selftest"""
from __future__ import annotations
import copy, json, sys, shutil
from . import trace as T, replay, tlc
from .evidence import Evidence
from .common import emit_graph

FAIL = []


def expect(name, cond, detail=""):
    print(("ok   " if cond else "FAIL ") + name + (f"  [{detail}]" if detail else ""), flush=True)
    if not cond:
        FAIL.append(name)


def trace_demo(name, module, cfg, good, mutations):
    v, _ = T.validate(module, [good], cfg, chunk=1, tag="self")
    expect(f"{name}: recorded trace accepted", v[good["tid"]][0] == "ACCEPT", str(v))
    for label, fn, at in mutations:
        t = copy.deepcopy(good)
        t["tid"] = good["tid"] + "-" + label
        fn(t["ev"])
        v, _ = T.validate(module, [t], cfg, chunk=1, tag="self")
        verdict = v[t["tid"]]
        ok = verdict[0] == "STUCK" and (at is None or verdict[1] == at)
        expect(f"{name}: {label} rejected" + (f" at event {at}" if at else ""), ok, str(verdict))


def main():
    # ---- C03 UKVCrashTrace
    from .checks import c03
    from .drivers_crash import CrashLab
    lab = CrashLab()
    try:
        s = lab.session(None, [(b"c0", b"committed")], [(b"a", b"xyz"), (b"bb", b"12345")])
        p = 5 + 1 + 3 + 4                                  # second record torn inside its header
        ev, _ = lab.recover(s, p, "r")
        good = {"tid": "c03", "ev": s["ev"] + ev}
    finally:
        lab.cleanup()
    n = len(s["ev"])

    def wrong_digest(e):
        e[n + 1]["gets"] = {k: "deadbeef" for k in e[n + 1]["gets"]}

    def torn_listed(e):
        e[n + 1]["keys"] = sorted(e[n + 1]["keys"] + ["K2"]); e[n + 1]["gets"]["K2"] = "da39a3ee"

    def padded(e):
        e[n + 2]["dsize"] += 7
    trace_demo("C03", "UKVCrashTrace", c03.TRACE_CFG, good,
               [("value-digest-corrupted", wrong_digest, n + 2), ("torn-record-listed", torn_listed, n + 2),
                ("file-size-padded", padded, n + 3), ("crash-event-dropped", lambda e: e.pop(n), n + 1)])

    # ---- C02 UKVFileTrace
    from .checks import c02
    from .drivers_ukv import history
    good = history(12345, 80)
    iput = next(i for i, e in enumerate(good["ev"]) if e["ev"] == "put" and e["out"] == "ok")
    iget = next(i for i, e in enumerate(good["ev"]) if e["ev"] == "get" and e["out"] == "ok")

    def lost_key(e):
        e[iput]["keys"] = e[iput]["keys"][:-1]

    def wrong_value(e):
        e[iget]["val"] = "V0" if e[iget]["val"] != "V0" else "V1"
    trace_demo("C02", "UKVFileTrace", c02.TRACE_CFG, good,
               [("put-not-listed", lost_key, iput + 1), ("get-returns-other-value", wrong_value, iget + 1),
                ("failed-put-reported-ok", lambda e: e[next(i for i, x in enumerate(e) if x["ev"] == "put" and x["out"] != "ok")].update(out="ok"), None)])

    # ---- C04 SessionsTrace
    from .drivers_sessions import run_schedule
    wd = tlc.workdir("selfmp")
    try:
        evs = run_schedule(wd / "r", 4, 12, 7, faults=True, timeout=120)
    finally:
        shutil.rmtree(wd, ignore_errors=True)
    good = {"tid": "c04", "victims": [], "ev": evs}
    cfg4 = dict(spec="TraceSpec", invariants=("WriterExclusive",))
    iw = next(i for i, e in enumerate(evs) if e["ev"] == "WBegin" and i > 5)
    ie = next(i for i, e in enumerate(evs) if e["ev"] == "WEnd")

    def stale(e):
        e[iw]["nkeys"] += 1

    def overlap(e):
        e.insert(ie, {"seq": 0, "pid": "intruder", "ev": "RBegin", "nkeys": e[ie - 1].get("nkeys", 0)})

    def lost(e):
        k = next(iter(e[-1]["content"])); e[-1]["content"].pop(k)

    def leaked(e):
        e[-1]["lock"] = "timeout"
    trace_demo("C04", "SessionsTrace", cfg4, good,
               [("stale-index-at-session-begin", stale, iw + 1), ("reader-inside-writing-session", overlap, ie + 1),
                ("record-lost-at-the-end", lost, len(evs)), ("lock-not-obtainable-at-the-end", leaked, len(evs))])

    # ---- replay binding: one flipped observation must be reported
    from .adapters.ukv import UKVAdapter

    class Flipped(UKVAdapter):
        calls = 0

        def observe(self):
            o = super().observe()
            Flipped.calls += 1
            if Flipped.calls == 40:
                o["h"]["h1"]["keys"] = o["h"]["h1"]["keys"] + ["k2x"]
            return o
    ev = Evidence("C02", "quick", 0)
    edges = emit_graph(ev, "MCUKVFile", c02.raw_cfg("quick"), role="selftest", tag="selfemit")
    for e in edges:
        e["obs"] = c02.norm_obs(e["obs"])
    g = replay.Graph(edges)
    stats, viol, *_ = replay.cover(g, lambda: Flipped(("h1", "h2")), seed=1, budget_s=20, stop_after=1)
    expect("C02 replay: flipped observation reported", len(viol) == 1, f"{len(viol)} violations after {stats['steps']} steps")
    print("SELFTEST", "FAILED: " + ", ".join(FAIL) if FAIL else "PASSED")
    return 1 if FAIL else 0


if __name__ == "__main__":
    sys.exit(main())
