"""Direction A: replay of TLC-generated behaviours in the real code.

The edges emitted by TLC (one JSON line per explored transition: from, act, to, obs) form a
labelled graph.  Every (state, action) pair is exercised on real objects along root paths; where
the spec allows several outcomes for one (state, action) the replay follows the code and accepts
iff the observed (outcome, observation) matches one allowed edge (DESIGN §2.3)."""
from __future__ import annotations
import json, hashlib, random, time
from collections import defaultdict, deque
from pathlib import Path

WILD = None  # adapter returns None for "not comparable here"


def canon(x):
    return json.dumps(x, sort_keys=True, separators=(",", ":"))


def norm(x):
    """ToJson quirks: empty function prints as [], treat [] == {}; tuples -> lists."""
    if isinstance(x, dict):
        return {k: norm(v) for k, v in x.items()}
    if isinstance(x, (list, tuple)):
        return [norm(v) for v in x]
    return x


def diff(spec, real, path=""):
    """Deep compare; real may contain None wildcards. Returns list of human-readable differences."""
    if real is WILD or spec is WILD:
        return []
    if isinstance(spec, (list, dict)) and len(spec) == 0 and isinstance(real, (list, dict)) and len(real) == 0:
        return []
    if isinstance(spec, dict) and isinstance(real, dict):
        out = []
        for k in sorted(set(spec) | set(real)):
            if k not in spec:
                out.append(f"{path}/{k}: only in code: {real[k]!r}")
            elif k not in real:
                out.append(f"{path}/{k}: only in spec: {spec[k]!r}")
            else:
                out += diff(spec[k], real[k], f"{path}/{k}")
        return out
    if isinstance(spec, list) and isinstance(real, list):
        if len(spec) != len(real):
            return [f"{path}: spec {spec!r} != code {real!r}"]
        out = []
        for i, (a, b) in enumerate(zip(spec, real)):
            out += diff(a, b, f"{path}[{i}]")
        return out
    if spec != real:
        return [f"{path}: spec {spec!r} != code {real!r}"]
    return []


class Graph:
    def __init__(self, edges, key_fields_drop=("out", "val", "seen")):
        self.nodes = {}
        self.out = defaultdict(lambda: defaultdict(list))   # node -> actkey -> [edge]
        self.init = None
        self.nedges = 0
        seen = set()
        for e in edges:
            f, t = canon(e["from"]), canon(e["to"])
            act = e["act"]
            akey = canon({k: v for k, v in act.items() if k not in key_fields_drop})
            sig = (f, akey, canon(act), t)
            if sig in seen:
                continue
            seen.add(sig)
            if self.init is None:
                self.init = f
            self.out[f][akey].append({"act": act, "to": t, "obs": norm(e.get("obs"))})
            self.nodes.setdefault(f, None)
            self.nodes.setdefault(t, None)
            self.nedges += 1

    def pairs(self):
        return [(n, a) for n in self.out for a in self.out[n]]


class Mismatch(Exception):
    def __init__(self, info):
        self.info = info


def _match(e, outcome, real):
    d = []
    for k in outcome:
        if k in e["act"] and outcome.get(k) != e["act"][k]:
            d.append(f"outcome.{k}: spec {e['act'][k]!r} != code {outcome.get(k)!r}")
    d += diff(e["obs"], real)
    return d


def step(adapter, graph, cands, akey):
    """Perform one real call for action `akey` from the candidate model states `cands` (a set: the spec
    may be nondeterministic in ways that are not immediately observable).  Returns the list of
    (node, edge) that explain what the code did, or raises Mismatch when none does."""
    act = None
    for n in cands:
        if akey in graph.out[n]:
            act = graph.out[n][akey][0]["act"]
            break
    if act is None:
        raise AssertionError("action not enabled in any candidate state")
    outcome = adapter.apply(act)
    real = adapter.observe()
    ok, problems, allowed = [], [], []
    for n in sorted(cands):
        for e in graph.out[n].get(akey, ()):
            d = _match(e, outcome, real)
            if not d:
                ok.append((n, e))
            else:
                problems.append(d)
                allowed.append({"act": e["act"], "obs": e["obs"]})
    if ok:
        return ok
    raise Mismatch({"action": act, "observed_outcome": outcome, "observed": real, "allowed": allowed[:4],
                    "differences": (problems[0] if problems else ["no edge"])[:12]})


def cover(graph: Graph, adapter_factory, *, seed=0, max_path=80, known=None, budget_s=None, stop_after=5, collect=None, only=None):
    """Exercise every (state, action) pair on real objects.  Returns (stats, violations, known_hits,
    known_gone, samples).  The replay tracks the SET of model states compatible with everything
    observed so far; a step is a violation only if no candidate state has an edge that explains the
    code's outcome and observation.  known(act) -> finding id or None: such pairs are tried only when
    nothing else is left at a state; a mismatch there is a KNOWN finding (the path ends, because the
    code has left the model), a match means the finding is gone."""
    rnd = random.Random(seed)
    todo = {n: set(acts) for n, acts in graph.out.items() if acts}       # node -> untraversed action keys
    if only is not None:                                                 # this run is responsible for a share of the pairs
        todo = {n: s2 for n, s2 in ((n, {a for a in acts if only(n, a)}) for n, acts in todo.items()) if s2}
    total_pairs = sum(len(v) for v in todo.values())
    left = total_pairs
    kn = {}                                                              # (node, akey) -> finding id (lazy)

    def is_known(n, a):
        if not known:
            return None
        if (n, a) not in kn:
            kn[(n, a)] = known(graph.out[n][a][0]["act"])
        return kn[(n, a)]

    def mark(n, a):
        nonlocal left
        s_ = todo.get(n)
        if s_ and a in s_:
            s_.discard(a)
            left -= 1
            if collect is not None:
                collect.add((n, a))
            if not s_:
                del todo[n]
            return True
        return False

    matched = 0
    stats = {"pairs": total_pairs, "edges": graph.nedges, "nodes": len(graph.nodes), "paths": 0, "steps": 0}
    violations, known_hits, known_gone, samples = [], {}, set(), []
    t0 = time.time()
    idle_paths = 0
    while left and idle_paths < 2 and len(violations) < stop_after:
        if budget_s and time.time() - t0 > budget_s:
            break
        adapter = adapter_factory()
        cands, path, progressed = {graph.init}, [], False
        stats["paths"] += 1
        try:
            while len(path) < max_path:
                node = min(cands)
                here = todo.get(node, ())
                normal = sorted(a for a in here if not is_known(node, a))
                if normal:
                    seq = [rnd.choice(normal)]
                else:
                    seq = _reach(graph, node, todo, (lambda n, a: not is_known(n, a)) if known else None)
                    if seq is None:
                        k2 = sorted(a for a in here if is_known(node, a))
                        if k2:
                            seq = [k2[0]]
                        else:
                            seq = _reach(graph, node, todo, None) if known else None
                            if seq is None:
                                break
                stop = False
                for akey in seq:
                    if not any(akey in graph.out[n] for n in cands):
                        break                       # the code took another allowed branch: re-plan
                    act0 = next(graph.out[n][akey][0]["act"] for n in sorted(cands) if akey in graph.out[n])
                    fid = known(act0) if known else None
                    try:
                        oks = step(adapter, graph, cands, akey)
                    except Mismatch as m:
                        for n in cands:
                            if mark(n, akey):
                                progressed = True
                        if fid:
                            known_hits.setdefault(fid, {"path": path + [act0], **m.info})
                        else:
                            violations.append({"path": path + [act0], **m.info})
                        stop = True
                        break
                    if fid:
                        known_gone.add(fid)
                    for n, e in oks:
                        if collect is not None:
                            collect.add((n, akey))
                        if mark(n, akey):
                            progressed = True
                            matched += 1
                    stats["steps"] += 1
                    path.append(oks[0][1]["act"])
                    cands = {e["to"] for _, e in oks}
                if stop:
                    break
        finally:
            adapter.cleanup()
        idle_paths = 0 if progressed else idle_paths + 1
        if len(samples) < 3 and len(path) > 3:
            samples.append(path[:12])
    stats["pairs_exercised"] = total_pairs - left
    stats["edges_matched"] = matched
    stats["unreached_pairs"] = left
    return stats, violations, known_hits, known_gone, samples


_PARS = {}        # job id -> parameters; filled BEFORE the pool forks, so that the children find their entry (several
                  # threads of a check may run cover_parallel at the same time: no shared single slot)
_PAR_SEQ = [0]


def _par_one(arg):
    key, i = arg
    graph, factory, seed, kw, index, nproc = _PARS[key]
    got = set()
    stats, viol, kh, kg, samples = cover(graph, factory, seed=seed * 1000 + i, collect=got,
                                         only=lambda n, a: index[(n, a)] % nproc == i, **kw)
    return stats, viol, kh, sorted(kg), samples, sorted(index[p] for p in got)


def cover_parallel(graph: Graph, adapter_factory, *, seed=0, nproc=6, **kw):
    """Several `cover` runs in forked processes, the pairs partitioned among them (pair index mod nproc; every worker also
    records the pairs it crosses on the way); the union of the pairs they exercised is reported.  Same return shape as
    `cover`.  Thread-safe: each call has its own parameter slot."""
    import multiprocessing as mp, threading
    pairs = sorted((n, a) for n, acts in graph.out.items() for a in acts)
    index = {p: i for i, p in enumerate(pairs)}
    _PAR_SEQ[0] += 1
    key = (threading.get_ident(), _PAR_SEQ[0], id(graph))
    _PARS[key] = (graph, adapter_factory, seed, kw, index, nproc)
    try:
        with mp.get_context("fork").Pool(nproc) as pool:
            res = pool.map(_par_one, [(key, i) for i in range(nproc)])
    finally:
        _PARS.pop(key, None)
    covered = set()
    stats = {"pairs": len(pairs), "edges": graph.nedges, "nodes": len(graph.nodes), "paths": 0, "steps": 0, "edges_matched": 0,
             "workers": nproc}
    viol, seen, khits, kgone, samples = [], set(), {}, set(), []
    for st, v, kh, kg, sm, got in res:
        covered.update(got)
        for k in ("paths", "steps", "edges_matched"):
            stats[k] += st[k]
        for x in v:
            sig = json.dumps([x.get("action"), x.get("differences")], sort_keys=True, default=str)
            if sig not in seen:
                seen.add(sig)
                viol.append(x)
        for k, x in kh.items():
            khits.setdefault(k, x)
        kgone.update(kg)
        samples += sm[:1]
    stats["pairs_exercised"] = len(covered)
    stats["unreached_pairs"] = len(pairs) - len(covered)
    return stats, viol, khits, kgone, samples[:3]


def _reach(graph, node, todo, pred=None):
    """Shortest action sequence from node to another state that has an untraversed pair (BFS).
    todo: node -> set of untraversed action keys; pred(n, a) filters which pairs count."""
    prev = {node: None}
    dq = deque([node])
    while dq:
        n = dq.popleft()
        if n != node and n in todo and (pred is None or any(pred(n, a) for a in todo[n])):
            seq = []
            while prev[n] is not None:
                p, a = prev[n]
                seq.append(a)
                n = p
            return seq[::-1]
        for a, es in graph.out[n].items():
            for e in es:
                if e["to"] not in prev:
                    prev[e["to"]] = (n, a)
                    dq.append(e["to"])
    return None


def run_path(adapter, path, expect=None):
    """Re-run a recorded action path (for --replay): returns list of (act, outcome, observation)."""
    out = []
    for act in path:
        o = adapter.apply(act)
        out.append({"act": act, "outcome": o, "obs": adapter.observe()})
    return out


def save_replay(prop, kind, payload) -> Path:
    d = Path(__file__).resolve().parent.parent / "replays" / prop
    d.mkdir(parents=True, exist_ok=True)
    body = json.dumps({"property": prop, "kind": kind, **payload}, indent=1, sort_keys=True, default=str)
    p = d / (hashlib.sha1(body.encode()).hexdigest()[:12] + ".json")
    p.write_text(body)
    return p


# ---------------------------------------------------------------------------------------------
# Path-based replay (for expensive real steps): enumerate root paths of the graph, choose a set that
# covers every (state, action) pair, run them in parallel worker processes.

def enumerate_paths(graph: Graph, max_len: int, limit: int = 200000):
    """All maximal action-key sequences from the initial state up to max_len (DFS over candidate sets)."""
    out = []

    def rec(cands, seq):
        if len(out) >= limit:
            return
        acts = sorted({a for n in cands for a in graph.out[n]})
        if not acts or len(seq) >= max_len:
            out.append(list(seq))
            return
        for a in acts:
            nxt = {e["to"] for n in cands for e in graph.out[n].get(a, ())}
            rec(nxt, seq + [a])
    rec({graph.init}, [])
    return out


def pairs_of_path(graph: Graph, seq):
    cands, ps = {graph.init}, set()
    for a in seq:
        for n in cands:
            if a in graph.out[n]:
                ps.add((n, a))
        cands = {e["to"] for n in cands for e in graph.out[n].get(a, ())}
    return ps


def greedy_cover(graph: Graph, paths, rnd=None, max_paths=None, feat=None):
    """Choose paths until every item that some path covers is covered (greedy set cover).  Items are
    (state, action) pairs, or - with feat(state_dict, act_dict) -> iterable - abstract situation classes."""
    cache = {}

    def items(p):
        ps = pairs_of_path(graph, p)
        if feat is None:
            return ps
        out = set()
        for n, a in ps:
            if (n, a) not in cache:
                cache[(n, a)] = frozenset(feat(json.loads(n), graph.out[n][a][0]["act"]))
            out |= cache[(n, a)]
        return out
    cover = [(items(p), p) for p in paths]
    if rnd:
        rnd.shuffle(cover)
    need = set().union(*[c for c, _ in cover]) if cover else set()
    total = len(need)
    chosen = []
    while need and cover and (max_paths is None or len(chosen) < max_paths):
        best = max(cover, key=lambda cp: len(cp[0] & need))
        gain = best[0] & need
        if not gain:
            break
        chosen.append(best[1])
        need -= gain
        cover.remove(best)
    return chosen, {"items": total, "uncovered": len(need)}


def walk(graph: Graph, adapter, seq):
    """Execute one action-key sequence; returns (n_steps_done, pairs exercised, violation or None, acts)."""
    cands, done, acts = {graph.init}, set(), []
    for a in seq:
        if not any(a in graph.out[n] for n in cands):
            break
        try:
            oks = step(adapter, graph, cands, a)
        except Mismatch as m:
            act0 = next(graph.out[n][a][0]["act"] for n in sorted(cands) if a in graph.out[n])
            return len(acts), done, {"path": acts + [act0], **m.info}, acts
        for n, e in oks:
            done.add((n, a))
        acts.append(oks[0][1]["act"])
        cands = {e["to"] for _, e in oks}
    return len(acts), done, None, acts


_G = {}


def _run_one(i):
    graph, paths, factory = _G["graph"], _G["paths"], _G["factory"]
    ad = factory()
    try:
        n, done, viol, acts = walk(graph, ad, paths[i])
    finally:
        ad.cleanup()
    return i, n, done, viol, acts


def run_paths(graph: Graph, paths, adapter_factory, nproc=8):
    import multiprocessing as mp
    _G.update(graph=graph, paths=paths, factory=adapter_factory)
    stats = {"pairs": len(graph.pairs()), "edges": graph.nedges, "nodes": len(graph.nodes), "paths": len(paths), "steps": 0}
    viols, covered, samples = [], set(), []
    ctx = mp.get_context("fork")
    with ctx.Pool(min(nproc, max(1, len(paths)))) as pool:
        for i, n, done, viol, acts in pool.imap_unordered(_run_one, range(len(paths))):
            stats["steps"] += n
            covered |= done
            if viol:
                viols.append(viol)
            if len(samples) < 3 and len(acts) >= 2:
                samples.append(acts[:6])
    stats["pairs_exercised"] = len(covered)
    stats["unreached_pairs"] = stats["pairs"] - len(covered)
    return stats, viols, samples
