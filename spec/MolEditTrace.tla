---------------------------- MODULE MolEditTrace ----------------------------
(* Direction B for C05: seeded random edit histories (length ~40) on          *)
(* file-loaded and cloned molecules, validated event by event against the     *)
(* actions of MolEdit.tla.  The identity universe (harness tags, their        *)
(* elements and labels) is read from the trace; the first event loads the     *)
(* molecule (every loaded atom has "its given" coordinate and charge).        *)
EXTENDS MolEdit, Json, IOUtils, TLCExt
VARIABLES ti, l
tvars == <<vars, ti, l>>
Traces == ndJsonDeserialize(IOEnv.TRACE_FILE)
NT == Len(Traces)
Tr == Traces[ti].ev
Ev == Tr[l]
ToSet(s) == {s[i] : i \in 1..Len(s)}
TraceIds == DOMAIN Traces[1].elem \ (ToSet(Traces[1].fresh) \cup ToSet(Traces[1].freshap))
TraceElem == Traces[1].elem
TraceLabel == Traces[1].label
TraceFresh == Traces[1].fresh
TraceFreshAP == Traces[1].freshap
TraceVal == [e \in {TraceElem[a] : a \in DOMAIN TraceElem} \cup {"H", "X"} |-> 0]
TraceQ == {}
DevNone == {}

CoordOK(s, o) == s = AnyC \/ (s.base = o.base /\ s.sh = o.sh)
(* the observation after the call: atom order, identity-keyed coordinate / charge tokens, bond set, shapes, parents *)
Observed ==
  LET o == Ev.obs IN
  /\ o.atoms = atoms'
  /\ Len(o.coords) = Len(atoms') /\ \A i \in 1..Len(atoms') : CoordOK(coord'[atoms'[i]], o.coords[i])
  /\ (HasCharges => (Len(o.chgs) = Len(atoms') /\ \A i \in 1..Len(atoms') : o.chgs[i] = chg'[atoms'[i]]))
  /\ {{b[1], b[2]} : b \in ToSet(o.bonds)} = bonds'
  /\ o.aligned /\ o.parents
  /\ last'.out = Ev.out

(* load: the file's atoms in order, its bonds; coordinates and charges are the given ones *)
TLoad == /\ Ev.ev = "load" /\ atoms = <<>>
         /\ atoms' = Ev.atoms
         /\ bonds' = {{b[1], b[2]} : b \in ToSet(Ev.bonds)}
         /\ coord' = [a \in AllId |-> IF a \in ToSet(Ev.atoms) THEN Given(a) ELSE NoneC]
         /\ chg' = [a \in AllId |-> IF a \in ToSet(Ev.atoms) THEN "q" ELSE None]
         /\ UNCHANGED <<nfresh, nap>> /\ last' = [act |-> "load", out |-> "ok"]
         /\ Observed
(* add_implicit_hydrogens on a real molecule: how many hydrogens is C16's business; here only: hydrogens are appended, *)
(* each bonded once to a live centre, everything else unchanged                                                      *)
TAddH == /\ Ev.ev = "add_h"
         /\ LET cs == Ev.centres
                fs == [k \in 1..Len(cs) |-> Fresh[nfresh + k]]
            IN /\ nfresh + Len(cs) <= Len(Fresh) /\ \A k \in 1..Len(cs) : cs[k] \in Live
               /\ atoms' = atoms \o fs
               /\ bonds' = bonds \cup {{cs[k], fs[k]} : k \in 1..Len(cs)}
               /\ coord' = [a \in AllId |-> IF \E k \in 1..Len(cs) : fs[k] = a THEN AnyC ELSE coord[a]]
               /\ chg' = [a \in AllId |-> IF \E k \in 1..Len(cs) : fs[k] = a THEN "zero" ELSE chg[a]]
               /\ nfresh' = nfresh + Len(cs) /\ UNCHANGED nap
         /\ last' = [act |-> "add_h", out |-> "ok"]
         /\ Observed
TStep ==
  \/ Ev.ev = "add_atom" /\ AddAtom(Ev.a, Ev.q) /\ Observed
  \/ Ev.ev = "append_atom" /\ AppendAtom(Ev.a) /\ Observed
  \/ Ev.ev = "connect" /\ Connect(Ev.i + 1, Ev.j + 1) /\ Observed
  \/ Ev.ev = "append_bond" /\ AppendBond(Ev.x, Ev.y) /\ Observed
  \/ Ev.ev = "del_bond" /\ DelBond({Ev.b[1], Ev.b[2]}) /\ Observed
  \/ Ev.ev = "del_atom" /\ Ev.by = "object" /\ DelAtomObj(Ev.a) /\ Observed
  \/ Ev.ev = "del_atom" /\ Ev.by = "index" /\ DelAtomIdx(Ev.i + 1) /\ Observed
  \/ Ev.ev = "del_atom" /\ Ev.by = "label" /\ DelAtomLabel(Ev.l) /\ Observed
  \/ Ev.ev = "del_atom" /\ Ev.by = "element" /\ DelAtomElem(Ev.e) /\ Observed
  \/ Ev.ev = "remove_substituent" /\ RemoveSubstituent(Ev.s, Ev.d) /\ Observed
  \/ Ev.ev = "sub_translate" /\ SubTranslate(ToSet(Ev.S)) /\ Observed
  \/ Ev.ev = "clone" /\ Clone /\ Observed
  \/ TLoad \/ TAddH
Step == /\ ti <= NT /\ l <= Len(Tr) /\ TStep /\ l' = l + 1 /\ ti' = ti
Reset == /\ atoms' = <<>> /\ bonds' = {} /\ nfresh' = 0 /\ nap' = 0
         /\ coord' = [a \in AllId |-> NoneC] /\ chg' = [a \in AllId |-> None] /\ last' = [act |-> "init", out |-> "ok"]
NextTrace == ti' = ti + 1 /\ l' = 1 /\ Reset
Finish == /\ ti <= NT /\ l = Len(Tr) + 1 /\ PrintT(<<"VERDICT", Traces[ti].tid, "ACCEPT">>) /\ NextTrace
Stuck  == /\ ti <= NT /\ l <= Len(Tr) /\ ~ENABLED Step /\ PrintT(<<"VERDICT", Traces[ti].tid, "STUCK", l>>) /\ NextTrace
TraceInit == Init /\ ti = 1 /\ l = 1
TraceNext == Step \/ Finish \/ Stuck
TraceSpec == TraceInit /\ [][TraceNext]_tvars
=============================================================================
