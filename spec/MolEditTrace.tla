---------------------------- MODULE MolEditTrace ----------------------------
(* Direction B for C05: seeded random edit histories (length ~40) on          *)
(* file-loaded and cloned molecules, validated event by event against the     *)
(* actions of MolEdit.tla.  The identity universe (harness tags, their        *)
(* elements and labels) is read from the trace; the first event loads the     *)
(* molecule (every loaded atom has "its given" coordinate and charge).        *)
EXTENDS MolEdit, Json, IOUtils, TLCExt
VARIABLES ti, l
tvars == <<vars, ti, l>>
Traces == ndJsonDeserialize(IOEnv.TRACE_FILE)
NT == Len(Traces)
Tr == Traces[ti].ev
Ev == Tr[l]
ToSet(s) == {s[i] : i \in 1..Len(s)}
TraceIds == DOMAIN Traces[1].elem \ (ToSet(Traces[1].fresh) \cup ToSet(Traces[1].freshap))
TraceElem == Traces[1].elem
TraceLabel == Traces[1].label
TraceFresh == Traces[1].fresh
TraceFreshAP == Traces[1].freshap
TraceVal == [e \in {TraceElem[a] : a \in DOMAIN TraceElem} \cup {"H", "X"} |-> 0]
TraceQ == {}
DevNone == {}

(* written as values (IF .. THEN TRUE ELSE FALSE): a disjunction or a quantifier that is a conjunct of an action makes   *)
(* TLC branch / recurse per element while it enumerates successor states (2^k branches for k library-placed atoms)      *)
CoordOK(s, o) == IF s = AnyC THEN TRUE ELSE (IF s.base = o.base /\ s.sh = o.sh THEN TRUE ELSE FALSE)
AllCoordsOK(o) == IF \A i \in 1..Len(atoms') : CoordOK(coord'[atoms'[i]], o.coords[i]) THEN TRUE ELSE FALSE
AllChgsOK(o) == IF \A i \in 1..Len(atoms') : o.chgs[i] = chg'[atoms'[i]] THEN TRUE ELSE FALSE
(* the observation after the call: atom order, identity-keyed coordinate / charge tokens, bond set, shapes, parents *)
Observed ==
  LET o == Ev.obs IN
  /\ o.atoms = atoms'
  /\ Len(o.coords) = Len(atoms') /\ AllCoordsOK(o) = TRUE
  /\ (HasCharges => (Len(o.chgs) = Len(atoms') /\ AllChgsOK(o) = TRUE))
  /\ {{b[1], b[2]} : b \in ToSet(o.bonds)} = bonds'
  /\ {{b[1], b[2]} : b \in ToSet(o.dbl)} = dbl'
  /\ o.aligned /\ o.parents
  /\ last'.out = Ev.out

(* load: the file's atoms in order, its bonds; coordinates and charges are the given ones *)
TLoad == /\ Ev.ev = "load" /\ atoms = <<>>
         /\ atoms' = Ev.atoms
         /\ bonds' = {{b[1], b[2]} : b \in ToSet(Ev.bonds)} /\ dbl' = {}
         /\ coord' = [a \in AllId |-> IF a \in ToSet(Ev.atoms) THEN Given(a) ELSE NoneC]
         /\ chg' = [a \in AllId |-> IF a \in ToSet(Ev.atoms) THEN "q" ELSE None]
         /\ UNCHANGED <<nfresh, nap, view>> /\ last' = [act |-> "load", out |-> "ok"]
         /\ Observed
(* add_implicit_hydrogens on a real molecule: how many hydrogens is C16's business; here only: hydrogens are appended, *)
(* each bonded once to a live centre, everything else unchanged                                                      *)
FreshSet(n0, n) == {Fresh[n0 + k] : k \in 1..n}
HBonds(cs, n0) == {{cs[k], Fresh[n0 + k]} : k \in 1..Len(cs)}
CentresLive(cs) == IF \A k \in 1..Len(cs) : cs[k] \in Live THEN TRUE ELSE FALSE      \* evaluated as one value
TAddH == /\ Ev.ev = "add_h"
         /\ nfresh + Len(Ev.centres) <= Len(Fresh)
         /\ CentresLive(Ev.centres) = TRUE
         /\ atoms' = atoms \o [k \in 1..Len(Ev.centres) |-> Fresh[nfresh + k]]
         /\ bonds' = bonds \cup HBonds(Ev.centres, nfresh)
         /\ coord' = [a \in AllId |-> IF a \in FreshSet(nfresh, Len(Ev.centres)) THEN AnyC ELSE coord[a]]
         /\ chg' = [a \in AllId |-> IF a \in FreshSet(nfresh, Len(Ev.centres)) THEN "zero" ELSE chg[a]]
         /\ nfresh' = nfresh + Len(Ev.centres) /\ UNCHANGED <<nap, view, dbl>>
         /\ last' = [act |-> "add_h", out |-> "ok"]
         /\ Observed
TEdit ==
  \/ Ev.ev = "add_atom" /\ AddAtom(Ev.a, Ev.q) /\ Observed
  \/ Ev.ev = "append_atom" /\ AppendAtom(Ev.a) /\ Observed
  \/ Ev.ev = "new_atom" /\ NewAtom(Ev.a) /\ Observed
  \/ Ev.ev = "connect" /\ Connect(Ev.i + 1, Ev.j + 1) /\ Observed
  \/ Ev.ev = "append_bond" /\ AppendBond(Ev.x, Ev.y) /\ Observed
  \/ Ev.ev = "del_bond" /\ DelBond({Ev.b[1], Ev.b[2]}, Ev.which) /\ Observed
  \/ Ev.ev = "append_bond_par" /\ AppendBondPar(Ev.x, Ev.y) /\ Observed
  \/ Ev.ev \in {"append_bonds", "extend_bonds"} /\ AppendBonds2(Ev.x1, Ev.y1, Ev.x2, Ev.y2, Ev.ev) /\ Observed
  \/ Ev.ev = "del_atom" /\ Ev.by = "object" /\ DelAtomObj(Ev.a) /\ Observed
  \/ Ev.ev = "del_atom" /\ Ev.by = "index" /\ DelAtomIdx(Ev.i + 1) /\ Observed
  \/ Ev.ev = "del_atom" /\ Ev.by = "label" /\ DelAtomLabel(Ev.l) /\ Observed
  \/ Ev.ev = "del_atom" /\ Ev.by = "element" /\ DelAtomElem(Ev.e) /\ Observed
  \/ Ev.ev = "remove_substituent" /\ RemoveSubstituent(Ev.s, Ev.d) /\ Observed
  \/ Ev.ev = "sub_translate" /\ SubTranslate(ToSet(Ev.S)) /\ Observed
  \/ Ev.ev = "clone" /\ Clone /\ Observed
  \/ TLoad \/ TAddH
TStep == \/ TEdit
         \/ (Ev.ev = "make_view" /\ MakeView(ToSet(Ev.S)) /\ Observed)
         \/ (Ev.ev = "view_translate" /\ ViewTranslate /\ Observed)
Step == /\ ti <= NT /\ l <= Len(Tr) /\ TStep /\ l' = l + 1 /\ ti' = ti
Reset == /\ atoms' = <<>> /\ bonds' = {} /\ dbl' = {} /\ nfresh' = 0 /\ nap' = 0 /\ view' = {}
         /\ coord' = [a \in AllId |-> NoneC] /\ chg' = [a \in AllId |-> None] /\ last' = [act |-> "init", out |-> "ok"]
NextTrace == ti' = ti + 1 /\ l' = 1 /\ Reset
Finish == /\ ti <= NT /\ l = Len(Tr) + 1 /\ PrintT(<<"VERDICT", Traces[ti].tid, "ACCEPT">>) /\ NextTrace
Stuck  == /\ ti <= NT /\ l <= Len(Tr) /\ ~ENABLED Step /\ PrintT(<<"VERDICT", Traces[ti].tid, "STUCK", l>>) /\ NextTrace
TraceInit == Init /\ ti = 1 /\ l = 1
TraceNext == Step \/ Finish \/ Stuck
TraceSpec == TraceInit /\ [][TraceNext]_tvars
=============================================================================
