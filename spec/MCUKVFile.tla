----------------------------- MODULE MCUKVFile -----------------------------
EXTENDS UKVFile, Json
(* constants for the tiers *)
KeysQ == {"k1", "k2", "kBig"}
KeysT == {"k1", "k2", "kBig", "k255", "kBin"}
KeysB == {"k1", "k255", "kBin"}
KLen  == [k \in KeysT |-> CASE k = "k1" -> 2 [] k = "k2" -> 2 [] k = "kBig" -> 256 [] k = "k255" -> 255 [] k = "kBin" -> 4]
ValsQ == {"vE", "v1"}
ValsT == {"vE", "v1", "v70k"}
VLen  == [v \in ValsT \cup {"v1b"} |-> CASE v = "vE" -> 0 [] v = "v1" -> 3 [] v = "v1b" -> 3 [] v = "v70k" -> 70000]
H2    == {"h1", "h2"}
H3    == {"h1", "h2", "h3"}
HdrQ  == {"hdDef", "hdFull"}
HL    == [h \in HdrQ |-> IF h = "hdDef" THEN 0 ELSE 25]
DevNone == {}
DevPhantom == {"PhantomToc"}
DevStale == {"StaleReopen"}
DevSizeOnly == {"SizeOnlyShortcut"}
DevNeverClears == {"NeverClearsToc"}
DevTruncKeeps == {"TruncateKeepsToc"}
KeysX == {"k1", "k2"}
HdrX == {"hdDef"}
ValsE == {"v1", "v1b"}     \* two values of the same length

View == sv
Emit == PrintT(ToJson([from |-> sv, act |-> last', to |-> sv', obs |-> Obs']))
=============================================================================
