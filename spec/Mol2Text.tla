------------------------------ MODULE Mol2Text ------------------------------
(* C07: mol2 written by molli reads back as the same molecule.                  *)
(*                                                                              *)
(* One object (Molecule / Structure / ConformerEnsemble) is built, written as   *)
(* mol2 text, read back, written again and read again:                          *)
(*      Build -> Write -> Read -> Write2 -> Read2        (phase 1 .. 5)         *)
(* and, after a write, the SAME object may be edited (bond re-typed, atom       *)
(* re-typed / re-labelled / moved, renamed) and goes through the cycle again:   *)
(* whatever the writer remembers from the first write must not reach the text.  *)
(* The CONTRACT (the clauses of C07) is the list of state predicates at the end *)
(* of this module.  They only relate the abstract object `obj`, what was read   *)
(* back (`back`, `back2`) and the tokens of the two texts (`text`, `text2`); the *)
(* text layout itself is free.                                                  *)
(*                                                                              *)
(* The module also contains a reference MODEL of molli's writer and reader      *)
(* (WriteModel / ReadModel, with the atom- and bond-typing tables EmitAtom /    *)
(* AcceptAtom / EmitBond / AcceptBond transcribed from Atom.get/set_mol2_type   *)
(* and MOL2_BOND_TYPE_MAP).  TLC checks that the model satisfies the contract   *)
(* for every element x atom type x geometry triple, every bond type and every   *)
(* bounded structure, and that each named deviation (a realistic bug) breaks    *)
(* it.  The real code is bound by trace validation (Mol2TextTrace): every       *)
(* recorded Build/Write/Read/Write2/Read2 step must lead to a state in which    *)
(* the same predicates hold.                                                    *)
(*                                                                              *)
(* Numbers: a coordinate is [a |-> whole Angstrom, f |-> fraction in 1e-7 A]     *)
(* (same sign, |f| < 10^7) so that 32-bit integers reach +-99999 A; a partial    *)
(* charge is an integer in 1e-5 e.                                               *)
EXTENDS Integers, Sequences, FiniteSets, TLC

CONSTANTS Elements, AtomTypes, AtomGeoms, BondTypes,   \* vocabularies, read from the code at run time
          Kinds,            \* subset of {"Mol", "Struct", "Ens"}
          Names,            \* one-line names
          AtomPool,         \* atom recipes [el, at, g, lab, xi, qi]
          BondPool,         \* bond types used while building
          XyzSeq, QSeq,     \* coordinate triples / charges; conformer c of an atom uses entry xi+c-1 (cyclic)
          MaxAtoms, MaxBonds, MaxConfs,
          MaxPar,           \* bonds allowed over one atom pair (parallel bonds: connect() twice, either direction)
          MaxEdits,         \* edits of the built object (each followed by a new write/read cycle of the SAME object)
          EditBonds,        \* bond types an existing bond may be re-typed to
          AliasPick,        \* alias modes the model picks from (subset of AliasModes)
          WithHistory,      \* BOOLEAN: the model also takes History / Reread steps
          EditPhases,       \* phases in which the model edits (the contract allows any phase >= 2: after a write)
          Deviations        \* named wrong behaviours of the model (non-vacuity; list of realistic bugs)

VARIABLES rec,      \* recipe under construction (model only)
          phase,    \* 0 building, 1 built, 2 written, 3 read, 4 written again, 5 read again
          obj,      \* the object as seen through its public accessors: [kind, blocks]
          text,     \* tokens of the first text:  [out, blocks]
          back,     \* object read back:          [out, blocks]
          text2, back2,
          edits,    \* number of edits made to the object since it was built
          pend,     \* model only: the edit that was picked and is applied by the next step
          again,    \* what a later read of the SAME first text returned (Nothing if it was not read again)
          hist,     \* model only: unrelated calls of the public API happened in the process (see History)
          last
vars == <<rec, phase, obj, text, back, text2, back2, edits, pend, again, hist, last>>
sv   == <<rec, phase, obj, text, back, text2, back2, edits, pend, again, hist>>

Unit      == 10000000          \* 1 A in coordinate fraction units (1e-7 A)
CoordTol  == 10                \* 1e-6 A  : the written precision of coordinates
ChargeTol == 100               \* 1e-3 e  : the written precision of partial charges
Expressible == {"Single", "Double", "Triple", "Aromatic", "Amide", "Dummy", "NotConnected", "Unknown"}

Abs(n)    == IF n >= 0 THEN n ELSE -n
MinI(a, b) == IF a <= b THEN a ELSE b
MaxI(a, b) == IF a >= b THEN a ELSE b
Nothing   == [out |-> "none", blocks |-> <<>>]
Raised    == [out |-> "raise", blocks |-> <<>>]
NoObj     == [kind |-> "none", blocks |-> <<>>]
NoAlias   == [mode |-> "none", atoms |-> <<>>]
NoRec     == [kind |-> "none", name |-> "", atoms |-> <<>>, bonds |-> <<>>, nconf |-> 0, na |-> 0, nb |-> 0, nc |-> 0,
              alias |-> NoAlias]

(* ------------------------------------------------------------------------- *)
(* Typing tables (model of Atom.get_mol2_type / set_mol2_type, bond.py)       *)
(* ------------------------------------------------------------------------- *)
Tok(p, s) == [pre |-> p, suf |-> s]

EmitAtom(x) ==
  LET el == x.el  at == x.at  g == x.g IN
  IF at = "Regular" /\ "RegularShadowsGeometry" \in Deviations THEN Tok(el, "")   \* as found: a Regular atom never shows its geometry
  ELSE IF at = "LonePair" /\ "LonePairAsLP" \in Deviations THEN Tok("LP", "")      \* SYBYL spelling the reader does not know
  ELSE IF at = "Dummy" THEN Tok("Du", el)
  ELSE IF at = "sp"    THEN Tok(el, "1")
  ELSE IF at = "sp2"   THEN Tok(el, "2")
  ELSE IF at = "sp3"   THEN Tok(el, "3")
  ELSE IF el = "C" THEN (IF at = "Aromatic" THEN Tok(el, "ar")
                         ELSE IF at = "C_Guanidinium" /\ g = "R3_Planar" THEN Tok(el, "cat")
                         ELSE Tok(el, ""))
  ELSE IF el = "N" THEN (IF at = "N_Ammonium" /\ g = "R4_Tetrahedral" THEN Tok(el, "4")
                         ELSE IF at = "N_Amide" /\ g = "R3_Planar" THEN Tok(el, "am")
                         ELSE IF at = "Aromatic" THEN Tok(el, "ar")
                         ELSE IF g = "R3_Planar" THEN Tok(el, "pl3")
                         ELSE Tok(el, ""))
  ELSE IF el = "O" THEN (IF at = "O_Carboxylate" /\ g = "R1" THEN Tok(el, "co2") ELSE Tok(el, ""))
  ELSE IF el = "S" THEN (IF at = "O_Sulfoxide" /\ g = "R3_Pyramidal" THEN Tok(el, "O")
                         ELSE IF at = "O_Sulfone" /\ g = "R4_Tetrahedral" THEN Tok(el, "O2")
                         ELSE Tok(el, ""))
  ELSE IF g = "R3_Planar"      THEN Tok(el, "pl3")
  ELSE IF g = "R6_Octahedral"  THEN Tok(el, "oh")
  ELSE IF g = "R4_Tetrahedral" THEN Tok(el, "th")
  ELSE Tok(el, "")

Rejected == [out |-> "raise", el |-> "", at |-> "", g |-> ""]
(* the reader starts from a fresh atom (Unknown element, Regular, geometry Unknown) *)
AcceptAtom(t) ==
  LET pre == t.pre  suf == t.suf
      el  == IF pre = "Du" THEN "Unknown" ELSE pre
      \* deviation ReaderMemoFromHistory: the reader replays, per token, the state of whatever atom the token was FIRST
      \* interpreted on; fields the token does not set then carry that atom's earlier type (here: an aromatic one)
      A(at, g) == [out |-> "ok", el |-> el, g |-> g,
                   at |-> IF at = "Regular" /\ hist /\ "ReaderMemoFromHistory" \in Deviations THEN "Aromatic" ELSE at]
  IN IF pre # "Du" /\ pre \notin Elements THEN Rejected
     ELSE IF suf = "4"   THEN (IF el = "N" THEN A("N_Ammonium", "R4_Tetrahedral") ELSE Rejected)
     ELSE IF suf = "3"   THEN A("sp3", "Unknown")
     ELSE IF suf = "2"   THEN A("sp2", "Unknown")
     ELSE IF suf = "1"   THEN A("sp", "Unknown")
     ELSE IF suf = "ar"  THEN A("Aromatic", "Unknown")
     ELSE IF suf = "am"  THEN (IF el = "N" THEN A("N_Amide", "R3_Planar") ELSE A("Regular", "Unknown"))
     ELSE IF suf = "cat" /\ el = "C" THEN A("C_Guanidinium", "R3_Planar")
     ELSE IF suf = "pl3" THEN A("Regular", "R3_Planar")
     ELSE IF suf = "co2" /\ el = "O" THEN A("O_Carboxylate", "R1")
     ELSE IF suf = "O"   /\ el = "S" THEN A("O_Sulfoxide", "R3_Pyramidal")
     ELSE IF suf = "O2"  /\ el = "S" THEN A("O_Sulfone", "R4_Tetrahedral")
     ELSE IF suf = "oh"  THEN A("Regular", "R6_Octahedral")
     ELSE IF suf = "th"  THEN A("Regular", "R4_Tetrahedral")
     ELSE IF pre = "Du"  THEN [out |-> "ok", at |-> "Dummy", g |-> "Unknown",
                               el |-> IF "DummyLosesElement" \in Deviations THEN "Unknown"
                                      ELSE IF suf \in Elements THEN suf ELSE "Unknown"]
     ELSE A("Regular", "Unknown")

EmitBond(bt) ==
  IF bt = "Single" THEN "1" ELSE IF bt = "Double" THEN "2" ELSE IF bt = "Triple" THEN "3"
  ELSE IF bt = "Aromatic" THEN "ar"
  ELSE IF bt = "Amide" THEN (IF "AmideAsSingle" \in Deviations THEN "1" ELSE "am")
  ELSE IF bt = "Dummy" THEN "du" ELSE IF bt = "NotConnected" THEN "nc"
  ELSE IF bt = "Ligand" /\ "LigandToken" \in Deviations THEN "lig"
  ELSE "un"                                             \* everything mol2 cannot express
AcceptBond(tok) ==
  IF tok = "1" THEN "Single" ELSE IF tok = "2" THEN "Double" ELSE IF tok = "3" THEN "Triple"
  ELSE IF tok = "4" THEN "Quadruple" ELSE IF tok = "5" THEN "Quintuple" ELSE IF tok = "6" THEN "Sextuple"
  ELSE IF tok = "ar" THEN "Aromatic" ELSE IF tok = "am" THEN "Amide" ELSE IF tok = "du" THEN "Dummy"
  ELSE IF tok = "un" THEN "Unknown" ELSE IF tok = "nc" THEN "NotConnected" ELSE "rejected"

(* the typing clause for one observed (triple -> token -> atom -> token) chain; used by the trace spec *)
AtomTypingContract(el, tok, res, tok2) == res.out = "ok" /\ res.el = el /\ tok2 = tok
BondTypingContract(bt, tok, res, tok2) == res # "rejected" /\ tok2 = tok /\ (bt \in Expressible => res = bt)

(* ------------------------------------------------------------------------- *)
(* Building (model only): New, AddAtom*, Connect*, AddConf*, Build            *)
(* ------------------------------------------------------------------------- *)
Cyc(s, i)      == s[((i - 1) % Len(s)) + 1]
CoordOf(p, c)  == Cyc(XyzSeq, p.xi + c - 1)
ChargeOf(p, c) == Cyc(QSeq, p.qi + c - 1)
BlockOf(r, c) ==
  [name  |-> r.name,
   atoms |-> [i \in 1..Len(r.atoms) |-> [el |-> r.atoms[i].el, at |-> r.atoms[i].at, g |-> r.atoms[i].g, lab |-> r.atoms[i].lab]],
   xyz   |-> [i \in 1..Len(r.atoms) |-> CoordOf(r.atoms[i], c)],
   q     |-> IF r.kind = "Struct" THEN <<>> ELSE [i \in 1..Len(r.atoms) |-> ChargeOf(r.atoms[i], c)],
   bonds |-> [i \in 1..Len(r.bonds) |-> [a |-> MinI(r.bonds[i].a, r.bonds[i].b), b |-> MaxI(r.bonds[i].a, r.bonds[i].b),
                                         bt |-> r.bonds[i].bt]]]
ObjOf(r) == [kind |-> r.kind, blocks |-> [c \in 1..r.nconf |-> BlockOf(r, c)]]

(* New fixes the target sizes, so that a random walk (TLC -simulate) yields objects of every size *)
New(k, n, na, nb, nc) ==
  /\ phase = 0 /\ rec.kind = "none"
  /\ rec' = [kind |-> k, name |-> n, atoms |-> <<>>, bonds |-> <<>>, nconf |-> 1, na |-> na, nb |-> nb, nc |-> nc,
             alias |-> NoAlias]
  /\ UNCHANGED <<hist, again, pend, edits, phase, obj, text, back, text2, back2>> /\ last' = [act |-> "new"]
CanAddAtom == phase = 0 /\ rec.kind # "none" /\ Len(rec.atoms) < rec.na
AddAtom(p) == /\ CanAddAtom
              /\ rec' = [rec EXCEPT !.atoms = Append(@, p)]
              /\ UNCHANGED <<hist, again, pend, edits, phase, obj, text, back, text2, back2>> /\ last' = [act |-> "addatom"]
OverPair(i, j) == Cardinality({k \in 1..Len(rec.bonds) : {rec.bonds[k].a, rec.bonds[k].b} = {i, j}})
CanConnect == phase = 0 /\ rec.kind # "none" /\ Len(rec.atoms) = rec.na /\ Len(rec.bonds) < rec.nb
Connect(i, j, bt) ==
  /\ CanConnect
  /\ i \in 1..Len(rec.atoms) /\ j \in 1..Len(rec.atoms) /\ i # j
  /\ OverPair(i, j) < MaxPar                                                      \* the bond list is a sequence, a pair may repeat
  /\ rec' = [rec EXCEPT !.bonds = Append(@, [a |-> i, b |-> j, bt |-> bt])]       \* (i, j) in the order given to connect()
  /\ UNCHANGED <<hist, again, pend, edits, phase, obj, text, back, text2, back2>> /\ last' = [act |-> "connect"]
(* connect() once more over the pair of bond k with the same type, in the same or in the reversed direction *)
Parallel(k, rev) ==
  /\ CanConnect /\ k \in 1..Len(rec.bonds) /\ OverPair(rec.bonds[k].a, rec.bonds[k].b) < MaxPar
  /\ rec' = [rec EXCEPT !.bonds = Append(@, IF rev THEN [a |-> rec.bonds[k].b, b |-> rec.bonds[k].a, bt |-> rec.bonds[k].bt]
                                                  ELSE rec.bonds[k])]
  /\ UNCHANGED <<hist, again, pend, edits, phase, obj, text, back, text2, back2>> /\ last' = [act |-> "parallel"]
Sized == phase = 0 /\ rec.kind # "none" /\ Len(rec.atoms) = rec.na /\ Len(rec.bonds) = rec.nb
AddConf == /\ Sized /\ rec.nconf < rec.nc
           /\ rec' = [rec EXCEPT !.nconf = @ + 1]
           /\ UNCHANGED <<hist, again, pend, edits, phase, obj, text, back, text2, back2>> /\ last' = [act |-> "addconf"]
Build == /\ Sized /\ rec.nconf = rec.nc
         /\ phase' = 1 /\ obj' = ObjOf(rec)
         /\ UNCHANGED <<hist, again, pend, edits, rec, text, back, text2, back2>> /\ last' = [act |-> "build"]

(* ------------------------------------------------------------------------- *)
(* The four calls.  Do*(x) only records the outcome x; the model instantiates *)
(* x with WriteModel / ReadModel, the trace spec with what the code did.      *)
(* ------------------------------------------------------------------------- *)
DoBuild(o)  == phase = 0 /\ phase' = 1 /\ obj' = o   /\ UNCHANGED <<hist, again, pend, edits, rec, text, back, text2, back2>> /\ last' = [act |-> "build"]
DoWrite(t)  == phase = 1 /\ phase' = 2 /\ text' = t  /\ UNCHANGED <<hist, again, pend, edits, rec, obj, back, text2, back2>>  /\ last' = [act |-> "write"]
DoRead(b)   == phase = 2 /\ phase' = 3 /\ back' = b  /\ again' = Nothing /\ UNCHANGED <<hist, pend, edits, rec, obj, text, text2, back2>>  /\ last' = [act |-> "read"]
DoWrite2(t) == phase = 3 /\ phase' = 4 /\ text2' = t /\ UNCHANGED <<hist, again, pend, edits, rec, obj, text, back, back2>>   /\ last' = [act |-> "write2"]
DoRead2(b)  == phase = 4 /\ phase' = 5 /\ back2' = b /\ UNCHANGED <<hist, again, pend, edits, rec, obj, text, back, text2>>   /\ last' = [act |-> "read2"]

(* An edit of the built object through its public attributes (typically after it has been written once); the SAME *)
(* object then goes through Write/Read again and the whole contract applies to the edited object.  An ALIAS is   *)
(* the edit that changes nothing: some of the object's atoms are also put, without copying, into another        *)
(* container (kept alive, or dropped again) or looked at through a view; the object is the same object and its   *)
(* text must still denote it, whatever parent / index bookkeeping the atoms now carry.                           *)
DoEdit(o) == /\ phase >= 1
             /\ phase' = 1 /\ obj' = o /\ edits' = edits + 1
             /\ UNCHANGED <<hist, again, pend, rec, text, back, text2, back2>> /\ last' = [act |-> "edit"]
(* model: an edit is picked (PickEdit: bond re-typed / atom re-typed and re-labelled / atom moved / renamed) and     *)
(* applied by the next step (ApplyEdit), so that a random walk prints exactly the edit it takes                      *)
NoPend == [d |-> [op |-> "none"], r |-> NoRec]
CanEdit == /\ rec.kind # "none" /\ edits < MaxEdits /\ pend = NoPend
           /\ phase \in EditPhases \/ (phase = 1 /\ edits > 0)
EditTo(r, d) == /\ r # rec /\ pend' = [d |-> d, r |-> r]
                /\ UNCHANGED <<hist, again, rec, phase, obj, text, back, text2, back2, edits>> /\ last' = [act |-> "pick"]
RetypeBond(i, bt) == EditTo([rec EXCEPT !.bonds[i].bt = bt], [op |-> "bond", i |-> i, bt |-> bt])          \* bond.btype = ...
RetypeAtom(i, p)  == EditTo([rec EXCEPT !.atoms[i] = [p EXCEPT !.xi = rec.atoms[i].xi, !.qi = rec.atoms[i].qi]],
                            [op |-> "atom", i |-> i, el |-> p.el, at |-> p.at, g |-> p.g, lab |-> p.lab])   \* element, atype, geom, label
MoveAtom(i)       == EditTo([rec EXCEPT !.atoms[i].xi = @ + 1, !.atoms[i].qi = @ + 1], [op |-> "move", i |-> i])  \* coords, charges
Rename(n)         == EditTo([rec EXCEPT !.name = n], [op |-> "name", n |-> n])
AliasModes == {"promol", "struct", "dropped", "view"}   \* Promolecule / Structure of the atoms (re-parenting them), the same
                                                        \* dropped again (parent gone), Substructure or Conformer view
AtomSeqs(n) == {q \in UNION {[1..k -> 1..n] : k \in 1..n} : \A i, j \in DOMAIN q : i # j => q[i] # q[j]}
AliasAtoms(m, q)  == EditTo([rec EXCEPT !.alias = [mode |-> m, atoms |-> q]], [op |-> "alias", mode |-> m, atoms |-> q])
PickEdit == /\ CanEdit
            /\ \/ \E i \in 1..Len(rec.bonds), bt \in EditBonds : RetypeBond(i, bt)
               \/ \E i \in 1..Len(rec.atoms), p \in AtomPool : RetypeAtom(i, p)
               \/ \E i \in 1..Len(rec.atoms) : MoveAtom(i)
               \/ \E n \in Names : Rename(n)
               \/ \E m \in AliasPick, q \in AtomSeqs(Len(rec.atoms)) : AliasAtoms(m, q)
ApplyEdit == /\ pend # NoPend
             /\ rec' = pend.r /\ obj' = ObjOf(pend.r) /\ phase' = 1 /\ edits' = edits + 1 /\ pend' = NoPend
             /\ UNCHANGED <<hist, again, text, back, text2, back2>> /\ last' = [act |-> "edit", op |-> pend.d]

(* HISTORY INDEPENDENCE.  What a read returns is a function of the text alone, and what a write emits a function  *)
(* of the object alone: calls the public API allows on OTHER objects (set_mol2_type / get_mol2_type on atoms and  *)
(* bonds that already carry a type, reading or writing other texts) are stuttering steps of this specification,   *)
(* wherever they occur; the contract must hold as if they had not happened, and reading the same text once more   *)
(* must return the same object (RereadSame).                                                                      *)
DoReread(b) == /\ phase >= 3 /\ again' = b
               /\ UNCHANGED <<hist, pend, edits, rec, phase, obj, text, back, text2, back2>> /\ last' = [act |-> "reread"]
History == /\ WithHistory /\ ~hist /\ phase \in 1..4 /\ pend = NoPend
           /\ hist' = TRUE                                    \* invisible to the contract: no other variable changes
           /\ UNCHANGED <<again, pend, edits, rec, phase, obj, text, back, text2, back2>> /\ last' = [act |-> "history"]

(* ----- reference model of dump_mol2 ---------------------------------------- *)
RoundTo(n, m) == IF n >= 0 THEN ((n + m \div 2) \div m) * m ELSE -(((-n + m \div 2) \div m) * m)
RoundCoord(c, m) == LET rf == RoundTo(c.f, m) IN
                    IF rf >= Unit THEN [a |-> c.a + 1, f |-> 0]
                    ELSE IF rf <= -Unit THEN [a |-> c.a - 1, f |-> 0]
                    ELSE [a |-> c.a, f |-> rf]
CoordStep == IF "FourDecimals" \in Deviations THEN 1000 ELSE 10        \* {x:>12.6f}
WLabel(a) == IF a.lab = "" THEN a.el
             ELSE IF "LabelTruncated" \in Deviations /\ a.lab = "Fe_long_label" THEN "Fe_" ELSE a.lab
(* a charge AS WRITTEN: value rounded to 1e-3 e and nz = 1 for a negative-zero token ("-0.000").  The sign of a zero *)
(* token matters for the equality of two texts (TextFixedPoint), not for ChargesPreserved.  Required: a charge that  *)
(* rounds to zero is written as 0.000 on EVERY write.  Deviation NegativeZeroChargeToken (as found): -0.0003 is      *)
(* written "-0.000", read back as -0.0 and then written "0.000" (`c or 0.0`): the second text differs.               *)
WCharge(q) == [v  |-> RoundTo(q, 100),
               nz |-> IF "NegativeZeroChargeToken" \in Deviations /\ q < 0 /\ RoundTo(q, 100) = 0 THEN 1 ELSE 0]
(* `old` is the text block this same object produced at its previous write (empty if none): a writer that caches *)
(* tokens per atom / bond object re-emits them after an edit (deviations StaleBondTokenCache, StaleAtomTokenCache)   *)
NoTextBlock == [name |-> "", atoms |-> <<>>, bonds |-> <<>>]
OldBlock(old, c) == IF old.out = "ok" /\ c <= Len(old.blocks) THEN old.blocks[c] ELSE NoTextBlock
(* deviation EndpointsViaParentIndex: bond endpoints are taken from atom.idx, i.e. from the position of the atom in *)
(* the container that adopted it last (al = the alias in force), not from its position in the object being written *)
InSeq(q, i)  == \E k \in DOMAIN q : q[k] = i
PosIn(q, i)  == CHOOSE k \in DOMAIN q : q[k] = i
Foreign(al)  == "EndpointsViaParentIndex" \in Deviations /\ al.mode \in {"promol", "struct", "dropped"}
IdxOf(al, i) == IF Foreign(al) /\ InSeq(al.atoms, i) THEN PosIn(al.atoms, i) ELSE i
IdxRaises(al, blocks) == /\ Foreign(al) /\ al.mode = "dropped"                   \* idx is None -> TypeError
                         /\ \E c \in 1..Len(blocks) : \E i \in 1..Len(blocks[c].bonds) :
                               InSeq(al.atoms, blocks[c].bonds[i].a) \/ InSeq(al.atoms, blocks[c].bonds[i].b)
WBlock(b, old, al) ==
  [name  |-> b.name,
   atoms |-> [i \in 1..Len(b.atoms) |->
                [lab |-> WLabel(b.atoms[i]),
                 xyz |-> [d \in 1..3 |-> RoundCoord(b.xyz[i][d], CoordStep)],
                 tok |-> IF "StaleAtomTokenCache" \in Deviations /\ i <= Len(old.atoms) THEN old.atoms[i].tok
                         ELSE EmitAtom(b.atoms[i]),
                 q   |-> WCharge(IF Len(b.q) = 0 \/ "ChargeColumnDropped" \in Deviations THEN 0 ELSE b.q[i])]],
   bonds |-> [i \in 1..Len(b.bonds) |->
                [a |-> IdxOf(al, b.bonds[i].a), b |-> IdxOf(al, b.bonds[i].b),
                 tok |-> IF "StaleBondTokenCache" \in Deviations /\ i <= Len(old.bonds) THEN old.bonds[i].tok
                         ELSE EmitBond(b.bonds[i].bt)]]]
WriteModel(kind, blocks, old, al) ==
  IF kind = "Struct" /\ "StructDumpsRecursion" \in Deviations THEN Raised      \* as found: dumps_mol2 calls itself
  ELSE IF IdxRaises(al, blocks) THEN Raised
  ELSE [out |-> "ok", blocks |-> [c \in 1..Len(blocks) |-> WBlock(blocks[c], OldBlock(old, c), al)]]

(* ----- reference model of read_mol2 + yield_from_mol2 ----------------------- *)
TokensAccepted(t) ==
  \A c \in 1..Len(t.blocks) :
     /\ \A i \in 1..Len(t.blocks[c].atoms) : AcceptAtom(t.blocks[c].atoms[i].tok).out = "ok"
     /\ \A i \in 1..Len(t.blocks[c].bonds) : AcceptBond(t.blocks[c].bonds[i].tok) # "rejected"
Shift(i, n) == IF "EndpointShift" \in Deviations THEN (i % n) + 1 ELSE i        \* atoms[b.a1] for atoms[b.a1 - 1]
(* deviation RepeatedPairReadsSingle: the reader types bonds through a cache keyed on (atom pair, token): a later record *)
(* over the same pair (either direction) with the same token is a cache hit and keeps the default type Single          *)
SeenBefore(bs, i) == \E k \in 1..(i - 1) : {bs[k].a, bs[k].b} = {bs[i].a, bs[i].b} /\ bs[k].tok = bs[i].tok
RBlock(kind, t) ==
  LET n == Len(t.atoms) IN
  [name  |-> t.name,
   atoms |-> [i \in 1..n |-> LET r == AcceptAtom(t.atoms[i].tok) IN [el |-> r.el, at |-> r.at, g |-> r.g, lab |-> t.atoms[i].lab]],
   xyz   |-> [i \in 1..n |-> t.atoms[i].xyz],
   q     |-> IF kind = "Struct" THEN <<>> ELSE [i \in 1..n |-> t.atoms[i].q.v],   \* float("-0.000") = -0.0 = 0
   bonds |-> [i \in 1..Len(t.bonds) |-> [a |-> MinI(Shift(t.bonds[i].a, n), Shift(t.bonds[i].b, n)),
                                         b |-> MaxI(Shift(t.bonds[i].a, n), Shift(t.bonds[i].b, n)),
                                         bt |-> IF "RepeatedPairReadsSingle" \in Deviations /\ SeenBefore(t.bonds, i) THEN "Single"
                                                ELSE AcceptBond(t.bonds[i].tok)]]]
ReadModel(kind, t) ==
  IF t.out # "ok" \/ ~TokensAccepted(t) THEN Raised
  ELSE LET n == Len(t.blocks)
           src(c) == IF kind = "Ens" /\ "ConformerOrderLost" \in Deviations THEN n + 1 - c ELSE c
       IN [out |-> "ok", blocks |-> [c \in 1..n |-> RBlock(kind, t.blocks[src(c)])]]

Write  == pend = NoPend /\ DoWrite(WriteModel(obj.kind, obj.blocks, text, rec.alias))          \* `text` = previous text of this object, if any
Read   == pend = NoPend /\ DoRead(ReadModel(obj.kind, text))
Write2 == pend = NoPend /\ DoWrite2(IF back.out = "ok" THEN WriteModel(obj.kind, back.blocks, Nothing, NoAlias) ELSE Raised)   \* a new object
Read2  == pend = NoPend /\ DoRead2(ReadModel(obj.kind, text2))
Reread == WithHistory /\ pend = NoPend /\ phase = 3 /\ again.out = "none" /\ DoReread(ReadModel(obj.kind, text))

Init == /\ again = Nothing /\ hist = FALSE /\ edits = 0 /\ pend = NoPend /\ rec = NoRec /\ phase = 0 /\ obj = NoObj /\ text = Nothing /\ back = Nothing /\ text2 = Nothing /\ back2 = Nothing
        /\ last = [act |-> "init"]
(* guards are hoisted out of the quantifiers: AtomPool may hold every element x type x geometry triple *)
Next == \/ (phase = 0 /\ rec.kind = "none" /\
             \E k \in Kinds, n \in Names, na \in 0..MaxAtoms :
                \E nb \in 0..MinI(MaxBonds, MaxPar * ((na * (na - 1)) \div 2)), nc \in 1..(IF k = "Ens" THEN MaxConfs ELSE 1) :
                   New(k, n, na, nb, nc))
        \/ (CanAddAtom /\ \E p \in AtomPool : AddAtom(p))
        \/ (CanConnect /\ \E i, j \in 1..Len(rec.atoms), bt \in BondPool : Connect(i, j, bt))
        \/ (CanConnect /\ MaxPar > 1 /\ \E k \in 1..Len(rec.bonds), rev \in BOOLEAN : Parallel(k, rev))
        \/ AddConf \/ Build \/ Write \/ Read \/ Write2 \/ Read2 \/ PickEdit \/ ApplyEdit \/ History \/ Reread
Spec == Init /\ [][Next]_vars

(* ------------------------------------------------------------------------- *)
(* THE CONTRACT: the clauses of C07                                           *)
(* ------------------------------------------------------------------------- *)
OB == obj.blocks
RB == back.blocks
HaveBack == phase >= 3 /\ back.out = "ok"
Common(s, t) == 1..MinI(Len(s), Len(t))
Close(p, q, tol) == /\ p.a - q.a \in {-1, 0, 1}
                    /\ Abs((p.a - q.a) * Unit + p.f - q.f) <= tol

WriteSucceeds      == /\ phase >= 2 => text.out = "ok"             \* every object can be written ...
                      /\ phase >= 4 => text2.out = "ok"
Accepted           == /\ phase >= 3 => back.out = "ok"             \* ... and molli's reader accepts every token molli emitted
                      /\ phase >= 5 => back2.out = "ok"
ConformersPreserved == HaveBack => Len(RB) = Len(OB)                \* count; order follows from the per-index clauses below
NamePreserved      == HaveBack => \A c \in Common(OB, RB) : RB[c].name = OB[c].name
AtomsPreserved     == HaveBack => \A c \in Common(OB, RB) :         \* atom count, order, every element
                        /\ Len(RB[c].atoms) = Len(OB[c].atoms)
                        /\ \A i \in Common(OB[c].atoms, RB[c].atoms) : RB[c].atoms[i].el = OB[c].atoms[i].el
LabelsPreserved    == HaveBack => \A c \in Common(OB, RB) : \A i \in Common(OB[c].atoms, RB[c].atoms) :
                        OB[c].atoms[i].lab # "" => RB[c].atoms[i].lab = OB[c].atoms[i].lab
CoordsPreserved    == HaveBack => \A c \in Common(OB, RB) :
                        /\ Len(RB[c].xyz) = Len(OB[c].xyz)
                        /\ \A i \in Common(OB[c].xyz, RB[c].xyz) : \A d \in 1..3 : Close(RB[c].xyz[i][d], OB[c].xyz[i][d], CoordTol)
ChargesPreserved   == HaveBack => \A c \in Common(OB, RB) : Len(OB[c].q) > 0 =>
                        /\ Len(RB[c].q) = Len(OB[c].q)
                        /\ \A i \in Common(OB[c].q, RB[c].q) : Abs(RB[c].q[i] - OB[c].q[i]) <= ChargeTol
BondsPreserved     == HaveBack => \A c \in Common(OB, RB) :
                        /\ Len(RB[c].bonds) = Len(OB[c].bonds)
                        /\ \A i \in Common(OB[c].bonds, RB[c].bonds) :
                              /\ RB[c].bonds[i].a = OB[c].bonds[i].a /\ RB[c].bonds[i].b = OB[c].bonds[i].b
                              /\ OB[c].bonds[i].bt \in Expressible => RB[c].bonds[i].bt = OB[c].bonds[i].bt
TextFixedPoint     == phase >= 4 => text2 = text                   \* Write(Read(Write(x))) = Write(x), token by token
ReadStable         == phase >= 5 => back2 = back                   \* the second cycle changes nothing further
RereadSame         == again.out # "none" => again = back           \* a read is a function of the text, not of the process history

Contract == /\ WriteSucceeds /\ Accepted /\ ConformersPreserved /\ NamePreserved /\ AtomsPreserved /\ LabelsPreserved
            /\ CoordsPreserved /\ ChargesPreserved /\ BondsPreserved /\ TextFixedPoint /\ ReadStable /\ RereadSame
=============================================================================
