------------------------------ MODULE HAddTrace ------------------------------
(* Trace validation for C16: every recorded execution (molecule as built,      *)
(* then one or two real calls of add_implicit_hydrogens with the molecule and  *)
(* the measured placement of every atom that appeared) must be a behaviour of  *)
(* HAdd with Deviations = {}.  Many traces per TLC run (DESIGN 2.2).           *)
(*   share: sub (atom indices handed to another container), kind, keep, out                             *)
(*   query: i, nb (neighbour indices as connected_atoms yields them), n, bv2 (twice the bonded valence)  *)
(*   mol  : (a second `mol` event = the molecule after edits through other public calls)                *)
(*   mol  : atoms [el, fc, sp, ty, lbl, iso, pos <<x,y,z>> uA, q 1e-3 e], hints, off (mA), bonds [a, b, bt] *)
(*   addh : out, atoms / bonds after the call (new atoms renumbered by centre), *)
(*          newh [c, d (uA), fin, cos (1e-3), bt, atom], aligned                *)
EXTENDS HAdd, Json, IOUtils, TLCExt
VARIABLES ti, l
tvars == <<vars, ti, l>>
Traces == ndJsonDeserialize(IOEnv.TRACE_FILE)
NT == Len(Traces)
Tr == Traces[ti].ev
Ev == Tr[l]

TMol  == /\ Ev.ev = "mol"
         /\ IF phase = "empty" THEN Load(Ev.atoms, Ev.hints, Ev.off, Ev.bonds)
                               ELSE Edited(Ev.atoms, Ev.hints, Ev.off, Ev.bonds)     \* after public edits
         /\ last' = [act |-> "load"]
ToSet(s) == {s[k] : k \in DOMAIN s}
TQuery == /\ Ev.ev = "query" /\ Ev.out = "ok"
          /\ Query(Ev.i)
          /\ ToSet(Ev.nb) = last'.nb /\ Len(Ev.nb) = last'.n /\ Ev.n = last'.n /\ Ev.bv2 = last'.bv2
TShare == /\ Ev.ev = "share" /\ Ev.out = "ok" /\ Share(ToSet(Ev.sub), Ev.kind, Ev.keep)
TAddH == /\ Ev.ev = "addh" /\ Ev.out = "ok" /\ Ev.aligned
         /\ AddH(Ev.newh)                                  \* count rule, one bond each, placement: decided by HAdd
         /\ atoms' = Ev.atoms /\ bonds' = Ev.bonds         \* and everything else exactly as it was

Step == /\ ti <= NT /\ l <= Len(Tr)
        /\ (TMol \/ TQuery \/ TShare \/ TAddH)
        /\ l' = l + 1 /\ ti' = ti

Reset == /\ atoms' = <<>> /\ hints' = <<>> /\ off' = <<>> /\ bonds' = <<>> /\ phase' = "empty" /\ seen' = FALSE /\ memo' = <<>> /\ shared' = FALSE
         /\ last' = [act |-> "init"]
NextTrace == ti' = ti + 1 /\ l' = 1 /\ Reset
Finish == /\ ti <= NT /\ l = Len(Tr) + 1
          /\ PrintT(<<"VERDICT", Traces[ti].tid, "ACCEPT">>)
          /\ NextTrace
Stuck  == /\ ti <= NT /\ l <= Len(Tr) /\ ~ENABLED Step
          /\ PrintT(<<"VERDICT", Traces[ti].tid, "STUCK", l>>)
          /\ PrintT(ToJson([stuck |-> Traces[ti].tid, at |-> l,           \* diagnosis: where HAdd wants hydrogens
                            want |-> IF Ev.ev = "addh" /\ phase # "empty" THEN Centres ELSE <<>>]))
          /\ NextTrace
TraceInit == Init /\ ti = 1 /\ l = 1
TraceNext == Step \/ Finish \/ Stuck
TraceSpec == TraceInit /\ [][TraceNext]_tvars
Envs0 == {}
DevNone == {}
=============================================================================
