---------------------------- MODULE BackendTrace ----------------------------
(* Direction B for C02 (collection layer): seeded random histories on real    *)
(* Collection objects (several long-lived objects on one library, read-only    *)
(* and read-write, buffer sizes -1 / 0 / small / large, values up to 70 kB)    *)
(* validated event by event against Backend.tla.                               *)
EXTENDS Backend, Json, IOUtils, TLCExt
VARIABLES ti, l
tvars == <<vars, ti, l>>
Traces == ndJsonDeserialize(IOEnv.TRACE_FILE)
NT == Len(Traces)
Tr == Traces[ti].ev
Ev == Tr[l]
ToSet(s) == {s[i] : i \in 1..Len(s)}
TraceKeys == DOMAIN Traces[1].klen
TraceVals == DOMAIN Traces[1].vlen
TraceKLen == Traces[1].klen
TraceVLen == Traces[1].vlen
TraceColl == DOMAIN Traces[1].ro
TraceRO == Traces[1].ro
TraceBuf == Traces[1].buf
HdrT == {"hdDef", "hdFull"}
DevNone == {}

RECURSIVE RecBytes(_)
RecBytes(rs) == IF rs = <<>> THEN 0 ELSE 5 + KeyLen[Head(rs).k] + ValLen[Head(rs).v] + RecBytes(Tail(rs))
HL(h) == IF h = "hdFull" THEN 25 ELSE 0
Size == IF file.exists THEN 32 + HL(file.hdr) + RecBytes(file.recs) ELSE 0

After(c) == /\ last'.out = Ev.out
            /\ (cs'[c].st # "idle" => ToSet(Ev.keys) = cs'[c].keys)        \* the session's key listing
            /\ (Ev.size >= 0 => Ev.size = Size')                              \* file size, logged when no session is open
TMake  == Ev.ev = "make" /\ Make(Ev.c, Ev.hdr) /\ After(Ev.c)
TBegW  == Ev.ev = "beginw" /\ Begin(Ev.c, "a") /\ After(Ev.c)
TBegR  == Ev.ev = "beginr" /\ Begin(Ev.c, "r") /\ After(Ev.c)
TPut   == Ev.ev = "cput" /\ CPut(Ev.c, Ev.k, Ev.v) /\ After(Ev.c)
TGet   == Ev.ev = "cget" /\ CGet(Ev.c, Ev.k) /\ After(Ev.c) /\ (Ev.out = "ok" => last'.val = Ev.val)
TEnd   == Ev.ev = "end" /\ End(Ev.c) /\ After(Ev.c)
TEndX  == Ev.ev = "endexc" /\ EndExc(Ev.c) /\ After(Ev.c)
TFlush == Ev.ev = "cflush" /\ CFlush(Ev.c) /\ After(Ev.c)
Step == /\ ti <= NT /\ l <= Len(Tr)
        /\ (TMake \/ TBegW \/ TBegR \/ TPut \/ TGet \/ TEnd \/ TEndX \/ TFlush)
        /\ l' = l + 1 /\ ti' = ti
Reset == /\ file' = [exists |-> FALSE, hdr |-> NoHdr, recs |-> <<>>]
         /\ cs' = [c \in Coll |-> [made |-> FALSE, st |-> "idle", keys |-> {}, queue |-> <<>>, used |-> 0,
                                  fmode |-> "none", toc |-> {}, n |-> 0]]
         /\ last' = [act |-> "init", out |-> "ok"]
NextTrace == ti' = ti + 1 /\ l' = 1 /\ Reset
Finish == /\ ti <= NT /\ l = Len(Tr) + 1 /\ PrintT(<<"VERDICT", Traces[ti].tid, "ACCEPT">>) /\ NextTrace
Stuck  == /\ ti <= NT /\ l <= Len(Tr) /\ ~ENABLED Step /\ PrintT(<<"VERDICT", Traces[ti].tid, "STUCK", l>>) /\ NextTrace
TraceInit == Init /\ ti = 1 /\ l = 1
TraceNext == Step \/ Finish \/ Stuck
TraceSpec == TraceInit /\ [][TraceNext]_tvars
=============================================================================
