----------------------------- MODULE MCXyzText -----------------------------
(* Model-checking wrapper of XyzText: pools of geometries / ensembles / files  *)
(* built by covering patterns (every element and every coordinate value in     *)
(* every position, all values of one geometry distinct), View, Emit.           *)
EXTENDS XyzText, Json
CONSTANTS Shift          \* seed-derived rotation of the coordinate lists

(* element + atom type class; three kinds of dummies: no element, and dummy TYPE on a real element (Br, H) *)
Els == << [el |-> "H", ty |-> "regular"], [el |-> "Br", ty |-> "dummy"], [el |-> "Og", ty |-> "regular"],
          [el |-> "dummy", ty |-> "dummy"], [el |-> "C", ty |-> "regular"], [el |-> "H", ty |-> "dummy"] >>
ElAt(eo, i) == Els[((eo + i - 1) % Len(Els)) + 1]
(* [u, s]: zero, +-1 micro-A with a seventh digit, 123.456789 A, 1.5 A, large, negative, 2000 A *)
CoordsM == << [u |-> 0, s |-> 0], [u |-> 1, s |-> 3], [u |-> -1, s |-> -4], [u |-> 123456789, s |-> 2], [u |-> 999999999, s |-> 3],
              [u |-> -1500000, s |-> 0], [u |-> 1000000, s |-> -3], [u |-> -2, s |-> 4], [u |-> 2000000001, s |-> -1],
              [u |-> -987654321, s |-> 4], [u |-> 529177, s |-> 1], [u |-> -1, s |-> 2], [u |-> -999999999, s |-> -2] >>
(* integer grains for files of other programs; all <= 200 so that every unit (Bohr included) may use them *)
CoordsF == << 0, 1, -1, 15, -23, 120, 199, -7, 42, -200, 3 >>
(* larger grains (decimal units only) *)
CoordsG == << 0, 10999, -4567, 1, 2500, -1, 333, -10000, 8, 1234, -9 >>

(* scale 1000 (integers are micro-kiloangstrom = 1e-3 A): 1e4, 9.9e4, 1e5, 1e6, 2e6 A and the widths in between, both signs *)
CoordsK == << [u |-> 10000000, s |-> 0], [u |-> -10000000, s |-> 3], [u |-> 99000000, s |-> -2], [u |-> -99999999, s |-> 4],
              [u |-> 100000000, s |-> 1], [u |-> -100000000, s |-> 0], [u |-> 1000000000, s |-> -3], [u |-> -1000000000, s |-> 2],
              [u |-> 999999, s |-> 4], [u |-> -54510032, s |-> 3], [u |-> 2000000000, s |-> 0], [u |-> -12345678, s |-> -1],
              [u |-> 0, s |-> 0] >>
Pick(L, i) == L[((i + Shift) % Len(L)) + 1]
MkFrame(L, n, eo, co) == [i \in 1..n |-> [el |-> ElAt(eo, i).el, ty |-> ElAt(eo, i).ty,
                                          x |-> Pick(L, co + 3 * (i - 1)), y |-> Pick(L, co + 3 * (i - 1) + 1),
                                          z |-> Pick(L, co + 3 * (i - 1) + 2)]]
(* the object's name = the comment line of its frames: ordinary, "", " ", padded with blanks, a tab, a number *)
Names == <<"plain", "empty", "space", "padded", "tab", "count">>
NameAt(i) == Names[(i % Len(Names)) + 1]
GeomsW(L, w, ns, eos, cos) == {[cls |-> c, frames |-> <<MkFrame(L, n, eo, co)>>, world |-> w, name |-> NameAt(n + eo + co)] :
                           c \in GeomClasses, n \in ns, eo \in eos, co \in cos}
EnssW(L, w, ks, ns, eos, cos) == {[cls |-> Ens, frames |-> [j \in 1..k |-> MkFrame(L, n, eo, co + 2 * j)], world |-> w,
                                  name |-> NameAt(n + eo + co + k)] :
                           k \in ks, n \in ns, eo \in eos, co \in cos}
Geoms(ns, eos, cos) == GeomsW(CoordsM, 0, ns, eos, cos)
Enss(ks, ns, eos, cos) == EnssW(CoordsM, 0, ks, ns, eos, cos)
(* scale -3 (integers are 1e-9 A, s the tenth decimal): digits beyond the sixth decimal of Angstrom, for the default     *)
(* format (which must round them away correctly) and for the finer formats a caller may ask for                          *)
CoordsN == << [u |-> 1000000499, s |-> 4], [u |-> -1000000499, s |-> -4], [u |-> 123456789, s |-> 3], [u |-> -2, s |-> 4],
              [u |-> 1, s |-> 3], [u |-> 0, s |-> 0], [u |-> -987654321, s |-> -2], [u |-> 2000000001, s |-> 1],
              [u |-> -1500000273, s |-> 2], [u |-> 777, s |-> -3], [u |-> -1, s |-> -4] >>
FineQ == GeomsW(CoordsN, -3, {1, 3}, {0}, {0, 5}) \cup EnssW(CoordsN, -3, {2}, {2}, {0}, {0})
FineT == GeomsW(CoordsN, -3, 1..3, {0, 2}, 0..10) \cup EnssW(CoordsN, -3, 1..2, 1..3, {0, 2}, {0, 3, 6, 9})
FmtPoolQ == FineQ \cup Geoms({2}, {0}, {0})
FmtPoolT == FineT \cup Geoms({2, 3}, {0, 2}, {0, 4, 7})
FmtDecsQ == {8, 3}
FmtDecsT == {3, 5, 8, 12}
NoFmt == {}
(* every class (the Conformer view through DumpConformer) with the wide values in every column; eo = 2, 3: Og, no-element   *)
(* dummy (the longest symbol a writer may use), C, dummy-type H                                                           *)
BigQ == GeomsW(CoordsK, 3, {1, 3}, {2}, {0, 5}) \cup EnssW(CoordsK, 3, {2}, {1, 3}, {2}, {0, 5, 9})
BigT == GeomsW(CoordsK, 3, 1..3, {2, 3}, 0..12) \cup EnssW(CoordsK, 3, 1..3, 1..3, {2, 3}, 0..12)
Files(L, ks, ns, eos, cos) == {[j \in 1..k |-> MkFrame(L, n, eo, co + 2 * j)] : k \in ks, n \in ns, eo \in eos, co \in cos}

SmallQ == Geoms({0, 1}, {1}, {2}) \cup Enss({2}, {0, 2}, {0}, {5})
PoolQ  == Geoms(0..3, {0, 2}, {0, 4, 7}) \cup Enss(1..3, 0..3, {1}, {1, 6}) \cup SmallQ \cup BigQ \cup FineQ
FPoolQ == Files(CoordsF, 1..2, 0..3, {0}, {3}) \cup Files(CoordsG, {1, 3}, {2}, {3}, {1})

SmallT == {g \in Geoms({0, 1, 2}, {1}, {2}) : g.cls # "Structure" \/ g.frames[1] = <<>>} \cup Enss({2}, {0, 2}, {0}, {5})
PoolT  == Geoms(0..3, 0..3, 0..10) \cup Enss(1..3, 0..3, 0..3, 0..10) \cup SmallT \cup BigT \cup FineT
FPoolT == Files(CoordsF, 1..3, 0..3, {0, 2}, {0, 3, 6, 9}) \cup Files(CoordsG, 1..3, 1..3, {1, 3}, {1, 4, 8})
(* the object part of the graph falls into disjoint parts by length scale (emitted by parallel TLC runs) *)
At0(S) == {g \in S : g.world = 0}
PoolQ0 == At0(PoolQ)
PoolQx == PoolQ \ PoolQ0
PoolT0 == At0(PoolT)
PoolTx == PoolT \ PoolT0
FmtQ0 == At0(FmtPoolQ)
FmtQx == FmtPoolQ \ FmtQ0
FmtT0 == At0(FmtPoolT)
FmtTx == FmtPoolT \ FmtT0
NoGeoms == {}
NoFiles == {}

(* tiny pools for the deviation runs (the inverted factor overflows 32 bits on anything larger) *)
SmallD == Geoms({0, 1}, {1}, {2})
PoolD  == Geoms({0, 2}, {0}, {0}) \cup Enss({2}, {0, 2}, {1}, {1}) \cup SmallD
FPoolD == Files(CoordsF, {2}, {0, 2}, {0}, {0})
UnitsD == {"Angstrom", "pm", "nm"}

DevNone == {}
DevInverted == {"UnitFactorInverted"}
DevEnsUnits == {"EnsembleLoadsIgnoresUnits"}
DevEmpty    == {"EmptyFrameUnreadable"}
DevFrames   == {"FrameBoundaryLost"}
DevColumns  == {"ColumnsSwapped"}
DevDummy    == {"DummyTypeHidesElement"}
DevWide     == {"WideColumnsFuse"}
PoolW  == EnssW(CoordsK, 3, {2}, {1, 3}, {2}, {0, 5}) \cup SmallD
DevBlank    == {"BlankLinesDropped"}
DevFmt      == {"FmtPrecisionCapped"}
PoolF  == GeomsW(CoordsN, -3, {1}, {0}, {0}) \cup SmallD

ASSUME PoolOK

Obs  == [mem |-> mem, text |-> [fmt |-> text.fmt, lines |-> text.lines]]
View == sv
(* compact edges: the ghost `truth` is a function of the text and is left out of the node identity; a     *)
(* transition that does not change the state (every Load) prints "=" for its target and observation      *)
Sid  == [mem |-> mem, text |-> text]
Emit == PrintT(ToJson([from |-> Sid, act |-> last', to |-> IF sv' = sv THEN "=" ELSE Sid',
                       obs |-> IF sv' = sv THEN "=" ELSE Obs']))
=============================================================================
