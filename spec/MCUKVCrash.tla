----------------------------- MODULE MCUKVCrash -----------------------------
EXTENDS UKVCrash
Pool == {[k |-> "a", kl |-> 1, vl |-> 0, vd |-> "a0"], [k |-> "b", kl |-> 2, vl |-> 3, vd |-> "b3"],
         [k |-> "c", kl |-> 1, vl |-> 1, vd |-> "c1"]}
DevNone == {}
DevTorn == {"TornTailAccepted"}
View == sv
=============================================================================
