------------------------------- MODULE MCJoin -------------------------------
(* Model-checking wrapper of Join: lattice fragments, poses, option records,  *)
(* assembly tasks; View and the emitter of the cases executed on the code.    *)
EXTENDS Join, Json
B(i, j, t) == [a |-> i, b |-> j, t |-> t]
Frags ==
  [di   |-> [atoms |-> <<"C.p", "N.q">>, bonds |-> {B(1, 2, "Single")}, q |-> 1, m |-> 2,
             X |-> <<<<0, 0, 0>>, <<1, 0, 0>>>>],
   bent |-> [atoms |-> <<"O.a", "C.b", "S.c">>, bonds |-> {B(1, 2, "Single"), B(2, 3, "Double")}, q |-> -1, m |-> 1,
             X |-> <<<<0, 0, 0>>, <<1, 0, 0>>, <<1, 1, 0>>>>],
   chir |-> [atoms |-> <<"F.x", "C.c", "Cl.y", "Br.z", "I.w">>,
             bonds |-> {B(1, 2, "Single"), B(2, 3, "Double"), B(2, 4, "Aromatic"), B(2, 5, "Single")}, q |-> 0, m |-> 1,
             X |-> <<<<1, 0, 0>>, <<0, 0, 0>>, <<0, 1, 0>>, <<0, 0, 1>>, <<-1, 0, 0>>>>],
   ring |-> [atoms |-> <<"H.e", "C.r1", "C.r2", "N.r3", "C.r4">>,
             bonds |-> {B(1, 2, "Single"), B(2, 3, "Aromatic"), B(3, 4, "Aromatic"), B(4, 5, "Single"), B(2, 5, "Double")},
             q |-> 2, m |-> 3,
             X |-> <<<<0, 0, 1>>, <<0, 0, 0>>, <<1, 0, 0>>, <<1, 1, 0>>, <<0, 1, 0>>>>],
   tail |-> [atoms |-> <<"C.a", "C.b", "O.c", "P.d">>, bonds |-> {B(1, 2, "Single"), B(2, 3, "Single"), B(3, 4, "Triple")},
             q |-> 0, m |-> 2,
             X |-> <<<<0, 0, 0>>, <<1, 0, 0>>, <<1, 1, 0>>, <<1, 1, 1>>>>],
   core3 |-> [atoms |-> <<"Unknown.h1", "C.k1", "Unknown.h2", "Si.k2", "Unknown.h3">>,
              bonds |-> {B(1, 2, "Single"), B(2, 4, "Double"), B(3, 4, "Single"), B(4, 5, "Single")}, q |-> 1, m |-> 1,
              X |-> <<<<0, 0, 1>>, <<0, 0, 0>>, <<1, 0, 1>>, <<1, 0, 0>>, <<2, 0, 0>>>>],
   core2 |-> [atoms |-> <<"B.k1", "Unknown.h1", "Unknown.h2">>, bonds |-> {B(1, 2, "Single"), B(1, 3, "Single")}, q |-> -1, m |-> 2,
              X |-> <<<<0, 0, 0>>, <<1, 0, 0>>, <<0, 1, 0>>>>]]
Restrict(f, S) == [x \in S |-> f[x]]
FragsQ == Restrict(Frags, {"di", "bent", "chir"})
FragsT == Restrict(Frags, {"di", "bent", "chir", "ring", "tail"})
FragsA == Restrict(Frags, {"di", "bent", "chir", "core3", "core2"})     \* assembly runs (no ModelMake there)

Rz90  == <<<<0, 1, 0>>, <<-1, 0, 0>>, <<0, 0, 1>>>>
Rz180 == <<<<-1, 0, 0>>, <<0, -1, 0>>, <<0, 0, 1>>>>
Ry90  == <<<<0, 0, -1>>, <<0, 1, 0>>, <<1, 0, 0>>>>
Rx90  == <<<<1, 0, 0>>, <<0, 0, 1>>, <<0, -1, 0>>>>
Rx180 == <<<<1, 0, 0>>, <<0, -1, 0>>, <<0, 0, -1>>>>
PosesQ == {Id3, Rz90, Rz180, Ry90, Rx90, Rx180}
PosesT == Rot24
PosesNone == {}

NoO == [g |-> FALSE, v |-> 0]
Ov(x) == [g |-> TRUE, v |-> x]
Opt(L, opt, qo, mo, bt) == [L |-> L, opt |-> opt, qo |-> qo, mo |-> mo, bt |-> bt]
ArgsQ == {Opt(1, FALSE, NoO, NoO, "Single"), Opt(2, TRUE, Ov(0), Ov(0), "Double"), Opt(2, FALSE, Ov(5), Ov(3), "Single")}
ArgsT == ArgsQ \cup {Opt(1, TRUE, NoO, Ov(0), "Aromatic"), Opt(3, FALSE, Ov(0), NoO, "Single")}
ArgsNone == {}

Sub(f, ap, pose) == [f |-> f, ap |-> ap, pose |-> pose]
Subs3 == <<Sub("di", 1, Id3), Sub("bent", 3, Rz90), Sub("chir", 1, Rx180)>>
Injective(s) == \A i, j \in DOMAIN s : s[i] = s[j] => i = j
Lists(S, n) == {s \in UNION {[1..k -> S] : k \in 1..n} : Injective(s)}
Ascending(s) == \A i, j \in DOMAIN s : i < j => s[i] < s[j]
Task(core, aps, subs) == [core |-> core, aps |-> aps, subs |-> SubSeq(subs, 1, Len(aps))]
AsmAsc == {Task("core3", a, Subs3) : a \in {s \in Lists({1, 3, 5}, 3) : Ascending(s)}}
            \cup {Task("core2", <<2, 3>>, Subs3)}
AsmAny == {Task("core3", a, Subs3) : a \in Lists({1, 3, 5}, 3)} \cup {Task("core2", a, Subs3) : a \in Lists({2, 3}, 2)}
AsmNone == {}

DevNone == {}
DevKeepsAP == {"KeepsAttachmentPoint"}
DevNbrIdx == {"NeighbourIndexNotShifted"}
DevOverride0 == {"OverrideZeroIgnored"}
DevMutates == {"MutatesInput"}
DevImproper == {"ImproperRotation"}
DevTransposed == {"RotationTransposed"}
DevBackwards == {"TranslateBackwards"}
DevLength == {"LengthIgnored"}
DevRng == {"RngInAntiparallel"}
DevNoShift == {"NoIndexShift"}
DevShiftPos == {"ShiftByPosition"}

View == sv
Emit ==
  IF last'.act = "join" /\ ~asm'.on
    THEN PrintT(ToJson([act |-> last', a |-> heap[last'.g.a], b |-> heap[last'.g.b], p |-> heap'[last'.o], r |-> rng]))
  ELSE IF last'.act = "asm-end"
    THEN PrintT(ToJson([act |-> last', core |-> heap[asm.core], aps |-> asm.aps,
                        subs |-> [i \in 1..Len(asm.subs) |-> heap[asm.subs[i]]], saps |-> asm.saps,
                        failed |-> asm.failed, p |-> heap[asm.cur]]))
  ELSE TRUE
=============================================================================
