--------------------------- MODULE SessionsTrace ---------------------------
(* Direction B for C04: a merged multi-process execution, ordered by a        *)
(* sequence number taken inside the library lock, must be a behaviour of the  *)
(* session protocol at event granularity.  Each event is the composition of   *)
(* fine-grained actions of Sessions.tla:                                      *)
(*   WBegin = Request;Acquire;Begin   WPut = BodyPut (or a refused put)       *)
(*   WEnd   = BodyDone/RaiseInBody;FlushOne*;(FlushDone|RaiseInFlush);End;Release *)
(*   RBegin/RGet/REnd likewise for readers; Final = a fresh process obtains   *)
(*   the write lock at the end and lists the library.                          *)
(* (TLC has no action composition operator, so the compositions are written   *)
(* out; the variables lock/file have the same meaning as in Sessions.)        *)
EXTENDS Naturals, Sequences, FiniteSets, TLC, Json, IOUtils, TLCExt
VARIABLES lock,     \* [writer, readers]
          file,     \* [key -> value digest] : complete records
          pend,     \* pending puts of the open writing session: Seq([k, vd])
          ti, l
vars == <<lock, file, pend, ti, l>>
Traces == ndJsonDeserialize(IOEnv.TRACE_FILE)
NT == Len(Traces)
Tr == Traces[ti].ev
Ev == Tr[l]
None == "none"
PKeys == {pend[i].k : i \in 1..Len(pend)}
PMap(s) == [k \in {s[i].k : i \in 1..Len(s)} |-> (LET i == CHOOSE i \in 1..Len(s) : s[i].k = k IN s[i].vd)]

TWBegin == /\ Ev.ev = "WBegin"
           /\ lock.writer = None /\ lock.readers = {}                 \* writers exclude everybody
           /\ Ev.nkeys = Cardinality(DOMAIN file)                     \* index refreshed: sees every committed record
           /\ lock' = [lock EXCEPT !.writer = Ev.pid] /\ pend' = <<>> /\ UNCHANGED file
TWPut   == /\ Ev.ev = "WPut" /\ lock.writer = Ev.pid
           /\ IF Ev.out = "ok"
                THEN /\ Ev.k \notin DOMAIN file /\ Ev.k \notin PKeys
                     /\ pend' = Append(pend, [k |-> Ev.k, vd |-> Ev.vd])
                ELSE /\ (Ev.out = "KeyError" => (Ev.k \in DOMAIN file \/ Ev.k \in PKeys))
                     /\ pend' = pend
           /\ UNCHANGED <<lock, file>>
TWGet   == /\ Ev.ev = "WGet" /\ lock.writer = Ev.pid
           /\ IF Ev.out = "ok" THEN ((Ev.k \in PKeys /\ PMap(pend)[Ev.k] = Ev.vd)
                                      \/ (Ev.k \in DOMAIN file /\ file[Ev.k] = Ev.vd))
                               ELSE (Ev.k \notin DOMAIN file /\ Ev.k \notin PKeys)
           /\ UNCHANGED <<lock, file, pend>>
(* end of a writing session: every accepted put is committed; when a backend write was made to  *)
(* fail during the final flush, a prefix of the queue is committed (which one is pinned down by  *)
(* the key counts and reads of later sessions)                                                   *)
TWEnd   == /\ Ev.ev = "WEnd" /\ lock.writer = Ev.pid
           /\ \E n \in (IF Ev.fault = "flush" THEN 0..Len(pend) ELSE {Len(pend)}) :
                 file' = file @@ PMap(SubSeq(pend, 1, n))
           /\ lock' = [lock EXCEPT !.writer = None] /\ pend' = <<>>
TRBegin == /\ Ev.ev = "RBegin"
           /\ lock.writer = None /\ Ev.pid \notin lock.readers
           /\ Ev.nkeys = Cardinality(DOMAIN file)
           /\ lock' = [lock EXCEPT !.readers = @ \cup {Ev.pid}] /\ UNCHANGED <<file, pend>>
TRGet   == /\ Ev.ev = "RGet" /\ Ev.pid \in lock.readers /\ lock.writer = None
           /\ IF Ev.out = "ok" THEN (Ev.k \in DOMAIN file /\ file[Ev.k] = Ev.vd)   \* a reader sees only complete records
                               ELSE (Ev.k \notin DOMAIN file)
           /\ UNCHANGED <<lock, file, pend>>
TREnd   == /\ Ev.ev = "REnd" /\ Ev.pid \in lock.readers
           /\ lock' = [lock EXCEPT !.readers = @ \ {Ev.pid}] /\ UNCHANGED <<file, pend>>
(* written as a value: a quantifier that is a conjunct of an action is evaluated by recursion over its range (thousands of keys) *)
SameContent(c) == IF \A k \in DOMAIN file : c[k] = file[k] THEN TRUE ELSE FALSE

(* after a session that ended with an exception, a foreign process obtained the write lock while   *)
(* the session's process was idle (emitted outside the lock: no constraint on the model state)    *)
(* a process finished constructing its handle (CtorTest..CtorRelease of Sessions.tla): the library is left as it is *)
TMake   == /\ Ev.ev = "Make" /\ lock.writer # Ev.pid /\ Ev.pid \notin lock.readers /\ UNCHANGED <<lock, file, pend>>
TProbe  == /\ Ev.ev = "Probe" /\ Ev.lock = "acquired" /\ UNCHANGED <<lock, file, pend>>
TFinal  == /\ Ev.ev = "Final" /\ Ev.lock = "acquired"
           /\ lock.writer = None /\ lock.readers = {}                  \* every session released its lock
           /\ DOMAIN Ev.content = DOMAIN file
           /\ SameContent(Ev.content) = TRUE                            \* nothing lost, nothing altered
           /\ UNCHANGED <<lock, file, pend>>

Step == /\ ti <= NT /\ l <= Len(Tr)
        /\ (TWBegin \/ TWPut \/ TWGet \/ TWEnd \/ TRBegin \/ TRGet \/ TREnd \/ TMake \/ TProbe \/ TFinal)
        /\ l' = l + 1 /\ ti' = ti
Reset == lock' = [writer |-> None, readers |-> {}] /\ file' = <<>> /\ pend' = <<>>
NextTrace == ti' = ti + 1 /\ l' = 1 /\ Reset
Finish == /\ ti <= NT /\ l = Len(Tr) + 1
          /\ PrintT(<<"VERDICT", Traces[ti].tid, "ACCEPT">>) /\ NextTrace
Stuck  == /\ ti <= NT /\ l <= Len(Tr) /\ ~ENABLED Step
          /\ PrintT(<<"VERDICT", Traces[ti].tid, "STUCK", l>>) /\ NextTrace
TraceInit == lock = [writer |-> None, readers |-> {}] /\ file = <<>> /\ pend = <<>> /\ ti = 1 /\ l = 1
TraceNext == Step \/ Finish \/ Stuck
TraceSpec == TraceInit /\ [][TraceNext]_vars
WriterExclusive == lock.writer # None => lock.readers = {}
=============================================================================
