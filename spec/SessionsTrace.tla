--------------------------- MODULE SessionsTrace ---------------------------
(* Direction B for C04: a merged multi-process execution, ordered by a        *)
(* sequence number taken inside the library lock, must be a behaviour of the  *)
(* session protocol at event granularity.  Each event is the composition of   *)
(* fine-grained actions of Sessions.tla:                                      *)
(*   WBegin = Request;Acquire;Begin   WPut = BodyPut (or a refused put)       *)
(*   WEnd   = BodyDone/RaiseInBody;FlushOne*;(FlushDone|RaiseInFlush);End;Release *)
(*   RBegin/RGet/REnd likewise for readers; Final = a fresh process obtains   *)
(*   the write lock at the end and lists the library.                          *)
(* (TLC has no action composition operator, so the compositions are written   *)
(* out; the variables lock/file have the same meaning as in Sessions.)        *)
EXTENDS Naturals, Sequences, FiniteSets, TLC, Json, IOUtils, TLCExt
VARIABLES lock,     \* [writer, readers]
          file,     \* [key -> value digest] : complete records
          pend,     \* pending puts of the open writing session: Seq([k, vd])
          trying,   \* the put the open writing session is in the middle of ([k, vd] or NoTry)
          tail,     \* [pid, recs] : what the last WEnd committed, until its process reports WDone or another session begins
          dead,     \* processes that were killed (SIGKILL) so far
          ti, l
vars == <<lock, file, pend, trying, tail, dead, ti, l>>
Traces == ndJsonDeserialize(IOEnv.TRACE_FILE)
NT == Len(Traces)
Tr == Traces[ti].ev
Ev == Tr[l]
None == "none"
Victims == {Traces[ti].victims[i] : i \in 1..Len(Traces[ti].victims)}   \* processes the harness kills in this run (logged by the harness)
NoTail == [pid |-> None, recs |-> <<>>]
NoTry == [k |-> None, vd |-> None]
Alive == Ev.pid \notin dead
PKeys == {pend[i].k : i \in 1..Len(pend)}
PMap(s) == [k \in {s[i].k : i \in 1..Len(s)} |-> (LET i == CHOOSE i \in 1..Len(s) : s[i].k = k IN s[i].vd)]

TWBegin == /\ Ev.ev = "WBegin" /\ Alive /\ tail' = NoTail /\ trying' = NoTry /\ UNCHANGED dead
           /\ lock.writer = None /\ lock.readers = {}                 \* writers exclude everybody
           /\ Ev.nkeys = Cardinality(DOMAIN file)                     \* index refreshed: sees every committed record
           /\ lock' = [lock EXCEPT !.writer = Ev.pid] /\ pend' = <<>> /\ UNCHANGED file
(* the session is about to put (k, vd): logged before the call, so that a process that dies inside the call is explained *)
TWTry   == /\ Ev.ev = "WTry" /\ lock.writer = Ev.pid /\ trying' = [k |-> Ev.k, vd |-> Ev.vd]
           /\ UNCHANGED <<lock, file, pend, tail, dead>>
TWPut   == /\ Ev.ev = "WPut" /\ lock.writer = Ev.pid /\ trying' = NoTry /\ UNCHANGED <<tail, dead>>
           /\ IF Ev.out = "ok"
                THEN /\ Ev.k \notin DOMAIN file /\ Ev.k \notin PKeys
                     /\ pend' = Append(pend, [k |-> Ev.k, vd |-> Ev.vd])
                ELSE /\ (Ev.out = "KeyError" => (Ev.k \in DOMAIN file \/ Ev.k \in PKeys))
                     /\ pend' = pend
           /\ UNCHANGED <<lock, file>>
TWGet   == /\ Ev.ev = "WGet" /\ lock.writer = Ev.pid /\ UNCHANGED <<tail, dead, trying>>
           /\ IF Ev.out = "ok" THEN ((Ev.k \in PKeys /\ PMap(pend)[Ev.k] = Ev.vd)
                                      \/ (Ev.k \in DOMAIN file /\ file[Ev.k] = Ev.vd))
                               ELSE (Ev.k \notin DOMAIN file /\ Ev.k \notin PKeys)
           /\ UNCHANGED <<lock, file, pend>>
(* end of a writing session: every accepted put is committed; when a backend write was made to  *)
(* fail during the final flush, a prefix of the queue is committed (which one is pinned down by  *)
(* the key counts and reads of later sessions)                                                   *)
TWEnd   == /\ Ev.ev = "WEnd" /\ lock.writer = Ev.pid /\ trying' = NoTry /\ UNCHANGED dead
           /\ \E n \in (IF Ev.fault = "flush" THEN 0..Len(pend) ELSE {Len(pend)}) :
                 /\ file' = file @@ PMap(SubSeq(pend, 1, n))
                 /\ tail' = [pid |-> Ev.pid, recs |-> SubSeq(pend, 1, n)]
           /\ lock' = [lock EXCEPT !.writer = None] /\ pend' = <<>>
(* the process left the `with` block: its session is complete, what it committed stays *)
TWDone  == /\ Ev.ev = "WDone" /\ Alive /\ lock.writer # Ev.pid
           /\ tail' = IF tail.pid = Ev.pid THEN NoTail ELSE tail
           /\ UNCHANGED <<lock, file, pend, dead, trying>>
TRBegin == /\ Ev.ev = "RBegin" /\ Alive /\ tail' = NoTail /\ UNCHANGED <<dead, trying>>
           /\ lock.writer = None /\ Ev.pid \notin lock.readers
           /\ Ev.nkeys = Cardinality(DOMAIN file)
           /\ lock' = [lock EXCEPT !.readers = @ \cup {Ev.pid}] /\ UNCHANGED <<file, pend>>
TRGet   == /\ Ev.ev = "RGet" /\ Ev.pid \in lock.readers /\ lock.writer = None /\ UNCHANGED <<tail, dead, trying>>
           /\ IF Ev.out = "ok" THEN (Ev.k \in DOMAIN file /\ file[Ev.k] = Ev.vd)   \* a reader sees only complete records
                               ELSE (Ev.k \notin DOMAIN file)
           /\ UNCHANGED <<lock, file, pend>>
TREnd   == /\ Ev.ev = "REnd" /\ Ev.pid \in lock.readers /\ UNCHANGED <<tail, dead, trying>>
           /\ lock' = [lock EXCEPT !.readers = @ \ {Ev.pid}] /\ UNCHANGED <<file, pend>>
(* written as a value: a quantifier that is a conjunct of an action is evaluated by recursion over its range (thousands of keys) *)
SameContent(c) == IF \A k \in DOMAIN file : c[k] = file[k] THEN TRUE ELSE FALSE

(* after a session that ended with an exception, a foreign process obtained the write lock while   *)
(* the session's process was idle (emitted outside the lock: no constraint on the model state)    *)
(* a process finished constructing its handle (CtorTest..CtorRelease of Sessions.tla): the library is left as it is *)
TMake   == /\ Ev.ev = "Make" /\ Alive /\ lock.writer # Ev.pid /\ Ev.pid \notin lock.readers /\ UNCHANGED <<lock, file, pend, tail, dead, trying>>
TProbe  == /\ Ev.ev = "Probe" /\ Alive /\ Ev.lock = "acquired" /\ UNCHANGED <<lock, file, pend, tail, dead, trying>>
(* ----- killed processes (the C03 situation at system level) ------------------------------------------------ *)
(* A process the harness kills dies at some moment between its last logged event and the harness' Kill event:     *)
(* a silent step.  Its lock is released by the operating system.  Of the puts of its open writing session a        *)
(* PREFIX reaches the file as complete records (a torn record is no record); if it had logged WEnd but not yet     *)
(* WDone, the exit flush may have been cut short in the same way.  Nothing else about the library changes.         *)
RemoveKeys(f, ks) == [k \in (DOMAIN f) \ ks |-> f[k]]
Die(p) == /\ p \in Victims \ dead /\ dead' = dead \cup {p}
          /\ IF lock.writer = p
               THEN /\ \/ \E n \in 0..Len(pend) : file' = file @@ PMap(SubSeq(pend, 1, n))
                       \/ /\ trying # NoTry /\ trying.k \notin DOMAIN file /\ trying.k \notin PKeys   \* the put it died in got through
                          /\ file' = file @@ PMap(pend) @@ (trying.k :> trying.vd)
                    /\ lock' = [lock EXCEPT !.writer = None] /\ pend' = <<>> /\ tail' = NoTail /\ trying' = NoTry
               ELSE IF p \in lock.readers
               THEN /\ lock' = [lock EXCEPT !.readers = @ \ {p}] /\ UNCHANGED <<file, pend, tail, trying>>
               ELSE IF tail.pid = p
               THEN /\ \E n \in 0..Len(tail.recs) :
                         file' = RemoveKeys(file, {tail.recs[i].k : i \in (n + 1)..Len(tail.recs)})
                    /\ tail' = NoTail /\ UNCHANGED <<lock, pend, trying>>
               ELSE UNCHANGED <<lock, file, pend, tail, trying>>
TKill   == /\ Ev.ev = "Kill" /\ Ev.victim \in dead /\ UNCHANGED <<lock, file, pend, tail, dead, trying>>
TFinal  == /\ Ev.ev = "Final" /\ Ev.lock = "acquired"
           /\ lock.writer = None /\ lock.readers = {}                  \* every session released its lock
           /\ DOMAIN Ev.content = DOMAIN file
           /\ SameContent(Ev.content) = TRUE                            \* nothing lost, nothing altered
           /\ UNCHANGED <<lock, file, pend, tail, dead, trying>>

Step == /\ ti <= NT /\ l <= Len(Tr)
        /\ (TWBegin \/ TWPut \/ TWGet \/ TWEnd \/ TRBegin \/ TRGet \/ TREnd \/ TMake \/ TProbe \/ TFinal \/ TWDone \/ TKill \/ TWTry)
        /\ l' = l + 1 /\ ti' = ti
DieStep == /\ ti <= NT /\ l <= Len(Tr) /\ (\E p \in Victims : Die(p)) /\ UNCHANGED <<ti, l>>
Reset == lock' = [writer |-> None, readers |-> {}] /\ file' = <<>> /\ pend' = <<>> /\ tail' = NoTail /\ dead' = {} /\ trying' = NoTry
NextTrace == ti' = ti + 1 /\ l' = 1 /\ Reset
Finish == /\ ti <= NT /\ l = Len(Tr) + 1
          /\ PrintT(<<"VERDICT", Traces[ti].tid, "ACCEPT">>) /\ NextTrace
Stuck  == /\ ti <= NT /\ l <= Len(Tr) /\ ~ENABLED Step
          /\ PrintT(<<"VERDICT", Traces[ti].tid, "STUCK", l>>) /\ NextTrace
TraceInit == lock = [writer |-> None, readers |-> {}] /\ file = <<>> /\ pend = <<>> /\ tail = NoTail /\ dead = {} /\ trying = NoTry /\ ti = 1 /\ l = 1
TraceNext == Step \/ DieStep \/ Finish \/ Stuck
TraceSpec == TraceInit /\ [][TraceNext]_vars
WriterExclusive == lock.writer # None => lock.readers = {}
=============================================================================
