------------------------------ MODULE LibCodec ------------------------------
(* C01: what is stored in a .mlib / .clib is what is read back.                *)
(*                                                                             *)
(* Implementation-shaped model of molli/chem/library.py + molli/chem/io.py:    *)
(* one library file, whose 16-byte type field (magic) decides the codec of     *)
(* every library object constructed on it ("ML10Library" = legacy schema v1,   *)
(* anything else = current schema v2); a writer object "w" and a second,       *)
(* read-only object "r"; a record is a positional tuple, arrays flattened to   *)
(* big-endian float32 bytes, everything else packed by msgpack.  The v1 tuples *)
(* are the documented *_SCHEMA_V1 (the harness's independent legacy codec,     *)
(* written from them, reproduces genuine legacy records byte for byte); the v2 *)
(* tuples follow the serializers (MOLECULE_SCHEMA_V2, which is also written    *)
(* into the file descriptor, lists another order: the layout inside a record   *)
(* is free for C01 as long as writer and reader agree, so nothing observes it).*)
(* put/get/keys semantics of the file itself are C02's (Backend.tla); here a   *)
(* library is a map key -> wire tuple.                                         *)
(*                                                                             *)
(* The property is MolModel!Same (what has to come back); Encode/Decode is the *)
(* reference codec that TLC shows to satisfy it on Dom(v) and that the named   *)
(* Deviations break.                                                           *)
EXTENDS MolModel
CONSTANTS Pool,         \* abstract objects offered to Put (model checking); unused by trace validation
          Keys,
          Handles,      \* subset of {"w", "r", "f"}: writer object, second read-only object, read-only object in a FRESH process
          Deviations    \* named wrong behaviours; {} = required behaviour
VARIABLES file,     \* [exists, magic, kind, recs : [key -> wire tuple]]
          hs,       \* [Handles -> [made, codec]]: the library objects currently alive on the path
          written,  \* history: key -> the abstract object that was put
          seen,     \* what this process remembers about the path (0 = nothing): stays 0 in the required behaviour,
                    \* where the type field of the file is looked at whenever a library object is constructed
          cache,    \* [Handles -> [key -> object]]: decoded objects a library object keeps and hands out again
                    \* (empty in the required behaviour: every read decodes the stored record afresh)
          last      \* observation (excluded from fingerprints by VIEW)
vars == <<file, hs, written, seen, cache, last>>
sv   == <<file, hs, written, seen, cache>>
Dev(d) == d \in Deviations
(* TLC evaluates a quantifier that is a conjunct of an ACTION by recursion over its range (it might contain primes); *)
(* wrapped in an equation the predicate is evaluated as a state function, iteratively, whatever the size of the object *)
Holds(p) == p = TRUE
Kinds  == {"Molecule", "ConformerEnsemble"}
NoRecs == [k \in {} |-> 0]
With(f, k, v) == [kk \in DOMAIN f \cup {k} |-> IF kk = k THEN v ELSE f[kk]]

(* ----- domain of a schema version -------------------------------------------*)
(* v1 carries no formal charge / spin and no attributes anywhere: an object is  *)
(* in Dom(1) iff those fields are at the defaults of the constructors          *)
InDom(v, x) ==
  /\ WellFormed(x)
  /\ v = 1 => /\ IsEmptyAttr(x.attrib)
              /\ \A i \in 1..Len(x.atoms) : x.atoms[i].fc = "i:0" /\ x.atoms[i].fs = "i:0" /\ IsEmptyAttr(x.atoms[i].attrib)
              /\ \A i \in 1..Len(x.bonds) : IsEmptyAttr(x.bonds[i].attrib)

(* ----- msgpack layer ----------------------------------------------------------*)
(* packs str/bytes/int/bool/None/float(double)/list/dict losslessly (a list    *)
(* comes back as a tuple: both are "seq").  Pinned tree: use_single_float=True  *)
(* rounds every python float to float32 and cannot pack |x| > 3.4e38; maps with *)
(* non-text keys are packed but refused by the default unpacker.               *)
MsgFloat(f)  == IF Dev("MsgpackSingleFloat") THEN F32(f) ELSE f
AttrWire(a)  == [i \in 1..Len(a) |-> IF a[i].k = "float" /\ Dev("MsgpackSingleFloat") THEN [a[i] EXCEPT !.d = a[i].e] ELSE a[i]]
AttrHuge(a)  == \E i \in 1..Len(a) : a[i].k = "float" /\ IsHugeForSingle(a[i])
AttrNonStr(a) == \E i \in 1..Len(a) : a[i].k = "map" /\ a[i].s = "nonstr"
AllAttrs(x)  == {x.attrib} \cup {x.atoms[i].attrib : i \in 1..Len(x.atoms)} \cup {x.bonds[i].attrib : i \in 1..Len(x.bonds)}
Packable(x)  == ~Dev("MsgpackSingleFloat") \/ (/\ \A a \in AllAttrs(x) : ~AttrHuge(a)
                                               /\ \A i \in 1..Len(x.bonds) : ~IsHugeForSingle(x.bonds[i].fo))
Unpackable(v, x) == v = 2 /\ Dev("StrictMapKey") /\ \E a \in AllAttrs(x) : AttrNonStr(a)

(* ----- arrays: astype(">f4").tobytes() / frombuffer(">f4").reshape ----------*)
Garbled  == [d |-> "garbled", s |-> "garbled", e |-> "garbled"]
Bytes(fs) == [i \in 1..Len(fs) |-> F32(fs[i])]
Floats(b) == IF Dev("LittleEndianRead") THEN [i \in 1..Len(b) |-> Garbled] ELSE b
Flat3(m, nc, na) == [t \in 1..(nc * na * 3) |-> m[((t - 1) \div (na * 3)) + 1][(((t - 1) % (na * 3)) \div 3) + 1][((t - 1) % 3) + 1]]
Flat2(q, nc, na) == [t \in 1..(nc * na) |-> q[((t - 1) \div na) + 1][((t - 1) % na) + 1]]
Reshape3(f, nc, na) ==
  IF Dev("TransposedReshape")
    THEN [c \in 1..nc |-> [i \in 1..na |-> [j \in 1..3 |-> f[(c - 1) * na * 3 + (j - 1) * na + i]]]]
    ELSE [c \in 1..nc |-> [i \in 1..na |-> [j \in 1..3 |-> f[((c - 1) * na + (i - 1)) * 3 + j]]]]
Reshape2(f, nc, na) == [c \in 1..nc |-> [i \in 1..na |-> f[(c - 1) * na + i]]]

(* ----- atoms and bonds: positional tuples of ATOM_SCHEMA_Vv / BOND_SCHEMA_Vv -*)
AtomWire(v, a) == IF v = 1 THEN <<a.el, a.iso, a.label, a.atype, a.stereo, a.geom>>
                           ELSE <<a.el, a.iso, a.label, a.atype, a.stereo, a.geom, a.fc, a.fs, AttrWire(a.attrib)>>
AtomUnwire(v, t) ==
  [el |-> t[1], iso |-> t[2], label |-> t[3], atype |-> t[4], stereo |-> t[5], geom |-> t[6],
   fc |-> IF v = 1 \/ Dev("FormalChargeDropped") THEN "i:0" ELSE t[7],
   fs |-> IF v = 1 THEN "i:0" ELSE t[8],
   attrib |-> IF v = 1 THEN EmptyAttr ELSE t[9]]
BondWire(v, b) == IF v = 1 THEN <<b.a1, b.a2, b.label, b.btype, b.stereo, MsgFloat(b.fo)>>
                           ELSE <<b.a1, b.a2, b.label, b.btype, b.stereo, MsgFloat(b.fo), AttrWire(b.attrib)>>
BondUnwire(v, t) ==
  [a1 |-> IF Dev("BondEndsSwapped") THEN t[2] ELSE t[1], a2 |-> IF Dev("BondEndsSwapped") THEN t[1] ELSE t[2],
   label |-> t[3], btype |-> t[4], stereo |-> t[5], fo |-> t[6],
   attrib |-> IF v = 1 THEN EmptyAttr ELSE t[7]]
AtomsWire(v, s) == [i \in 1..Len(s) |-> AtomWire(v, s[i])]
BondsWire(v, s) == [i \in 1..Len(s) |-> BondWire(v, s[i])]
AtomsUnwire(v, s) == [i \in 1..Len(s) |-> AtomUnwire(v, s[i])]
BondsUnwire(v, s) == [i \in 1..Len(s) |-> BondUnwire(v, s[i])]

(* ----- objects: the serializers' tuples ---------------------------------------*)
(*  mol v1 (8):  name n_atoms atoms bonds charge mult coords atomic_charges                          *)
(*  mol v2 (10): name n_atoms n_bonds charge mult atoms bonds coords atomic_charges attrib           *)
(*  ens v1 (10): name n_conformers n_atoms atoms bonds charge mult coords weights atomic_charges     *)
(*  ens v2 (12): name n_conformers n_atoms n_bonds charge mult atoms bonds coords weights atomic_charges attrib *)
Arity(v, kind) == IF kind = "Molecule" THEN (IF v = 1 THEN 8 ELSE 10) ELSE (IF v = 1 THEN 10 ELSE 12)
Encode(v, x) ==
  LET na == NAtoms(x)
      nc == x.nconf
      at == AtomsWire(v, x.atoms)
      bd == BondsWire(v, x.bonds)
      cb == Bytes(Flat3(x.coords, nc, na))
      qb == Bytes(Flat2(x.charges, nc, na))
      wb == Bytes(x.weights)
  IN IF ~IsEns(x)
       THEN IF v = 1 THEN <<x.name, na, at, bd, x.charge, x.mult, cb, qb>>
                     ELSE <<x.name, na, Len(x.bonds), x.charge, x.mult, at, bd, cb, qb, AttrWire(x.attrib)>>
       ELSE IF v = 1 THEN <<x.name, nc, na, at, bd, x.charge, x.mult, cb, wb, qb>>
                     ELSE <<x.name, nc, na, Len(x.bonds), x.charge, x.mult, at, bd, cb, wb, qb, AttrWire(x.attrib)>>

Failed == [ok |-> FALSE]
Built(kind, name, charge, mult, attrib, atoms, bonds, nc, coords, charges, weights) ==
  LET na == Len(atoms) IN
  [ok |-> TRUE,
   x |-> [kind |-> kind, name |-> name, charge |-> charge, mult |-> mult, attrib |-> attrib, atoms |-> atoms,
          bonds |-> bonds, nconf |-> nc, coords |-> coords, charges |-> charges, weights |-> weights,
          cshape |-> IF kind = "Molecule" THEN <<na, 3>> ELSE <<nc, na, 3>>,
          qshape |-> IF kind = "Molecule" THEN <<na>> ELSE <<nc, na>>,
          wshape |-> IF kind = "Molecule" THEN <<>> ELSE <<nc>>]]

DecodeMol(v, w) ==
  LET na == w[2]
      cb == Floats(IF v = 1 THEN w[7] ELSE w[8])
      qb == Floats(IF v = 1 THEN w[8] ELSE w[9])
  IN IF Len(cb) # na * 3 \/ Len(qb) # na THEN Failed          \* reshape((n_atoms, 3)) / ((n_atoms)) raises
     ELSE Built("Molecule", w[1], IF v = 1 THEN w[5] ELSE w[4], IF v = 1 THEN w[6] ELSE w[5],
                IF v = 1 THEN EmptyAttr ELSE w[10],
                AtomsUnwire(v, IF v = 1 THEN w[3] ELSE w[6]), BondsUnwire(v, IF v = 1 THEN w[4] ELSE w[7]),
                1, Reshape3(cb, 1, na), Reshape2(qb, 1, na), <<>>)

DecodeEns(v, w) ==
  LET nc == w[2]
      na == w[3]
      sw == v = 2 /\ Dev("WeightsChargesSwapped")
      cb == Floats(IF v = 1 THEN w[8] ELSE w[9])
      wb == Floats(IF v = 1 THEN w[9] ELSE (IF sw THEN w[11] ELSE w[10]))
      qb == Floats(IF v = 1 THEN w[10] ELSE (IF sw THEN w[10] ELSE w[11]))
      flatq == v = 1 /\ Dev("V1EnsChargesFlat")       \* pinned tree: the v1 reader forgets reshape((n_conformers, n_atoms))
  IN IF Len(cb) # nc * na * 3 \/ Len(wb) # nc \/ Len(qb) # nc * na THEN Failed
     ELSE IF flatq /\ ~(nc = 1 \/ (nc = 0 /\ na = 0)) THEN Failed   \* (nc*na,) does not broadcast into (nc, na)
     ELSE Built("ConformerEnsemble", w[1], IF v = 1 THEN w[6] ELSE w[5], IF v = 1 THEN w[7] ELSE w[6],
                IF v = 1 THEN EmptyAttr ELSE w[12],
                AtomsUnwire(v, IF v = 1 THEN w[4] ELSE w[7]), BondsUnwire(v, IF v = 1 THEN w[5] ELSE w[8]),
                nc, Reshape3(cb, nc, na), Reshape2(qb, nc, na), wb)

Decode(v, kind, w) ==
  IF Len(w) # Arity(v, kind) THEN Failed                      \* tuple unpacking of the wrong schema raises
  ELSE IF kind = "Molecule" THEN DecodeMol(v, w) ELSE DecodeEns(v, w)

(* ----- the library ------------------------------------------------------------*)
Init == /\ file = [exists |-> FALSE, magic |-> "none", kind |-> "none", recs |-> NoRecs]
        /\ hs = [h \in Handles |-> [made |-> FALSE, codec |-> 0]]
        /\ written = NoRecs
        /\ cache = [h \in Handles |-> NoRecs]
        /\ seen = 0
        /\ last = [act |-> "init", out |-> "ok"]
Note(a, o) == last' = a @@ [out |-> o]

(* a library file of the previous format exists before any current code touches it *)
MakeLegacy(kind) ==
  /\ ~file.exists
  /\ file' = [exists |-> TRUE, magic |-> "ML10Library", kind |-> kind, recs |-> NoRecs]
  /\ UNCHANGED <<hs, written, seen, cache>> /\ Note([act |-> "legacy", kind |-> kind], "ok")

(* ... and holds records that a previous molli wrote with the legacy schema *)
LegacyPut(k, x) ==
  /\ file.exists /\ file.magic = "ML10Library" /\ \A h \in Handles : ~hs[h].made
  /\ k \notin DOMAIN file.recs /\ x.kind = file.kind /\ Holds(InDom(1, x))
  /\ file' = [file EXCEPT !.recs = With(@, k, Encode(1, x))]
  /\ written' = With(written, k, x)
  /\ UNCHANGED <<hs, seen, cache>> /\ Note([act |-> "lput", k |-> k, x |-> x], "ok")

(* MoleculeLibrary(path, readonly = (h # "w")) / ConformerLibrary(...): sniffs the magic, picks the codec.     *)
(* Deviation "VersionMemoisedPerPath": the process looks at a path only the first time it meets it and keeps   *)
(* the answer, also after the file was removed and another one created there (a fresh process starts anew).   *)
ByMagic(magic) == IF magic = "ML10Library" THEN 1 ELSE 2
Memo(h)        == Dev("VersionMemoisedPerPath") /\ h # "f"
CodecFor(h, magic) == IF Memo(h) /\ seen # 0 THEN seen
                      ELSE IF Dev("MagicIgnored") \/ (Dev("MagicIgnoredByReader") /\ h = "r") THEN 2 ELSE ByMagic(magic)
(* ow: the constructor's overwrite=True (writer only, and only while no other library object is alive on the  *)
(* path -- re-creating a file under a live object is outside the claim, as in C02): an existing file is         *)
(* re-created EMPTY as a current (v2) library, so the codec of the new object is that of the NEW file.         *)
(* Deviation "OverwriteKeepsOldVersion" (pinned tree): the magic is sniffed before the file is re-created, a    *)
(* legacy file overwritten this way is then filled with v1 records although it announces v2.                   *)
OpenLib(h, kind, ow) ==
  LET a == [act |-> "open", h |-> h, kind |-> kind, ow |-> ow]
      recreate == ow /\ file.exists
      nf == IF file.exists /\ ~ow THEN file ELSE [exists |-> TRUE, magic |-> "ML10UKV01", kind |-> kind, recs |-> NoRecs]
  IN
  /\ ~hs[h].made
  /\ ow => (h = "w" /\ \A g \in Handles : ~hs[g].made)
  /\ file.exists => file.kind = kind                 \* scope: a MoleculeLibrary on a .clib is outside the claim
  /\ seen' = IF Memo(h) /\ seen = 0 THEN ByMagic(file.magic) ELSE seen       \* the look happens before anything is created
  /\ IF ~file.exists /\ h # "w"
       THEN UNCHANGED <<file, hs, written, cache>> /\ Note(a, "FileNotFoundError")
       ELSE /\ file' = nf
            /\ hs' = [hs EXCEPT ![h] = [made |-> TRUE,
                                         codec |-> CodecFor(h, IF recreate /\ ~Dev("OverwriteKeepsOldVersion") THEN nf.magic ELSE file.magic)]]
            /\ written' = IF recreate THEN NoRecs ELSE written
            /\ UNCHANGED cache /\ Note(a, "ok")

(* the library objects of this process are dropped (end of a job); the file stays as it is *)
Forget ==
  /\ \E h \in Handles : hs[h].made
  /\ hs' = [h \in Handles |-> [made |-> FALSE, codec |-> 0]]
  /\ cache' = [h \in Handles |-> NoRecs]
  /\ UNCHANGED <<file, written, seen>> /\ Note([act |-> "forget"], "ok")

(* the library file is removed (its library objects are dropped with it); whatever is created at the same path  *)
(* afterwards -- a legacy file, or a new library -- is a new file                                             *)
Remove ==
  /\ file.exists
  /\ file' = [exists |-> FALSE, magic |-> "none", kind |-> "none", recs |-> NoRecs]
  /\ hs' = [h \in Handles |-> [made |-> FALSE, codec |-> 0]]
  /\ written' = NoRecs /\ cache' = [h \in Handles |-> NoRecs]
  /\ UNCHANGED seen /\ Note([act |-> "remove"], "ok")

(* lib[k] = x inside writing() *)
Put(k, x) ==
  LET v == hs["w"].codec
      a == [act |-> "put", k |-> k, ver |-> v, x |-> x] IN
  /\ hs["w"].made /\ k \notin DOMAIN file.recs
  /\ x.kind = file.kind /\ Holds(InDom(v, x))
  /\ IF ~Packable(x) THEN UNCHANGED sv /\ Note(a, "OverflowError")
     ELSE /\ file' = [file EXCEPT !.recs = With(@, k, Encode(v, x))]
          /\ written' = With(written, k, x)
          /\ UNCHANGED <<hs, seen, cache>> /\ Note(a, "ok")

(* lib[k] inside writing() (h = "w") or through the second object inside reading() (h = "r").              *)
(* Required: every read decodes the stored record; what the caller does with the object it was handed is     *)
(* the caller's business.  Deviation "AliasedReadCache": the library object keeps the decoded object and     *)
(* hands the SAME object out again while the stored bytes are unchanged.                                     *)
Get(h, k) ==
  LET v == hs[h].codec
      a == [act |-> "get", h |-> h, k |-> k, ver |-> v] IN
  /\ hs[h].made /\ k \in DOMAIN file.recs
  /\ UNCHANGED <<file, hs, written, seen>>
  /\ IF Dev("AliasedReadCache") /\ k \in DOMAIN cache[h]
       THEN UNCHANGED cache /\ last' = a @@ [out |-> "ok", val |-> cache[h][k]]
       ELSE IF Unpackable(v, written[k]) THEN UNCHANGED cache /\ Note(a, "ValueError")
       ELSE LET r == Decode(v, file.kind, file.recs[k]) IN
            IF r.ok THEN /\ last' = a @@ [out |-> "ok", val |-> r.x]
                         /\ cache' = IF Dev("AliasedReadCache") THEN [cache EXCEPT ![h] = With(@, k, r.x)] ELSE cache
                    ELSE UNCHANGED cache /\ Note(a, "ValueError")

(* the caller edits, in place, the object that lib[k] handed to it (rename, recharge, move atoms, relabel):  *)
(* the library is not concerned -- unless it still holds that very object                                    *)
Scribbled(x) == [x EXCEPT !.name = "s:scribbled"]
Scribble(h, k) ==
  /\ hs[h].made /\ k \in DOMAIN file.recs
  /\ UNCHANGED <<file, hs, written, seen>>
  /\ cache' = IF k \in DOMAIN cache[h] THEN [cache EXCEPT ![h] = With(@, k, Scribbled(@[k]))] ELSE cache
  /\ Note([act |-> "scribble", h |-> h, k |-> k], "ok")

Next == \/ \E kind \in Kinds : MakeLegacy(kind)
        \/ \E k \in Keys, x \in Pool : LegacyPut(k, x)
        \/ \E h \in Handles, kind \in Kinds, ow \in BOOLEAN : OpenLib(h, kind, ow)
        \/ Forget
        \/ \E k \in Keys, x \in Pool : Put(k, x)
        \/ \E h \in Handles, k \in Keys : Get(h, k)
        \/ \E h \in Handles, k \in Keys : Scribble(h, k)
        \/ Remove
Spec == Init /\ [][Next]_vars

(* ----- the clauses of C01 ---------------------------------------------------*)
FileVer == IF file.magic = "ML10Library" THEN 1 ELSE 2
(* every stored object reads back, through either object, as Same *)
RoundTrip      == [][last'.act = "get" => (last'.out = "ok" /\ WellFormed(last'.val) /\ Same(written[last'.k], last'.val))]_vars
(* a read-back of a legacy record is again a legacy object *)
V1DomainClosed == [][(last'.act = "get" /\ last'.out = "ok" /\ FileVer = 1) => InDom(1, last'.val)]_vars
(* every object of the schema's domain can be written *)
PutAccepted    == [][last'.act = "put" => last'.out = "ok"]_vars
(* the codec follows the file, not the object that happens to open it *)
CodecByMagic   == \A h \in Handles : hs[h].made => hs[h].codec = FileVer
(* records have the documented shape *)
StoredInSchema == \A k \in DOMAIN file.recs : Len(file.recs[k]) = Arity(FileVer, file.kind)
KeysAreWritten == DOMAIN file.recs = DOMAIN written
(* a library object holds no decoded object that a caller could reach *)
NothingShared  == \A h \in Handles : DOMAIN cache[h] = {}
=============================================================================
