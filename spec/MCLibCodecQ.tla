---------------------------- MODULE MCLibCodecQ ----------------------------
(* Quick-tier pool of MCLibCodec (its own module because TLC evaluates every   *)
(* constant definition at start-up, also in runs that do not use it).          *)
EXTENDS MCLibCodec
PoolQ == PoolOfQ("Molecule") \cup PoolOfQ("ConformerEnsemble")
=============================================================================
