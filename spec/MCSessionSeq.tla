---------------------------- MODULE MCSessionSeq ----------------------------
EXTENDS SessionSeq, Json
Emit == PrintT(ToJson([from |-> sv, act |-> last', to |-> sv', obs |-> Obs']))
=============================================================================
