------------------------------ MODULE UKVCrash ------------------------------
(* C03: a crash at any byte of an append session.                              *)
(* Byte-arithmetic model of the UKV layout: file header (bof bytes), then      *)
(* blocks of 5 + klen + vlen bytes.  `recs` are the complete records on disk,  *)
(* `junk` the number of bytes after the last complete record (the torn part of *)
(* an interrupted append), `sess` the records written by the open append       *)
(* handle since it was opened (lost or partly kept by a crash).                *)
(* Required design: the scan of map_blocks() stops at the last COMPLETE        *)
(* record; an append handle discards the torn tail before it writes.           *)
(* Deviation "TornTailAccepted" is the behaviour of the pinned tree.           *)
EXTENDS Naturals, Sequences, FiniteSets, TLC
CONSTANTS RecPool,        \* candidate records [k, kl, vl, vd]
          MaxRecs, Bof, MaxStream, Deviations
VARIABLES recs, junk, torn, sess, mode, view, committed, last
vars == <<recs, junk, torn, sess, mode, view, committed, last>>
sv   == <<recs, junk, torn, sess, mode, view, committed>>
NoRec == [k |-> "", kl |-> 0, vl |-> 0, vd |-> ""]

Size(r)   == 5 + r.kl + r.vl
RECURSIVE Bytes(_)
Bytes(s)  == IF s = <<>> THEN 0 ELSE Size(Head(s)) + Bytes(Tail(s))
KeysOf(s) == {s[i].k : i \in 1..Len(s)}
(* the longest prefix of s whose bytes fit into p bytes *)
RECURSIVE NComplete(_, _)
NComplete(s, p) == IF s = <<>> \/ Size(Head(s)) > p THEN 0 ELSE 1 + NComplete(Tail(s), p - Size(Head(s)))
Complete(s, p)  == SubSeq(s, 1, NComplete(s, p))
FileSize == Bof + Bytes(recs) + junk

Init == /\ recs = <<>> /\ junk = 0 /\ torn = NoRec /\ sess = <<>> /\ mode = "closed" /\ view = {}
        /\ committed = <<>> /\ last = [act |-> "init"]

(* what map_blocks() lists *)
Scan == IF "TornTailAccepted" \in Deviations /\ junk >= 5
          THEN KeysOf(recs) \cup {IF junk >= 5 + torn.kl THEN torn.k ELSE "partial-key"}
          ELSE KeysOf(recs)

Open(m) ==
  /\ mode = "closed"
  /\ mode' = m /\ view' = Scan
  /\ junk' = IF m = "a" /\ "TornTailAccepted" \notin Deviations THEN 0 ELSE junk     \* TruncateTail
  /\ torn' = IF junk' = 0 THEN NoRec ELSE torn
  /\ UNCHANGED <<recs, sess, committed>>
  /\ last' = [act |-> "open", mode |-> m]

Put(r) ==
  /\ mode = "a" /\ Len(recs) + Len(sess) < MaxRecs
  /\ IF r.k \in view \/ r.kl > 255
       THEN UNCHANGED sv /\ last' = [act |-> "put", r |-> r, out |-> "refused"]
       ELSE /\ sess' = Append(sess, r) /\ view' = view \cup {r.k}
            /\ UNCHANGED <<recs, junk, torn, mode, committed>>
            /\ last' = [act |-> "put", r |-> r, out |-> "ok"]

Close ==
  /\ mode \in {"r", "a"}
  /\ mode' = "closed" /\ recs' = recs \o sess /\ sess' = <<>> /\ committed' = IF mode = "a" THEN recs' ELSE committed
  /\ UNCHANGED <<junk, torn, view>>
  /\ last' = [act |-> "close"]

(* the process dies after p bytes of this handle's appends have reached the file *)
Crash(p) ==
  /\ mode = "a" /\ p \in 0..Bytes(sess)
  /\ LET n == NComplete(sess, p) IN
     /\ recs' = recs \o SubSeq(sess, 1, n)
     /\ junk' = p - Bytes(SubSeq(sess, 1, n))
     /\ torn' = IF n < Len(sess) /\ junk' > 0 THEN sess[n + 1] ELSE NoRec
  /\ sess' = <<>> /\ mode' = "closed" /\ view' = {}
  /\ UNCHANGED committed
  /\ last' = [act |-> "crash", p |-> p]

Next == \/ \E m \in {"r", "a"} : Open(m)
        \/ \E r \in RecPool : Put(r)
        \/ Close
        \/ \E p \in 0..MaxStream : Crash(p)
Spec == Init /\ [][Next]_vars

(* ----- the clauses of C03 -------------------------------------------------- *)
IsPrefix(s, t) == Len(s) <= Len(t) /\ SubSeq(t, 1, Len(s)) = s
CommittedSurvive    == IsPrefix(committed, recs)                            \* complete-before records stay, with their values
ViewIsComplete      == mode \in {"r", "a"} => view = KeysOf(recs) \cup KeysOf(sess)  \* each session record all or nothing
NoPartialKey        == "partial-key" \notin view
NoGapOnAppend       == mode = "a" => junk = 0                                \* nothing is ever written behind a torn tail
NoDuplicate         == \A i, j \in 1..Len(recs) : recs[i].k = recs[j].k => i = j
RecoveredAppendable == [][(last'.act = "put" /\ last'.out = "refused") => (last'.r.k \in KeysOf(recs) \cup KeysOf(sess) \/ last'.r.kl > 255)]_vars
=============================================================================
