------------------------------- MODULE MCHAdd -------------------------------
(* Model-checking wrapper of HAdd: the case table of local environments.       *)
(* centre x formal charge x spin x multiset of 0..3 bond types x hint x        *)
(* orientation of the template geometry (interpreted by the adapter only).    *)
EXTENDS HAdd, Json
CentreEls == {"B", "C", "N", "O", "Si", "P", "S"}
Charges   == {-1, 0, 1}
Spins     == {-1, 0, 1, 2}
BT        == <<"Single", "Double", "Triple", "Aromatic">>
(* non-decreasing sequences over 1..4 of length 0..3 = multisets of bond types *)
BTSeqs == {<<>>} \cup {<<a>> : a \in 1..4}
          \cup {<<a, b>> : a \in 1..4, b \in 1..4} \cup {<<a, b, c>> : a \in 1..4, b \in 1..4, c \in 1..4}
Sorted(s) == \A i \in 1..(Len(s) - 1) : s[i] <= s[i + 1]
Multisets == {s \in BTSeqs : Sorted(s)}
(* neighbour element by palette, bond type and position: organic atoms (which are centres themselves),   *)
(* halogens and metals as bystanders                                                                     *)
Pal(p, bt, k) ==
  CASE bt = 1 -> (CASE p = 1 -> <<"C", "F", "Na">>[k] [] p = 2 -> <<"H", "Cl", "N">>[k] [] p = 3 -> <<"Pd", "O", "Br">>[k])
    [] bt = 2 -> (CASE p = 1 -> <<"O", "C", "N">>[k] [] p = 2 -> <<"C", "S", "O">>[k] [] p = 3 -> <<"N", "O", "C">>[k])
    [] bt = 3 -> (CASE p = 1 -> <<"N", "C", "C">>[k] [] p = 2 -> <<"C", "N", "P">>[k] [] p = 3 -> <<"C", "C", "N">>[k])
    [] bt = 4 -> (CASE p = 1 -> <<"C", "C", "N">>[k] [] p = 2 -> <<"N", "C", "C">>[k] [] p = 3 -> <<"C", "N", "S">>[k])
Nb(p, s) == [k \in DOMAIN s |-> [el |-> Pal(p, s[k], k), bt |-> BT[s[k]]]]
Singles == {<<>>, <<1>>, <<1, 1>>, <<1, 1, 1>>}

EnvSet(pals, oris, spins) ==
  {[c |-> c, fc |-> f, sp |-> s, hint |-> -1, nb |-> Nb(p, m), ori |-> o] :
       c \in CentreEls, f \in Charges, s \in spins, m \in Multisets, p \in pals, o \in oris}
  \cup {e \in {[c |-> c, fc |-> 0, sp |-> 0, hint |-> h, nb |-> Nb(p, m), ori |-> o] :
                   c \in CentreEls, h \in 0..3, m \in Singles, p \in pals, o \in oris} :
            Len(e.nb) + e.hint <= 4}       \* a drawing hint on an organic-like centre: at most four substituents in all
(* the exact +-z orientations matter where molli derives its direction from ONE neighbour *)
EnvsQ == EnvSet({1}, {"gen"}, {-1, 0, 2}) \cup {e \in EnvSet({1}, {"zup"}, {-1, 0, 2}) : Len(e.nb) = 1}
(* small table for histories (Query / Rewire before the calls): centres with 2..3 neighbours *)
EnvsH == {e \in EnvSet({1}, {"gen"}, {0}) : e.c \in {"C", "N", "B"} /\ e.fc = 0 /\ e.hint < 0 /\ Len(e.nb) >= 2
                                              /\ \A k \in DOMAIN e.nb : e.nb[k].bt \in {"Single", "Double", "Aromatic"}}
EnvsT == EnvSet({1, 2, 3}, {"gen", "zup", "zdn"}, Spins)
EnvsS == {e \in EnvSet({1}, {"gen"}, {0, 1}) : e.c \in {"C", "N", "O"}}       \* small table for the deviation runs

DevNone == {}
DevChargeSign == {"ChargeSign"}
DevSpinIgnored == {"SpinIgnored"}
DevFloorValence == {"FloorValence"}
DevOffByOne == {"OffByOne"}
DevHintIgnored == {"HintIgnored"}
DevNoFourH == {"NoFourH"}
DevToward == {"TowardNeighbours"}
DevNaN == {"NaNWhenIsolated"}
DevLength == {"WrongLength"}
DevOrderZero == {"HBondOrderZero"}
DevTwice == {"HBondedTwice"}
DevShift == {"ShiftsCoords"}
DevStale == {"StaleAdjacency"}
DevReadopt == {"ReadoptsShared"}

View == sv
ObsAtoms == [i \in DOMAIN atoms |-> [el |-> atoms[i].el, fc |-> atoms[i].fc, sp |-> atoms[i].sp,
                                     pos |-> atoms[i].pos, q |-> atoms[i].q]]
Obs == [atoms |-> ObsAtoms, bonds |-> bonds, newh |-> IF last.act = "addh" THEN last.cls ELSE <<>>]
Emit == PrintT(ToJson([from |-> sv, act |-> last', to |-> sv', obs |-> Obs']))
=============================================================================
