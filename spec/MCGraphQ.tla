------------------------------ MODULE MCGraphQ ------------------------------
(* Model-checking wrapper for GraphQ (C15): constants as definitions.         *)
EXTENDS GraphQ
ElC    == {"C"}
ElCN   == {"C", "N"}
ElPat  == {"C", "N", "Unknown"}
KTrav  == {"bfs", "ring", "local", "defs"}
KDefs  == {"defs"}
KBfs   == {"bfs"}
KMatch == {"match"}
KHist  == {"match", "bfs"}
NoPat  == {}
(* connected patterns on 1..3 atoms, elements incl. the wildcard *)
Connected(G) == ReachDecl(AdjOf(G), 1, {}) = Nodes(G)
Pat3   == {P \in AllGraphs(3, ElPat) : Connected(P)}
(* patterns on 1..2 atoms for the history model *)
Pat2   == {P \in AllGraphs(2, ElPat) : Connected(P)}
(* connected patterns on 1..4 atoms over {C, Unknown} *)
Pat4   == {P \in AllGraphs(4, {"C", "Unknown"}) : Connected(P)}
DevNone      == {}
DevLIFO      == {"LIFO"}
DevStart     == {"StartNotVisited"}
DevDirection == {"DirectionNotExcluded"}
DevDirZero   == {"DirectionAtZero"}
DevRing      == {"RingThroughBond"}
DevValence   == {"ValenceCountsBonds"}
DevNonInduced == {"NonInducedMatch"}
DevWildcard  == {"WildcardIgnored"}
DevStaleAttr == {"StaleAttributes"}
DevStaleAdj  == {"StaleAdjacency"}
DevPerHandle == {"PerHandleCache"}
HOne == {"obj"}
HTwo == {"obj", "view"}
View == sv
=============================================================================
