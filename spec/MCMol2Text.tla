----------------------------- MODULE MCMol2Text -----------------------------
(* Model-checking / generation wrapper for Mol2Text (C07).                    *)
(* The vocabularies Elements / AtomTypes / AtomGeoms / BondTypes are written  *)
(* into the cfg by the harness from the enums of the code under test.         *)
EXTENDS Mol2Text, Json

C(a, f) == [a |-> a, f |-> f]
(* coordinate triples: 7 decimals, carries, negative zero, wider than the 12-column field *)
Xyz == << <<C(0, 0), C(1, 2345678), C(-2, -5000004)>>,
          <<C(0, -4), C(199, 9999996), C(-12345, -6789012)>>,
          <<C(99999, 9999994), C(-1, -1), C(3, 3000000)>>,
          <<C(0, 1234564), C(12, 47), C(-99999, -9999949)>>,
          <<C(7, 7777777), C(-3, -1415927), C(0, 9999994)>> >>
(* charges in 1e-5 e: more than 3 decimals, negative, rounds to -0.000, large *)
(* ... and charges that round to zero from below and from above (-0.0003, -0.00049, +0.0003, +0.00049, -0.00001)     *)
Qs  == <<0, 12345, -100060, 200000, -40, 99949, -1234567, -30, 30, -49, 49, -1>>

A(el, at, g, lab, xi, qi) == [el |-> el, at |-> at, g |-> g, lab |-> lab, xi |-> xi, qi |-> qi]
(* every element x atom type x geometry, one atom each (typing table, exhaustive) *)
AllTriples == {A(e, t, g, "", 1, 2) : e \in Elements, t \in AtomTypes, g \in AtomGeoms}
(* small pool for the exhaustive structure model *)
PoolS == {A("C", "Regular", "Unknown", "C1", 1, 2), A("N", "N_Amide", "R3_Planar", "", 2, 3),
          A("Fe", "Unknown", "R6_Octahedral", "Fe_long_label", 3, 5), A("S", "Dummy", "R2_Bent", "#h", 4, 1),
          A("N", "Regular", "R3_Planar", "1", 5, 4)}
PoolM == PoolS \cup {A("O", "O_Carboxylate", "R1", "H_a.b", 2, 6)}
(* rich pool for generated structures (simulation) *)
PoolL == PoolM \cup {A("C", "Aromatic", "R3_Planar", "", 1, 1), A("C", "C_Guanidinium", "R3_Planar", "Cg", 3, 3),
                     A("N", "N_Ammonium", "R4_Tetrahedral", "N+", 4, 7), A("S", "O_Sulfone", "R4_Tetrahedral", "", 5, 2),
                     A("S", "O_Sulfoxide", "R3_Pyramidal", "S=O", 1, 4), A("H", "AttachmentPoint", "R1", "AP1", 2, 1),
                     A("Unknown", "Regular", "Unknown", "", 3, 2), A("Og", "sp3d2", "R4_Tetrahedral", "x", 4, 5),
                     A("Ti", "CoordinationCenter", "R4_Tetrahedral", "Ti1", 5, 6), A("P", "LonePair", "R3_Planar", "", 1, 7),
                     A("C", "sp", "R2_Linear", "C#", 2, 2), A("O", "sp2", "Unknown", "", 3, 1), A("B", "sp3", "R4", "B", 4, 3),
                     A("Cl", "Hypervalent", "R3_TShape", "Cl", 5, 5)}
(* pool for the deviation runs: one trigger per named deviation *)
PoolD == {A("C", "Regular", "Unknown", "C1", 1, 2), A("N", "N_Nitro", "R3_Planar", "Fe_long_label", 2, 3),
          A("S", "Dummy", "R2_Bent", "", 3, 5), A("P", "LonePair", "Unknown", "lp", 4, 4)}
BondsD == {"Single", "Amide", "Ligand"}
BondsM == {"Single", "Amide", "Quadruple"}
PoolT == {A("C", "Regular", "Unknown", "C1", 1, 2), A("N", "N_Amide", "R3_Planar", "", 2, 3),
          A("Fe", "Unknown", "R6_Octahedral", "Fe_long_label", 3, 5)}
Names1 == {"m1"}
Names2 == {"m1", "mol A  2"}
Names4 == {"m1", "mol A  2", "#x", "unknown"}
K1 == {"Mol"}
K3 == {"Mol", "Struct", "Ens"}
NoBonds == {}
DevNone == {}
DevRegular == {"RegularShadowsGeometry"}
DevLP == {"LonePairAsLP"}
DevDummy == {"DummyLosesElement"}
DevAmide == {"AmideAsSingle"}
DevLigand == {"LigandToken"}
DevFour == {"FourDecimals"}
DevLabel == {"LabelTruncated"}
DevCharge == {"ChargeColumnDropped"}
DevRecursion == {"StructDumpsRecursion"}
DevShift == {"EndpointShift"}
DevOrder == {"ConformerOrderLost"}
DevStaleBond == {"StaleBondTokenCache"}
DevStaleAtom == {"StaleAtomTokenCache"}
DevParentIdx == {"EndpointsViaParentIndex"}
DevMemo == {"ReaderMemoFromHistory"}
DevNegZero == {"NegativeZeroChargeToken"}
DevRepeat == {"RepeatedPairReadsSingle"}
PoolOne == {A("C", "Regular", "Unknown", "C1", 1, 2)}
BondsP == {"Single", "Double", "Aromatic", "Amide", "Dummy", "Unknown", "NotConnected", "Quadruple"}
EditB == {"Double", "Aromatic"}
NoPhase == {}
AliasTwo == {"promol", "dropped"}     \* model checking: "struct" behaves like "promol", "view" changes no bookkeeping
AfterCycle == {5}      \* model checking: edit after a complete cycle
AfterWrite == {1, 2}   \* generation: edits before or right after the first write (the harness completes the first cycle,
                       \* then applies them to the same object and writes it again)

View == sv
(* generation: one line per built object (recipe for the harness + the abstract object the spec expects it to be) *)
(* and one line per edit of that object (operation + the abstract object after it)                               *)
Emit == IF last'.act = "build" THEN PrintT(ToJson([act |-> "build", rec |-> rec', obj |-> obj']))
        ELSE IF last'.act = "edit" THEN PrintT(ToJson([act |-> "edit", n |-> edits', op |-> last'.op, obj |-> obj']))
        ELSE TRUE
=============================================================================
