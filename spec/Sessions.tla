------------------------------ MODULE Sessions ------------------------------
(* C04: reading()/writing() sessions of several processes on one library.     *)
(* One action per step of the context managers in storage/backends.py:         *)
(*   acquire lock -> begin_(read|write) [open + map_blocks] -> update_keys ->  *)
(*   body (puts/gets, user code) -> flush -> end_(read|write) [close] ->       *)
(*   release lock.                                                             *)
(* An exception may be raised in the body (user code / value encoder), by the  *)
(* i-th backend write of the flush, or by end_write; the required continuation *)
(* is always  close-if-open ; release.  Deviation "FlushFailureKeepsLock" is   *)
(* the pinned tree (an exception in flush()/end_write() skips the release).    *)
(* Before its first session a process constructs its handle                    *)
(* (UkvCollectionBackend.__init__): take the write lock; create the library    *)
(* file if it is absent; release.  Deviation "TestOutsideLock" tests for the   *)
(* file BEFORE taking the lock and (re)creates it afterwards on that stale     *)
(* answer - which empties a library another process has filled meanwhile.      *)
EXTENDS Naturals, Sequences, FiniteSets, TLC
CONSTANTS Proc, Key, MaxSess, MaxPuts, Deviations
VARIABLES lock,     \* [writer : Proc \cup {"none"}, readers : SUBSET Proc]
          file,     \* Seq of [k, owner, sid] : complete records in the file
          pc,       \* [Proc -> phase]
          kind,     \* [Proc -> "r" | "w"]
          queue,    \* [Proc -> Seq(record)] write queue of the session
          keys,     \* [Proc -> SUBSET Key]  key listing of the session
          fopen,    \* [Proc -> BOOLEAN]     file handle open
          failed,   \* [Proc -> BOOLEAN]     an exception is propagating in this session
          nsess,    \* [Proc -> Nat]         sessions started
          acked,    \* records of sessions that completed without an exception (history variable)
          exists,   \* the library file exists
          saw       \* [Proc -> BOOLEAN]     constructor: the answer of the existence test it acts on
vars == <<lock, file, pc, kind, queue, keys, fopen, failed, nsess, acked, exists, saw>>
cvars == <<exists, saw>>

KeysOf(s) == {s[i].k : i \in 1..Len(s)}
Range(s)  == {s[i] : i \in 1..Len(s)}
None == "none"

Init == /\ lock = [writer |-> None, readers |-> {}]
        /\ file = <<>>
        /\ pc = [p \in Proc |-> "new"] /\ exists = FALSE /\ saw = [p \in Proc |-> FALSE]
        /\ kind = [p \in Proc |-> "r"]
        /\ queue = [p \in Proc |-> <<>>] /\ keys = [p \in Proc |-> {}]
        /\ fopen = [p \in Proc |-> FALSE] /\ failed = [p \in Proc |-> FALSE]
        /\ nsess = [p \in Proc |-> 0] /\ acked = {}

(* ----- construction of the handle (UkvCollectionBackend.__init__) ---------- *)
CtorTest(p) == /\ pc[p] = "new"
               /\ saw' = [saw EXCEPT ![p] = IF "TestOutsideLock" \in Deviations THEN exists ELSE FALSE]
               /\ pc' = [pc EXCEPT ![p] = "ctor_wait"]
               /\ UNCHANGED <<lock, file, kind, queue, keys, fopen, failed, nsess, acked, exists>>
CtorAcquire(p) == /\ pc[p] = "ctor_wait" /\ lock.writer = None /\ lock.readers = {}
                  /\ lock' = [lock EXCEPT !.writer = p] /\ pc' = [pc EXCEPT ![p] = "ctor_held"]
                  /\ UNCHANGED <<file, kind, queue, keys, fopen, failed, nsess, acked, exists, saw>>
CtorCreate(p) == /\ pc[p] = "ctor_held"
                 /\ LET absent == IF "TestOutsideLock" \in Deviations THEN ~saw[p] ELSE ~exists IN
                    IF absent THEN exists' = TRUE /\ file' = <<>>          \* open(..., "x" / "w"): an empty library
                              ELSE UNCHANGED <<exists, file>>
                 /\ pc' = [pc EXCEPT ![p] = "ctor_rel"]
                 /\ UNCHANGED <<lock, kind, queue, keys, fopen, failed, nsess, acked, saw>>
CtorRelease(p) == /\ pc[p] = "ctor_rel"
                  /\ lock' = [lock EXCEPT !.writer = None] /\ pc' = [pc EXCEPT ![p] = "idle"]
                  /\ UNCHANGED <<file, kind, queue, keys, fopen, failed, nsess, acked, exists, saw>>

Request(p, kd) == /\ pc[p] = "idle" /\ nsess[p] < MaxSess
                  /\ pc' = [pc EXCEPT ![p] = "waiting"] /\ kind' = [kind EXCEPT ![p] = kd]
                  /\ nsess' = [nsess EXCEPT ![p] = @ + 1] /\ failed' = [failed EXCEPT ![p] = FALSE]
                  /\ UNCHANGED <<lock, file, queue, keys, fopen, acked, exists, saw>>

Acquire(p) == /\ pc[p] = "waiting"
              /\ IF kind[p] = "r"
                   THEN lock.writer = None /\ lock' = [lock EXCEPT !.readers = @ \cup {p}]
                   ELSE lock.writer = None /\ lock.readers = {} /\ lock' = [lock EXCEPT !.writer = p]
              /\ pc' = [pc EXCEPT ![p] = "held"]
              /\ UNCHANGED <<file, kind, queue, keys, fopen, failed, nsess, acked, exists, saw>>

(* begin_read/begin_write + update_keys: the index is refreshed from the file *)
Begin(p) == /\ pc[p] = "held"
            /\ fopen' = [fopen EXCEPT ![p] = TRUE]
            /\ keys' = [keys EXCEPT ![p] = IF "StaleIndex" \in Deviations THEN @ ELSE KeysOf(file)]
            /\ pc' = [pc EXCEPT ![p] = "body"]
            /\ UNCHANGED <<lock, file, kind, queue, failed, nsess, acked, exists, saw>>

BodyPut(p, k) == /\ pc[p] = "body" /\ kind[p] = "w" /\ k \notin keys[p] /\ Len(queue[p]) < MaxPuts
                 /\ queue' = [queue EXCEPT ![p] = Append(@, [k |-> k, owner |-> p, sid |-> nsess[p]])]
                 /\ keys' = [keys EXCEPT ![p] = @ \cup {k}]
                 /\ UNCHANGED <<lock, file, pc, kind, fopen, failed, nsess, acked, exists, saw>>

(* an unbuffered collection writes at once; a buffered one at the end: both are modelled *)
FlushOne(p) == /\ pc[p] \in {"body", "flushing"} /\ kind[p] = "w" /\ queue[p] # <<>>
               /\ file' = Append(file, Head(queue[p]))
               /\ queue' = [queue EXCEPT ![p] = Tail(@)]
               /\ UNCHANGED <<lock, pc, kind, keys, fopen, failed, nsess, acked, exists, saw>>

BodyDone(p) == /\ pc[p] = "body"
               /\ pc' = [pc EXCEPT ![p] = IF kind[p] = "w" THEN "flushing" ELSE "closing"]
               /\ UNCHANGED <<lock, file, kind, queue, keys, fopen, failed, nsess, acked, exists, saw>>

RaiseInBody(p) == /\ pc[p] = "body"
                  /\ failed' = [failed EXCEPT ![p] = TRUE]
                  /\ pc' = [pc EXCEPT ![p] = IF kind[p] = "w" THEN "flushing" ELSE "closing"]
                  /\ UNCHANGED <<lock, file, kind, queue, keys, fopen, nsess, acked, exists, saw>>

FlushDone(p) == /\ pc[p] = "flushing" /\ queue[p] = <<>>
                /\ pc' = [pc EXCEPT ![p] = "closing"]
                /\ UNCHANGED <<lock, file, kind, queue, keys, fopen, failed, nsess, acked, exists, saw>>

(* the backend write of the head item raises: the item is dropped, the rest is not written now *)
RaiseInFlush(p) == /\ pc[p] = "flushing" /\ queue[p] # <<>>
                   /\ failed' = [failed EXCEPT ![p] = TRUE]
                   /\ queue' = [queue EXCEPT ![p] = <<>>]
                   /\ pc' = [pc EXCEPT ![p] = IF "FlushFailureKeepsLock" \in Deviations THEN "leaked" ELSE "closing"]
                   /\ UNCHANGED <<lock, file, kind, keys, fopen, nsess, acked, exists, saw>>

End(p) == /\ pc[p] = "closing"
          /\ fopen' = [fopen EXCEPT ![p] = FALSE]
          /\ pc' = [pc EXCEPT ![p] = "releasing"]
          /\ UNCHANGED <<lock, file, kind, queue, keys, failed, nsess, acked, exists, saw>>

RaiseInEnd(p) == /\ pc[p] = "closing"
                 /\ failed' = [failed EXCEPT ![p] = TRUE]
                 /\ fopen' = [fopen EXCEPT ![p] = FALSE]
                 /\ pc' = [pc EXCEPT ![p] = IF "FlushFailureKeepsLock" \in Deviations THEN "leaked" ELSE "releasing"]
                 /\ UNCHANGED <<lock, file, kind, queue, keys, nsess, acked, exists, saw>>

Release(p) == /\ pc[p] = "releasing"
              /\ lock' = IF kind[p] = "w" THEN [lock EXCEPT !.writer = None] ELSE [lock EXCEPT !.readers = @ \ {p}]
              /\ pc' = [pc EXCEPT ![p] = "idle"]
              /\ acked' = IF kind[p] = "w" /\ ~failed[p]
                            THEN acked \cup {r \in Range(file) : r.owner = p /\ r.sid = nsess[p]} ELSE acked
              /\ UNCHANGED <<file, kind, queue, keys, fopen, failed, nsess, exists, saw>>

(* pinned behaviour: the exception leaves the context manager without releasing *)
Leak(p) == /\ pc[p] = "leaked" /\ pc' = [pc EXCEPT ![p] = "idle"]
           /\ UNCHANGED <<lock, file, kind, queue, keys, fopen, failed, nsess, acked, exists, saw>>

Step(p) == \/ CtorTest(p) \/ CtorAcquire(p) \/ CtorCreate(p) \/ CtorRelease(p)
           \/ \E kd \in {"r", "w"} : Request(p, kd)
           \/ Acquire(p) \/ Begin(p) \/ (\E k \in Key : BodyPut(p, k)) \/ FlushOne(p) \/ BodyDone(p)
           \/ RaiseInBody(p) \/ FlushDone(p) \/ RaiseInFlush(p) \/ End(p) \/ RaiseInEnd(p) \/ Release(p) \/ Leak(p)
Next == \E p \in Proc : Step(p)
Progress(p) == CtorTest(p) \/ CtorAcquire(p) \/ CtorCreate(p) \/ CtorRelease(p) \/ Acquire(p) \/ Begin(p) \/ FlushOne(p) \/ BodyDone(p) \/ FlushDone(p) \/ End(p) \/ Release(p) \/ Leak(p)
Spec == Init /\ [][Next]_vars
FairSpec == Spec /\ \A p \in Proc : WF_vars(Progress(p)) /\ SF_vars(Acquire(p)) /\ SF_vars(CtorAcquire(p))

(* ----- clauses of C04 ------------------------------------------------------ *)
InSession(p) == pc[p] \in {"held", "body", "flushing", "closing", "releasing"}
WriterExclusive == /\ lock.writer # None => lock.readers = {}
                   /\ \A p \in Proc : InSession(p) =>
                        IF kind[p] = "w" THEN lock.writer = p /\ lock.readers = {} ELSE p \in lock.readers /\ lock.writer = None
                   /\ \A p \in Proc : pc[p] \in {"ctor_held", "ctor_rel"} => lock.writer = p /\ lock.readers = {}
LockFreeWhenIdle == \A p \in Proc : pc[p] \in {"idle", "waiting", "new", "ctor_wait"} => lock.writer # p /\ p \notin lock.readers
HandleClosedWhenIdle == \A p \in Proc : pc[p] = "idle" => ~fopen[p]
AckedPresent == acked \subseteq Range(file)                                  \* no completed record is lost
NoLostOrAltered == [][Len(file) <= Len(file') /\ SubSeq(file', 1, Len(file)) = file]_vars
SessionsNeedTheFile == \A p \in Proc : InSession(p) => exists
ReaderSeesOnlyComplete == \A p \in Proc : (pc[p] = "body" /\ kind[p] = "r") => (keys[p] = KeysOf(file) /\ lock.writer = None)
WriterSeesAll == \A p \in Proc : (pc[p] = "body" /\ kind[p] = "w") => KeysOf(file) \subseteq keys[p]
NoDuplicate == \A i, j \in 1..Len(file) : file[i].k = file[j].k => i = j
Progresses == \A p \in Proc : (pc[p] = "waiting") ~> (pc[p] = "body")
=============================================================================
