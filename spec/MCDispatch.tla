----------------------------- MODULE MCDispatch -----------------------------
(* Model-checking wrapper of Dispatch: the objects, documents and targets of   *)
(* the replay; the numbers of records are facts about the files, read by the   *)
(* harness and passed as constants.                                            *)
EXTENDS Dispatch, Json
CONSTANTS NEns,      \* conformers of the ensemble object
          NXk, NMk,  \* frames / molecules of the multi-record xyz and mol2 documents
          NCdx, NCdx2, \* fragments of the two cdxml documents
          NXh        \* frames of the generated heterogeneous multi-xyz document (thorough)

ObjsM  == [mol |-> [kind |-> "Molecule", recs |-> 1, cid |-> "A"],
           ens |-> [kind |-> "ConformerEnsemble", recs |-> NEns, cid |-> "B"]]
DocsQ  == [x1   |-> [fmt |-> "xyz",   suffix |-> "xyz",   n |-> 1,    hom |-> TRUE],
           xk   |-> [fmt |-> "xyz",   suffix |-> "xyz",   n |-> NXk,  hom |-> TRUE],
           xdat |-> [fmt |-> "xyz",   suffix |-> "zzz",   n |-> NXk,  hom |-> TRUE],    \* xyz content, unknown suffix
           m1   |-> [fmt |-> "mol2",  suffix |-> "mol2",  n |-> 1,    hom |-> TRUE],
           mk   |-> [fmt |-> "mol2",  suffix |-> "mol2",  n |-> NMk,  hom |-> TRUE],
           c1   |-> [fmt |-> "cdxml", suffix |-> "cdxml", n |-> NCdx, hom |-> FALSE],
           c2   |-> [fmt |-> "cdxml", suffix |-> "cdxml", n |-> NCdx2, hom |-> FALSE],   \* another drawing, other keys
           u    |-> [fmt |-> "sdf",   suffix |-> "sdf",   n |-> 1,    hom |-> TRUE]]    \* a format only openbabel reads
DocsT  == DocsQ @@ [xh |-> [fmt |-> "xyz",  suffix |-> "xyz",  n |-> NXh, hom |-> FALSE],   \* several different molecules
                    mh |-> [fmt |-> "mol2", suffix |-> "sdf",  n |-> NXh, hom |-> FALSE]]
PathsM == [pxyz |-> "xyz", psdf |-> "sdf"]
PathsT == [pxyz |-> "xyz", pmol2 |-> "mol2", psdf |-> "sdf"]
StreamsM == {"s"}
SrcsM  == [sxyz |-> "xyz", smol2 |-> "mol2", scdxml |-> "cdxml", ssdf |-> "sdf", szzz |-> "zzz"]

DevNone == {}
DevLoadsAll == {"LoadsAllSingle"}
DevOtype    == {"OtypeIgnored"}
DevName     == {"EnsembleNameDropped"}
DevError    == {"UnsupportedIsOtherError"}
DevClosed   == {"StreamClosedAfterDump"}
DevRaises   == {"StreamDumpRaises"}
DevMode     == {"DefaultModeReplaces"}
DevStale    == {"StaleSourceCache"}

Obs  == [files |-> files, streams |-> streams, srcs |-> srcs]
View == sv
Emit == PrintT(ToJson([from |-> sv, act |-> last', to |-> IF sv' = sv THEN "=" ELSE sv', obs |-> IF sv' = sv THEN "=" ELSE Obs']))
=============================================================================
