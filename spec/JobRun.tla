------------------------------- MODULE JobRun -------------------------------
(* C17, part 2: executing a JobInput (molli/pipeline/runner.py, _molli_run).  *)
(* One label per step of run_local: materialise the input files, run the      *)
(* commands in order in a private scratch directory with the merged           *)
(* environment, stop at the first non-zero status, capture stdout/stderr of   *)
(* the NAMED commands that ran, collect the requested files that exist,       *)
(* write the output with the input's hash, exit 0 iff no command failed and   *)
(* every requested file exists, remove the scratch directory.                 *)
EXTENDS Naturals, Sequences, FiniteSets, TLC
CONSTANTS CmdPool,     \* commands [named : BOOLEAN, rc : Nat, writes : SUBSET Files]
          Files, Requested, MaxCmds, Deviations,
          Forms        \* how the optional fields of the JobInput are given: "full" | "nofiles_none" | "nofiles_empty" |
                       \* "noenv_none" | "noenv_empty" | "noret_none" | "noret_empty"  (omitted / None vs explicitly empty) |
                       \* "rel_out" | "rel_scratch" | "rel_job" (how the runner is started: relative paths) |
                       \* "env_path" (the job's environment overrides PATH; programs are looked up there) - none of them changes the result
VARIABLES cmds,      \* the job's command list
          form,      \* the form of the optional fields
          pc,        \* "choose" | "files" | "loop" | "collect" | "done"
          i,         \* next command
          executed,  \* indices executed
          fail,      \* index of the failing command or 0
          present,   \* files present in the scratch directory
          result,    \* the run's observable result
          last
vars == <<cmds, form, pc, i, executed, fail, present, result, last>>
sv == <<cmds, form, pc, i, executed, fail, present, result>>
InFiles == IF form \in {"nofiles_none", "nofiles_empty"} THEN {} ELSE {"note.txt", "blob.bin"}
Req == IF form \in {"noret_none", "noret_empty"} THEN {} ELSE Requested
NoResult == [exit |-> 99]

Init == cmds = <<>> /\ form = "full" /\ pc = "choose" /\ i = 1 /\ executed = <<>> /\ fail = 0 /\ present = {} /\ result = NoResult
        /\ last = [act |-> "init"]

Choose(cs, f) == /\ pc = "choose" /\ cmds' = cs /\ form' = f /\ pc' = "files"
                 /\ UNCHANGED <<i, executed, fail, present, result>> /\ last' = [act |-> "choose", cmds |-> cs, form |-> f]
Materialise == /\ pc = "files" /\ pc' = "loop" /\ present' = InFiles
               /\ UNCHANGED <<cmds, form, i, executed, fail, result>> /\ last' = [act |-> "files"]
Exec == /\ pc = "loop" /\ i <= Len(cmds)
        /\ executed' = Append(executed, i)
        /\ present' = present \cup cmds[i].writes
        /\ IF cmds[i].rc # 0 /\ "ContinueAfterFailure" \notin Deviations
             THEN fail' = i /\ pc' = "collect" /\ i' = i
             ELSE fail' = (IF cmds[i].rc # 0 /\ fail = 0 THEN i ELSE fail) /\ i' = i + 1 /\ pc' = pc
        /\ UNCHANGED <<cmds, form, result>> /\ last' = [act |-> "exec", i |-> i]
LoopDone == /\ pc = "loop" /\ i > Len(cmds) /\ pc' = "collect"
            /\ UNCHANGED <<cmds, form, i, executed, fail, present, result>> /\ last' = [act |-> "loopdone"]
Ran == {executed[j] : j \in 1..Len(executed)}
Collect ==
  /\ pc = "collect" /\ pc' = "done"
  /\ LET got == Req \cap present
         complete == got = Req
     IN result' = [executed |-> executed,
                   captured |-> {j \in Ran : cmds[j].named},
                   files    |-> got,
                   exit     |-> IF (fail = 0 \/ "ExitIgnoresFailure" \in Deviations)
                                   /\ (complete \/ "ExitIgnoresMissing" \in Deviations) THEN 0 ELSE 1,
                   residue  |-> "KeepScratch" \in Deviations,
                   hash_ok  |-> TRUE, inputs_ok |-> TRUE, env_ok |-> TRUE]      \* whatever the form of the optional fields
  /\ UNCHANGED <<cmds, form, i, executed, fail, present>> /\ last' = [act |-> "collect"]

CmdLists == UNION {[1..n -> CmdPool] : n \in 1..MaxCmds}
Next == (\E cs \in CmdLists, f \in Forms : Choose(cs, f)) \/ Materialise \/ Exec \/ LoopDone \/ Collect
Spec == Init /\ [][Next]_vars

(* ----- clauses -------------------------------------------------------------- *)
Done == pc = "done"
FirstFail == IF \E j \in 1..Len(cmds) : cmds[j].rc # 0 THEN CHOOSE j \in 1..Len(cmds) : cmds[j].rc # 0 /\ \A k \in 1..(j-1) : cmds[k].rc = 0 ELSE 0
ExecutedIsPrefixToFirstFailure ==
  Done => result.executed = [j \in 1..(IF FirstFail = 0 THEN Len(cmds) ELSE FirstFail) |-> j]
CapturedExactlyNamedExecuted == Done => result.captured = {j \in 1..Len(result.executed) : cmds[j].named}
ExitRule == Done => (result.exit = 0 <=> (FirstFail = 0 /\ Req \subseteq result.files))
NoResidue == Done => ~result.residue
FilesAreRequestedAndWritten == Done => result.files = {f \in Req : \E j \in 1..Len(result.executed) : f \in cmds[j].writes}
=============================================================================
