----------------------------- MODULE MCSessions -----------------------------
EXTENDS Sessions
P2 == {"p1", "p2"}
P3 == {"p1", "p2", "p3"}
K2 == {"k1", "k2"}
K3 == {"k1", "k2", "k3"}
DevNone == {}
DevLeak == {"FlushFailureKeepsLock"}
DevStale == {"StaleIndex"}
DevToctou == {"TestOutsideLock"}
=============================================================================
