------------------------------ MODULE JobBind ------------------------------
(* C17, part 1: a Job declared on a driver class is a descriptor.  Preparing  *)
(* a JobInput through driver instance d must reflect d's CURRENT executable,  *)
(* processor count and environment, whatever other instances exist or were    *)
(* used before, and whatever d itself was configured with earlier.            *)
(* Deviation "SharedDescriptor" is the pinned tree (the first access writes    *)
(* the instance's settings into the one shared Job object, environments are    *)
(* merged into it); "FrozenAtFirstUse" binds once per instance and never       *)
(* looks at the instance again.                                                *)
EXTENDS Naturals, Sequences, FiniteSets, TLC
CONSTANTS Drv, Exe, NProc, Env,   \* [Drv -> [0..1 -> ...]] settings of each instance: original (0) and after re-configuration (1)
          MaxOps, Deviations
VARIABLES made,    \* set of created instances
          conf,    \* [Drv -> 0..1] which settings the instance currently has
          sticky,  \* settings remembered by the shared descriptor (only under SharedDescriptor)
          frozen,  \* [Drv -> settings bound at the first use] (only under FrozenAtFirstUse)
          nops, last
vars == <<made, conf, sticky, frozen, nops, last>>
sv == <<made, conf, sticky, frozen, nops>>
NoneS == [exe |-> "none", np |-> 0, env |-> {}]

Init == /\ made = {} /\ conf = [d \in Drv |-> 0] /\ sticky = NoneS /\ frozen = [d \in Drv |-> NoneS]
        /\ nops = 0 /\ last = [act |-> "init"]

Cur(d) == [exe |-> Exe[d][conf[d]], np |-> NProc[d][conf[d]], env |-> Env[d][conf[d]]]

Create(d) == /\ d \notin made /\ nops < MaxOps
             /\ made' = made \cup {d} /\ nops' = nops + 1 /\ UNCHANGED <<conf, sticky, frozen>>
             /\ last' = [act |-> "create", d |-> d]

(* driver.executable / nprocs / envars are assigned new values on the live instance *)
Reconfigure(d) == /\ d \in made /\ conf[d] = 0 /\ nops < MaxOps
                  /\ conf' = [conf EXCEPT ![d] = 1] /\ nops' = nops + 1 /\ UNCHANGED <<made, sticky, frozen>>
                  /\ last' = [act |-> "reconfigure", d |-> d]

Bound(d) == IF "SharedDescriptor" \in Deviations
              THEN [exe |-> IF sticky.exe # "none" THEN sticky.exe ELSE Cur(d).exe,
                    np  |-> IF sticky.np # 0 THEN sticky.np ELSE Cur(d).np,
                    env |-> Cur(d).env \cup sticky.env]
              ELSE IF "FrozenAtFirstUse" \in Deviations /\ frozen[d] # NoneS THEN frozen[d]
              ELSE Cur(d)

(* d.job.prepare(args): the JobInput's command line and environment *)
Use(d) == /\ d \in made /\ nops < MaxOps
          /\ nops' = nops + 1 /\ UNCHANGED <<made, conf>>
          /\ sticky' = IF "SharedDescriptor" \in Deviations THEN Bound(d) ELSE sticky
          /\ frozen' = IF "FrozenAtFirstUse" \in Deviations /\ frozen[d] = NoneS THEN [frozen EXCEPT ![d] = Cur(d)] ELSE frozen
          /\ last' = [act |-> "use", d |-> d, exe |-> Bound(d).exe, np |-> Bound(d).np, env |-> Bound(d).env]

Next == \E d \in Drv : Create(d) \/ Use(d) \/ Reconfigure(d)
Spec == Init /\ [][Next]_vars
Obs == [made |-> made, conf |-> conf]
NoCrossTalk == [][last'.act = "use" =>
                    (last'.exe = Cur(last'.d).exe /\ last'.np = Cur(last'.d).np /\ last'.env = Cur(last'.d).env)]_vars
=============================================================================
