------------------------------ MODULE JobBind ------------------------------
(* C17, part 1: a Job declared on a driver class is a descriptor.  Preparing  *)
(* a JobInput through driver instance d must reflect d's own executable,      *)
(* processor count and environment, whatever other instances exist or were    *)
(* used before.  Deviation "SharedDescriptor" is the pinned tree: the first   *)
(* access writes the instance's settings into the one shared Job object       *)
(* (`x = x or ...`), environments are merged into it.                          *)
EXTENDS Naturals, Sequences, FiniteSets, TLC
CONSTANTS Drv, Exe, NProc, Env,   \* [Drv -> ...] settings of each instance
          MaxOps, Deviations
VARIABLES made,    \* set of created instances
          sticky,  \* settings remembered by the shared descriptor (only under the deviation)
          nops, last
vars == <<made, sticky, nops, last>>
sv == <<made, sticky, nops>>
NoneS == [exe |-> "none", np |-> 0, env |-> {}]

Init == made = {} /\ sticky = NoneS /\ nops = 0 /\ last = [act |-> "init"]

Create(d) == /\ d \notin made /\ nops < MaxOps
             /\ made' = made \cup {d} /\ nops' = nops + 1 /\ UNCHANGED sticky
             /\ last' = [act |-> "create", d |-> d]

Bound(d) == IF "SharedDescriptor" \in Deviations
              THEN [exe |-> IF sticky.exe # "none" THEN sticky.exe ELSE Exe[d],
                    np  |-> IF sticky.np # 0 THEN sticky.np ELSE NProc[d],
                    env |-> Env[d] \cup sticky.env]
              ELSE [exe |-> Exe[d], np |-> NProc[d], env |-> Env[d]]

(* d.job.prepare(args): the JobInput's command line and environment *)
Use(d) == /\ d \in made /\ nops < MaxOps
          /\ nops' = nops + 1 /\ UNCHANGED made
          /\ sticky' = IF "SharedDescriptor" \in Deviations THEN Bound(d) ELSE sticky
          /\ last' = [act |-> "use", d |-> d, exe |-> Bound(d).exe, np |-> Bound(d).np, env |-> Bound(d).env]

Next == \E d \in Drv : Create(d) \/ Use(d)
Spec == Init /\ [][Next]_vars
Obs == [made |-> made]
NoCrossTalk == [][last'.act = "use" =>
                    (last'.exe = Exe[last'.d] /\ last'.np = NProc[last'.d] /\ last'.env = Env[last'.d])]_vars
=============================================================================
