---------------------------- MODULE ReadersTrace ----------------------------
(* Trace validation for C10 (batched, DESIGN 2.2).  One trace = one text:        *)
(*   event 1  "good": the lexical lines of the UNDAMAGED text and what the real   *)
(*            reader returned for it.  The line-level machine of Readers.tla is   *)
(*            run on those lines (one TLC step per line) and must return the same *)
(*            molecules (counts, labels / symbols, coordinates in micro-Angstrom, *)
(*            charges in 1e-4 e, bond endpoints, names): this binds the model to the     *)
(*            code on well-formed input and fixes `ref`, the molecules of the     *)
(*            undamaged text.                                                     *)
(*   events 2.. "dam": a damage (sequence of line operations, replaced lines in   *)
(*            their lexical reading) and the outcome of the real loads_all_* call *)
(*            on the damaged text: "exc", "timeout", or "ret" with the counts and *)
(*            content digest of every returned molecule.  The event is a step iff *)
(*            the contract of Readers.tla holds: an exception, or complete        *)
(*            molecules (counts = what the damaged text's own headers declare)    *)
(*            with the content of the undamaged molecule of the same index.       *)
(*            A timeout is never such a step (the readers terminate on every      *)
(*            input).  An event that breaks the contract is reported as           *)
(*            VERDICT <tid>#<event> STUCK and the trace goes on, so every damaged *)
(*            text is judged; a trace that cannot get past its good event is      *)
(*            STUCK at 1 (model and code disagree on well-formed input).          *)
EXTENDS Readers, Json, IOUtils, TLCExt
VARIABLES ti, l, phase
tvars == <<vars, ti, l, phase>>
Traces == ndJsonDeserialize(IOEnv.TRACE_FILE)
NT == Len(Traces)
Tr == Traces[ti].ev
Ev == Tr[l]
NoDmg == [op |-> "none", i |-> 0]
(* `lines` and `orig` hold the number of the trace whose good event carries the text (0: none) *)
TraceSrc(h) == IF h = 0 THEN <<>> ELSE Traces[h].ev[1].lines

(* model molecule m against the molecule o observed from the real reader on the undamaged text *)
RowAgrees(f, chg, r, o) ==
  /\ r.x = o.x /\ r.y = o.y /\ r.z = o.z
  /\ IF f = "mol2" THEN r.lab = o.lab /\ o.q = (IF chg /\ r.hq /\ UsesQ THEN r.q ELSE 0) ELSE r.sym = o.el
Agrees(f, m, o) ==
  /\ m.na = o.na /\ m.nc = o.nc /\ m.nb = o.nb /\ Len(o.atoms) = m.na /\ Len(o.bonds) = m.nb
  /\ (f = "mol2" /\ m.name # "?") => m.name = o.name
  /\ \A j \in 1..m.na : RowAgrees(f, m.chg, m.atoms[j], o.atoms[j])
  /\ \A j \in 1..m.nb : EndsOf(m.bonds[j]) = <<o.bonds[j].a1, o.bonds[j].a2>>

TGoodStart ==
  /\ phase = "idle" /\ Ev.ev = "good"
  /\ fmt' = Ev.fmt /\ cls' = Ev.cls /\ meta' = Traces[ti].tid /\ orig' = ti /\ lines' = ti /\ dmg' = NoDmg /\ ref' = <<>>
  /\ pos' = 1 /\ pb' = <<>> /\ pc' = "main" /\ cnt' = 0 /\ tmp' = NoHdr /\ hdr' = NoHdr /\ atoms' = <<>> /\ gotA' = FALSE
  /\ bonds' = <<>> /\ gotB' = FALSE /\ ua' = 0 /\ skip' = FALSE /\ out' = <<>> /\ steps' = 0 /\ last' = [act |-> "start"]
  /\ phase' = "reading" /\ UNCHANGED <<ti, l>>
TRead == phase = "reading" /\ ReaderNext /\ UNCHANGED <<ti, l, phase>>
TGoodEnd ==
  /\ phase = "reading" /\ pc = "done" /\ Ev.out = "ret"
  /\ Len(out) = Len(Ev.mols) /\ \A i \in 1..Len(out) : Agrees(fmt, out[i], Ev.mols[i])
  /\ RetOK(out, out, Declared(fmt, TheLines)) /\ Terminates
  /\ ref' = Ev.mols /\ phase' = "idle" /\ l' = l + 1
  /\ UNCHANGED <<fmt, cls, meta, orig, dmg, lines, rvars, last, ti>>

(* the contract, evaluated on what the real reader did with the damaged text *)
Holds(e, dl) == \/ e.out = "exc"
                \/ e.out = "ret" /\ RetOK(e.mols, ref, Declared(fmt, dl))
(* An outcome that breaks the contract gets its own verdict line "<tid>#<event>" and the batch goes on with the *)
(* next event of the same text: every damaged text is judged, nothing hides behind the first violation.       *)
TDam ==
  /\ phase = "idle" /\ Ev.ev = "dam" /\ Len(ref) > 0
  /\ IF Holds(Ev, ApplyAll(TraceSrc(orig), Ev.d)) THEN TRUE
     ELSE PrintT(<<"VERDICT", Traces[ti].tid \o "#" \o ToString(l), "STUCK", l>>)
  /\ l' = l + 1 /\ UNCHANGED <<vars, ti, phase>>

Step == /\ ti <= NT /\ l <= Len(Tr)
        /\ (TGoodStart \/ TRead \/ TGoodEnd \/ TDam)

ResetAll == /\ fmt' = "none" /\ cls' = "none" /\ meta' = "" /\ orig' = 0 /\ lines' = 0 /\ dmg' = NoDmg /\ ref' = <<>>
            /\ pos' = 1 /\ pb' = <<>> /\ pc' = "idle" /\ cnt' = 0 /\ tmp' = NoHdr /\ hdr' = NoHdr /\ atoms' = <<>>
            /\ gotA' = FALSE /\ bonds' = <<>> /\ gotB' = FALSE /\ ua' = 0 /\ skip' = FALSE /\ out' = <<>> /\ steps' = 0
            /\ last' = [act |-> "init"] /\ phase' = "idle"
NextTrace == ti' = ti + 1 /\ l' = 1 /\ ResetAll
Finish == /\ ti <= NT /\ l = Len(Tr) + 1
          /\ PrintT(<<"VERDICT", Traces[ti].tid, "ACCEPT">>)
          /\ NextTrace
Stuck  == /\ ti <= NT /\ l <= Len(Tr) /\ Ev.ev = "good" /\ ~ENABLED Step      \* only the good event can block
          /\ PrintT(<<"VERDICT", Traces[ti].tid, "STUCK", l>>)
          /\ NextTrace
TraceInit == /\ fmt = "none" /\ cls = "none" /\ meta = "" /\ orig = 0 /\ lines = 0 /\ dmg = NoDmg /\ ref = <<>>
             /\ pos = 1 /\ pb = <<>> /\ pc = "idle" /\ cnt = 0 /\ tmp = NoHdr /\ hdr = NoHdr /\ atoms = <<>>
             /\ gotA = FALSE /\ bonds = <<>> /\ gotB = FALSE /\ ua = 0 /\ skip = FALSE /\ out = <<>> /\ steps = 0
             /\ last = [act |-> "init"] /\ phase = "idle" /\ ti = 1 /\ l = 1
TraceNext == Step \/ Finish \/ Stuck
TraceSpec == TraceInit /\ [][TraceNext]_tvars
DevNone == {}
=============================================================================
