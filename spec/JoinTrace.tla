------------------------------ MODULE JoinTrace ------------------------------
(* Trace validation for C12: every event recorded from real Structure.join /  *)
(* Molecule.join calls (and from molli.scripts.combine._ml_assemble) must be a *)
(* step of Join under the CONTRACT of Part 1.  Events (one JSON object each):  *)
(*   make     o, s            a structure was built; s = its observed value    *)
(*   perturb  r               numpy / random global state re-seeded with r     *)
(*   join     o, out, fresh, g (arguments), p (observed product),              *)
(*            gA, gB (geometry of the extended inputs), gP (of the product)    *)
(*   check    o, s            an existing object observed again                *)
(*   asm-begin core, aps, subs, saps     _ml_assemble called                   *)
(*   asm-end  out, o          it returned object o / raised                    *)
(* Distances and coordinates are integers in micro-Angstrom, q and m in 1/1000.*)
EXTENDS Join, Json, IOUtils, TLCExt
VARIABLES ti, l
tvars == <<vars, ti, l>>
Traces == ndJsonDeserialize(IOEnv.TRACE_FILE)
NT == Len(Traces)
Tr == Traces[ti].ev
Ev == Tr[l]
ToSet(s) == {s[i] : i \in 1..Len(s)}
StrOf(s) == [atoms |-> s.atoms, bonds |-> ToSet(s.bonds), q |-> s.q, m |-> s.m, X |-> s.X]

TMake    == /\ Ev.ev = "make" /\ Make(Ev.o, StrOf(Ev.s))
TPerturb == /\ Ev.ev = "perturb" /\ Perturb(Ev.r)
(* the requested length is the one the extended input was built with           *)
ArgsConsistent(A, g, gA) == g.L > 0 => (GeoShaped(gA, N(A)) /\ Abs(gA.D[g.apA][Nbr(A, g.apA)] - g.L) <= 1)
Explains(g, P) ==
  LET A == heap[g.a]  B == heap[g.b] IN
  /\ JoinPre(A, B, g.apA, g.apB)
  /\ Ev.fresh                                                  \* a new molecule, sharing no atom object with A or B
  /\ ArgsConsistent(A, g, Ev.gA)
  /\ Contract(A, B, g, P, Ev.gA, Ev.gB, Ev.gP)
  /\ \A o2 \in DOMAIN prov : prov[o2] = g => SameResult(heap[o2], P)     \* same call, same result
TJoin    == /\ Ev.ev = "join" /\ Ev.out = "ok"
            /\ Ev.g.a \in DOMAIN heap /\ Ev.g.b \in DOMAIN heap
            /\ Explains(Ev.g, StrOf(Ev.p)) = TRUE    \* "= TRUE": a plain value for ENABLED, which would otherwise
                                                     \* unfold every quantifier into its continuation stack
            /\ Record(Ev.o, Ev.g, StrOf(Ev.p)) /\ UNCHANGED asm
(* join() may refuse atoms that are not attachment points (more or fewer than  *)
(* one bond); it must not refuse a valid call                                  *)
TRefuse  == /\ Ev.ev = "join" /\ Ev.out = "error"
            /\ Ev.g.a \in DOMAIN heap /\ Ev.g.b \in DOMAIN heap
            /\ ~JoinPre(heap[Ev.g.a], heap[Ev.g.b], Ev.g.apA, Ev.g.apB)
            /\ UNCHANGED vars
TCheck   == /\ Ev.ev = "check" /\ Ev.o \in DOMAIN heap /\ heap[Ev.o] = StrOf(Ev.s)      \* inputs untouched
            /\ UNCHANGED vars
SubsOf(a) == [i \in 1..Len(a.subs) |-> heap[a.subs[i]]]
TAsmBegin == /\ Ev.ev = "asm-begin" /\ ~asm.on
             /\ Ev.core \in DOMAIN heap /\ ToSet(Ev.subs) \subseteq DOMAIN heap
             /\ AsmPre(heap[Ev.core], Ev.aps, [i \in 1..Len(Ev.subs) |-> heap[Ev.subs[i]]], Ev.saps) = TRUE
             /\ asm' = [on |-> TRUE, core |-> Ev.core, aps |-> Ev.aps, subs |-> Ev.subs, saps |-> Ev.saps]
             /\ UNCHANGED <<heap, prov, rng, last>>
(* the assembled molecule is the intended one: substituent i sits on the atom  *)
(* that carried attachment point aps[i]                                        *)
TAsmEnd  == /\ Ev.ev = "asm-end" /\ asm.on /\ Ev.out = "ok" /\ Ev.o \in DOMAIN heap
            /\ SameConstitution(heap[Ev.o], Intended(heap[asm.core], asm.aps, SubsOf(asm), asm.saps))
            /\ asm' = Idle /\ UNCHANGED <<heap, prov, rng, last>>

Step == /\ ti <= NT /\ l <= Len(Tr)
        /\ (TMake \/ TPerturb \/ TJoin \/ TRefuse \/ TCheck \/ TAsmBegin \/ TAsmEnd)
        /\ l' = l + 1 /\ ti' = ti

(* diagnostics for a rejected event: which clauses fail                        *)
Diag ==
  IF Ev.ev = "join" /\ Ev.out = "ok" /\ Ev.g.a \in DOMAIN heap /\ Ev.g.b \in DOMAIN heap
       /\ JoinPre(heap[Ev.g.a], heap[Ev.g.b], Ev.g.apA, Ev.g.apB)
    THEN LET g == Ev.g  A == heap[g.a]  B == heap[g.b]  P == StrOf(Ev.p) IN
         (IF Ev.fresh THEN {} ELSE {"NewMolecule"})
         \cup (IF ArgsConsistent(A, g, Ev.gA) THEN FailedClauses(A, B, g, P, Ev.gA, Ev.gB, Ev.gP) ELSE {"Harness"})
         \cup (IF \A o2 \in DOMAIN prov : prov[o2] = g => SameResult(heap[o2], P) THEN {} ELSE {"Functional"})
         \cup (IF Ev.o \in DOMAIN heap THEN {"Harness"} ELSE {})
  ELSE IF Ev.ev = "join" /\ ~(Ev.g.a \in DOMAIN heap /\ Ev.g.b \in DOMAIN heap) THEN {"Harness"}
  ELSE IF Ev.ev = "join" /\ Ev.out = "ok" THEN {"JoinedAtNonAttachmentPoint"}
  ELSE IF Ev.ev = "join" THEN {"JoinRefusedOrFailed"}
  ELSE IF Ev.ev = "check" THEN {"InputsUntouched"}
  ELSE IF Ev.ev = "asm-end" THEN {"IndexShiftCorrect"}
  ELSE {"Harness"}

Reset == /\ heap' = <<>> /\ prov' = <<>> /\ rng' = 0 /\ asm' = Idle /\ last' = [act |-> "init"]
NextTrace == ti' = ti + 1 /\ l' = 1 /\ Reset
Finish == /\ ti <= NT /\ l = Len(Tr) + 1
          /\ PrintT(<<"VERDICT", Traces[ti].tid, "ACCEPT">>)
          /\ NextTrace
Stuck  == /\ ti <= NT /\ l <= Len(Tr) /\ ~ENABLED Step
          /\ PrintT(<<"VERDICT", Traces[ti].tid, "STUCK", l>>)
          /\ \A c \in Diag : PrintT(<<"DIAG", ti, l, c>>)           \* short lines: TLC wraps long values
          /\ NextTrace
TraceInit == Init /\ ti = 1 /\ l = 1
TraceNext == Step \/ Finish \/ Stuck
TraceSpec == TraceInit /\ [][TraceNext]_tvars
Empty == {}
NoFrags == <<>>
=============================================================================
