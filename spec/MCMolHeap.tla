------------------------------ MODULE MCMolHeap ------------------------------
EXTENDS MolHeap, Json
AllCells == {"molattr", "molnest", "atomattr", "atomattr_e", "atomnest", "atomlabel", "natoms", "bondattr", "bondattr_e", "bondtype", "coord", "chg", "weight"}
CellSeq == <<"molattr", "molnest", "atomattr", "atomattr_e", "atomnest", "atomlabel", "natoms", "bondattr", "bondattr_e", "bondtype", "coord", "chg", "weight">>
CIdx == [c \in AllCells |-> CHOOSE i \in 1..Len(CellSeq) : CellSeq[i] = c]
KAll == {"Promolecule", "Connectivity", "CartesianGeometry", "Structure", "Molecule", "ConformerEnsemble", "Conformer"}
PM == {"molattr", "molnest", "atomattr", "atomattr_e", "atomnest", "atomlabel", "natoms"}   \* atomattr_e: attribute dict of an atom that is EMPTY at copy time
BD == {"bondattr", "bondattr_e", "bondtype"}
CellsM == [k \in KAll |-> CASE k = "Promolecule" -> PM
                            [] k = "Connectivity" -> PM \cup BD
                            [] k = "CartesianGeometry" -> PM \cup {"coord"}
                            [] k = "Structure" -> PM \cup BD \cup {"coord"}
                            [] k = "Molecule" -> PM \cup BD \cup {"coord", "chg"}
                            [] k = "ConformerEnsemble" -> (PM \ {"natoms"}) \cup BD \cup {"coord", "chg", "weight"}
                            [] k = "Conformer" -> (PM \ {"natoms"}) \cup BD \cup {"coord", "chg"}]
Same(r) == {[r |-> r, from |-> k, to |-> k] : k \in KAll \ {"Conformer"}}
RoutesM == Same("construct") \cup Same("pickle") \cup Same("deepcopy")
           \cup {[r |-> "pickle", from |-> "Conformer", to |-> "Conformer"], [r |-> "deepcopy", from |-> "Conformer", to |-> "Conformer"]}
           \cup {[r |-> "upcast", from |-> "Structure", to |-> "Molecule"], [r |-> "upcast", from |-> "Conformer", to |-> "Molecule"],
                 [r |-> "upcast", from |-> "Molecule", to |-> "Structure"]}
           \cup {[r |-> "concat", from |-> "Structure", to |-> "Structure"], [r |-> "concat", from |-> "Molecule", to |-> "Molecule"]}
           \cup {[r |-> "or", from |-> "Structure", to |-> "Structure"], [r |-> "or", from |-> "Molecule", to |-> "Structure"]}   \* a | b
           \cup {[r |-> x, from |-> "Structure", to |-> "Structure"] : x \in {"or_e1", "or_e2", "concat_e1", "concat_e2"}}   \* one operand without atoms
           \cup {[r |-> x, from |-> "Molecule", to |-> "Structure"] : x \in {"or_e1", "or_e2"}}
           \cup {[r |-> x, from |-> "Molecule", to |-> "Molecule"] : x \in {"concat_e1", "concat_e2"}}
           \cup {[r |-> "join", from |-> "Structure", to |-> "Structure"], [r |-> "join", from |-> "Molecule", to |-> "Molecule"]}
           \cup {[r |-> "ensemble_from", from |-> "Molecule", to |-> "ConformerEnsemble"]}
           \* an ensemble without atoms and conformers takes everything from what it receives first
           \cup {[r |-> "extend_empty", from |-> "ConformerEnsemble", to |-> "ConformerEnsemble"],
                 [r |-> "extend_list_empty", from |-> "Molecule", to |-> "ConformerEnsemble"],
                 [r |-> "append_empty", from |-> "Molecule", to |-> "ConformerEnsemble"]}
           \* constructors called with the source's own arrays as explicit arguments (coords=, atomic_charges=, weights=)
           \cup {[r |-> "construct_arrays", from |-> k, to |-> k] : k \in {"CartesianGeometry", "Structure", "Molecule", "ConformerEnsemble"}}
           \cup {[r |-> "upcast_arrays", from |-> "Conformer", to |-> "Molecule"], [r |-> "upcast_arrays", from |-> "Structure", to |-> "Molecule"]}
DevNone == {}
DevShared == {"SharedAttribOnEvolve"}
DevDrop == {"DropCharges"}
View == sv
Emit == PrintT(ToJson([from |-> sv, act |-> last', to |-> sv', obs |-> Obs']))
=============================================================================
