---------------------------- MODULE GraphQTrace ----------------------------
(* Trace validation for C15: what the real Connectivity / ConformerEnsemble   *)
(* returned for a graph (every yield of yield_bfsd / yield_bfs in order, ring  *)
(* flags, neighbour / bond / valence listings, match results) must be steps of *)
(* Part 2 of GraphQ.  One trace = one graph and a batch of queries on it.      *)
(* Events (atoms and bonds are 1-based positions in the atom / bond list):     *)
(*   graph  n, el, bonds = [[a, b, o2], ..]        o2 = 2 * Bond.order          *)
(*   bfs    api, s, d (0 = no direction), y = [[atom, dist], ..] in yield order *)
(*          (api "bfs" = yield_bfs, which yields no distance: dist logged as 0) *)
(*   ring   b, res                                                             *)
(*   local  a, nbrs, bonds, v2                                                 *)
(*   match  pn, pel, pb = [[a, b], ..], maps, mode, must                       *)
(* histories on the SAME objects (queries, in-place edit, queries again):       *)
(*   edit    op, a, b, e, i, o2 + n, el, bonds = the graph the object shows     *)
(*           afterwards (op: relabel label rebond connect delbond addatom       *)
(*           delatom); the spec applies the edit to g and requires that graph   *)
(*   pattern pn, pel, pb        the pattern object of the history               *)
(*   pedit   op, a, e, i, o2    in-place edit of the pattern object             *)
(*   matchp  pel, maps, mode    match of the (edited) pattern object            *)
(*   open    h                  a further handle on the same graph is taken and *)
(*                              held (Conformer view of the ensemble)           *)
(* every query event carries h = the handle it went through, every edit via =   *)
(* the handle ("list" = the live bond list, "" = attribute edited in place)     *)
EXTENDS GraphQ, Json, IOUtils, TLCExt
VARIABLES ti, l, j
tvars == <<vars, ti, l, j>>
Traces == ndJsonDeserialize(IOEnv.TRACE_FILE)
NT == Len(Traces)
Tr == Traces[ti].ev
Ev == Tr[l]

GraphOf(e) == [n |-> e.n, el |-> e.el,
               bonds |-> [i \in 1..Len(e.bonds) |-> [a |-> e.bonds[i][1], b |-> e.bonds[i][2], o2 |-> e.bonds[i][3]]]]
PatOf(e)   == [n |-> e.pn, el |-> e.pel,
               bonds |-> [i \in 1..Len(e.pb) |-> [a |-> e.pb[i][1], b |-> e.pb[i][2], o2 |-> 2]]]

TGraph == /\ Ev.ev = "graph" /\ j = 0 /\ AbsLoad(GraphOf(Ev)) /\ j' = 0 /\ l' = l + 1
TBegin == /\ Ev.ev = "bfs" /\ j = 0 /\ AbsBegin(Ev.s, Ev.d, Ev.h) /\ j' = 1 /\ l' = l
(* yield_bfs gives no distance: the distance the property requires is supplied, so that        *)
(* exactly-once / only-target / level order / none-missed are still decided for it              *)
TYield == /\ Ev.ev = "bfs" /\ j >= 1 /\ j <= Len(Ev.y)
          /\ LET a == Ev.y[j][1]
                 k == IF Ev.api = "bfs" /\ a \in DOMAIN tgt THEN tgt[a] ELSE Ev.y[j][2]
             IN AbsYield(a, k)
          /\ j' = j + 1 /\ l' = l
TEnd   == /\ Ev.ev = "bfs" /\ j = Len(Ev.y) + 1 /\ AbsEnd /\ j' = 0 /\ l' = l + 1
TRing  == /\ Ev.ev = "ring" /\ j = 0 /\ AbsRing(Ev.b, Ev.res, Ev.h) /\ j' = 0 /\ l' = l + 1
TLocal == /\ Ev.ev = "local" /\ j = 0 /\ AbsLocal(Ev.a, Ev.nbrs, Ev.bonds, Ev.v2, Ev.h) /\ j' = 0 /\ l' = l + 1
TEdit    == /\ Ev.ev = "edit" /\ j = 0 /\ AbsEdit(Ev, GraphOf(Ev)) /\ j' = 0 /\ l' = l + 1
TPattern == /\ Ev.ev = "pattern" /\ j = 0 /\ AbsPattern(PatOf(Ev)) /\ j' = 0 /\ l' = l + 1
TPatEdit == /\ Ev.ev = "pedit" /\ j = 0 /\ AbsPatEdit(Ev) /\ j' = 0 /\ l' = l + 1
TMatchP  == /\ Ev.ev = "matchp" /\ j = 0 /\ AbsMatchP(Ev.pel, Ev.maps, Ev.mode, Ev.h) /\ j' = 0 /\ l' = l + 1
TOpen    == /\ Ev.ev = "open" /\ j = 0 /\ AbsOpen(Ev.h) /\ j' = 0 /\ l' = l + 1
TMatch == /\ Ev.ev = "match" /\ j = 0 /\ AbsMatch(PatOf(Ev), Ev.maps, Ev.mode, Ev.must, Ev.h) /\ j' = 0 /\ l' = l + 1

Step == /\ ti <= NT /\ l <= Len(Tr)
        /\ (TGraph \/ TBegin \/ TYield \/ TEnd \/ TRing \/ TLocal \/ TMatch \/ TEdit \/ TPattern \/ TPatEdit \/ TMatchP \/ TOpen)
        /\ ti' = ti

(* which clause the unexplained event breaks (diagnostic only) *)
Why == IF Ev.ev # "bfs" THEN {Ev.ev}
       ELSE IF j = 0 THEN {"begin"}
       ELSE IF j > Len(Ev.y) THEN {"NoneMissed"}
       ELSE LET a == Ev.y[j][1] IN
            CheckYield(tgt, seen, lastk, a, IF Ev.api = "bfs" /\ a \in DOMAIN tgt THEN tgt[a] ELSE Ev.y[j][2])
Reset == /\ g' = NoGraph /\ adj' = AdjOf(NoGraph) /\ pat' = NoGraph /\ open' = {"obj"} /\ memo' = NoMemo /\ edits' = 0 /\ BackToIdle /\ last' = [act |-> "init"]
NextTrace == ti' = ti + 1 /\ l' = 1 /\ j' = 0 /\ Reset
Finish == /\ ti <= NT /\ l = Len(Tr) + 1
          /\ PrintT(<<"VERDICT", Traces[ti].tid, "ACCEPT">>)
          /\ NextTrace
Stuck  == /\ ti <= NT /\ l <= Len(Tr) /\ ~ENABLED Step
          /\ PrintT(<<"WHY", Traces[ti].tid, j, Why>>)                  \* diagnostic; may be wrapped by the printer
          /\ PrintT(<<"VERDICT", Traces[ti].tid, "STUCK", l>>)
          /\ NextTrace
TraceInit == InitWith(NoGraph) /\ ti = 1 /\ l = 1 /\ j = 0
TraceNext == Step \/ Finish \/ Stuck
TraceSpec == TraceInit /\ [][TraceNext]_tvars
NoPat   == {}
NoKinds == {}
NoHandles == {}
NoElems == {}
DevNone == {}
=============================================================================
