--------------------------- MODULE UKVCrashTrace ---------------------------
(* Trace validation for C03: every event recorded from the real code (real    *)
(* append sessions, synthetic crash images, real recovery histories) must be  *)
(* a step of UKVCrash.  Many traces are validated in one TLC run (DESIGN 2.2).*)
EXTENDS UKVCrash, Json, IOUtils, TLCExt
VARIABLES ti, l
tvars == <<vars, ti, l>>
Traces == ndJsonDeserialize(IOEnv.TRACE_FILE)
NT == Len(Traces)
Tr == Traces[ti].ev
Ev == Tr[l]
ToSet(s) == {s[i] : i \in 1..Len(s)}
AllRecs == recs \o sess
VdOf(s, k) == LET i == CHOOSE i \in 1..Len(s) : s[i].k = k IN s[i].vd

(* keys listed and values read by the handle just opened *)
ObservedView(e, v, rs) ==
  /\ ToSet(e.keys) = v
  /\ \A k \in v : k \in DOMAIN e.gets /\ k \in KeysOf(rs) /\ e.gets[k] = VdOf(rs, k)

TOpen  == /\ Ev.ev = "open" /\ Ev.out = "ok"
          /\ Ev.dsize = Bytes(recs) + junk                     \* size of the image before the open
          /\ Open(Ev.mode)
          /\ ObservedView(Ev, view', recs)
TPut   == /\ Ev.ev = "put"
          /\ Put([k |-> Ev.k, kl |-> Ev.kl, vl |-> Ev.vl, vd |-> Ev.vd])
          /\ last'.out = Ev.out
TGet   == /\ Ev.ev = "get" /\ mode \in {"r", "a"} /\ UNCHANGED vars
          /\ IF Ev.k \in view THEN Ev.out = "ok" /\ Ev.k \in KeysOf(AllRecs) /\ Ev.vd = VdOf(AllRecs, Ev.k)
                             ELSE Ev.out # "ok"
TClose == /\ Ev.ev = "close" /\ Close
          /\ Ev.dsize = Bytes(recs') + junk'                   \* no gap, no padding, torn tail gone after an append
TCrash == /\ Ev.ev = "crash" /\ Crash(Ev.p)

Step == /\ ti <= NT /\ l <= Len(Tr)
        /\ (TOpen \/ TPut \/ TGet \/ TClose \/ TCrash)
        /\ l' = l + 1 /\ ti' = ti

Reset == /\ recs' = <<>> /\ junk' = 0 /\ torn' = NoRec /\ sess' = <<>> /\ mode' = "closed" /\ view' = {}
         /\ committed' = <<>> /\ last' = [act |-> "init"]
NextTrace == ti' = ti + 1 /\ l' = 1 /\ Reset
Finish == /\ ti <= NT /\ l = Len(Tr) + 1
          /\ PrintT(<<"VERDICT", Traces[ti].tid, "ACCEPT">>)
          /\ NextTrace
Stuck  == /\ ti <= NT /\ l <= Len(Tr) /\ ~ENABLED Step
          /\ PrintT(<<"VERDICT", Traces[ti].tid, "STUCK", l>>)
          /\ NextTrace
TraceInit == Init /\ ti = 1 /\ l = 1
TraceNext == Step \/ Finish \/ Stuck
TraceSpec == TraceInit /\ [][TraceNext]_tvars
Pool0 == {}
DevNone == {}
=============================================================================
