------------------------------ MODULE DirMap ------------------------------
(* Growth beyond the listed properties (X02): Collection over DirCollectionBackend            *)
(* (molli/storage/backends.py:226-270, collection.py) - one file "<key><ext>" per record in a  *)
(* directory.  Unlike the UKV format this backend is a LAST-WRITE-WINS map: a put of a key     *)
(* that exists replaces the file.  Same session discipline as Backend.tla (sessions of one     *)
(* process do not overlap; puts happen inside writing sessions, or are refused on read-only    *)
(* collections).                                                                               *)
(*                                                                                             *)
(* One action per public call.  `KeyOK` is the set of keys the file system can store under the *)
(* extension in use (no path separator, no NUL, name <= 255 bytes).  The REQUIRED behaviour    *)
(* refuses any other key with no effect; the pinned code does not validate keys and behaves as *)
(* deviation "NoKeyValidation" describes (step by step, as flush() is written): the key is     *)
(* listed and queued first, the write fails later, the record is dropped from the queue.       *)
EXTENDS Integers, Sequences, FiniteSets, TLC
CONSTANTS Key, Val, KeyLen, ValLen, KeyOK, KeyErr,   \* KeyErr : [Key -> exception name the OS raises for a bad key]
          Coll, RO, Buf, None, MaxPuts, Deviations
VARIABLES dir,   \* [exists : BOOLEAN, f : [Key -> Val \cup {None}]]   the directory
          cs,    \* [Coll -> [made, st, keys, queue, used]]
          nput,  \* number of successful puts so far (bound only)
          last
vars == <<dir, cs, nput, last>>
sv   == <<dir, cs>>

Files        == {k \in Key : dir.f[k] # None}
QKeys(q)     == {q[i].k : i \in 1..Len(q)}
AllIdle      == \A c \in Coll : cs[c].st = "idle"
NoVal        == "NoKeyValidation" \in Deviations

Init == /\ dir = [exists |-> FALSE, f |-> [k \in Key |-> None]]
        /\ cs = [c \in Coll |-> [made |-> FALSE, st |-> "idle", keys |-> {}, queue |-> <<>>, used |-> 0]]
        /\ nput = 0
        /\ last = [act |-> "init", out |-> "ok"]

Note(a, o) == last' = a @@ [out |-> o]
Fail(a, o) == UNCHANGED <<sv, nput>> /\ Note(a, o)

(* Collection(path, DirCollectionBackend, readonly=RO[c], bufsize=Buf[c], ext=...) : creates the directory *)
Make(c) ==
  LET a == [act |-> "make", c |-> c] IN
  /\ ~cs[c].made /\ AllIdle
  /\ IF RO[c] /\ ~dir.exists THEN Fail(a, "FileNotFoundError")
     ELSE /\ dir' = [dir EXCEPT !.exists = TRUE]
          /\ cs' = [cs EXCEPT ![c].made = TRUE]
          /\ UNCHANGED nput /\ Note(a, "ok")

(* reading()/writing(): update_keys() lists the directory *)
Begin(c, m) ==
  LET a == [act |-> IF m = "a" THEN "beginw" ELSE "beginr", c |-> c] IN
  /\ cs[c].made /\ AllIdle
  /\ IF m = "a" /\ RO[c] THEN Fail(a, "UnsupportedOperation")
     ELSE /\ cs' = [cs EXCEPT ![c].keys = Files, ![c].st = IF m = "a" THEN "writing" ELSE "reading"]
          /\ UNCHANGED <<dir, nput>> /\ Note(a, "ok")

(* flush() as written: pop the head, write it, repeat; a failing write propagates and leaves the rest queued. *)
(* Result: [f : the files afterwards, rest : what stays queued, err : None or the exception]                   *)
RECURSIVE Flush(_, _)
Flush(q, f) ==
  IF q = <<>> THEN [f |-> f, rest |-> <<>>, err |-> None]
  ELSE LET h == Head(q) IN
       IF h.k \in KeyOK THEN Flush(Tail(q), [f EXCEPT ![h.k] = h.v])
       ELSE [f |-> f, rest |-> Tail(q), err |-> KeyErr[h.k]]

(* collection[k] = v *)
CPut(c, k, v) ==
  LET a == [act |-> "cput", c |-> c, k |-> k, v |-> v] IN
  /\ cs[c].made
  /\ \/ cs[c].st = "writing"
     \/ cs[c].st = "reading" /\ RO[c]
  /\ IF RO[c] THEN Fail(a, "OSError")
     ELSE IF k \notin KeyOK /\ ~NoVal THEN Fail(a, "ValueError")
     ELSE /\ nput < MaxPuts /\ nput' = nput + 1
          /\ LET q == Append(cs[c].queue, [k |-> k, v |-> v])
                 u == cs[c].used + KeyLen[k] + ValLen[v]
             IN IF u > Buf[c]
                  THEN LET r == Flush(q, dir.f) IN
                       /\ dir' = [dir EXCEPT !.f = r.f]
                       /\ cs' = [cs EXCEPT ![c].queue = r.rest, ![c].keys = @ \cup {k},
                                           ![c].used = IF r.err = None THEN 0 ELSE u]
                       /\ Note(a, IF r.err = None THEN "ok" ELSE r.err)
                  ELSE /\ cs' = [cs EXCEPT ![c].queue = q, ![c].keys = @ \cup {k}, ![c].used = u]
                       /\ UNCHANGED dir /\ Note(a, "ok")

(* the value a get returns: the FIRST queued item of that key, else the file.  (A key may be queued twice - the   *)
(* backend is last-write-wins on disk but get() scans the queue from its head: deviation-free model returns the    *)
(* LAST queued value; the code returns the first one - deviation "FirstQueuedWins".)                                *)
QIdx(q, k) == {i \in 1..Len(q) : q[i].k = k}
QPick(q, k) == IF "FirstQueuedWins" \in Deviations
                 THEN q[CHOOSE i \in QIdx(q, k) : \A j \in QIdx(q, k) : i <= j].v
                 ELSE q[CHOOSE i \in QIdx(q, k) : \A j \in QIdx(q, k) : i >= j].v
ReadableIn(q, f, k) == k \in QKeys(q) \/ f[k] # None
LookupIn(q, f, k)   == IF k \in QKeys(q) THEN QPick(q, k) ELSE f[k]
Readable(c, k) == ReadableIn(cs[c].queue, dir.f, k)
Lookup(c, k)   == LookupIn(cs[c].queue, dir.f, k)

CGet(c, k) ==
  LET a == [act |-> "cget", c |-> c, k |-> k] IN
  /\ cs[c].made /\ cs[c].st # "idle"
  /\ IF Readable(c, k) THEN UNCHANGED <<sv, nput>> /\ last' = a @@ [out |-> "ok", val |-> Lookup(c, k)]
     ELSE Fail(a, IF k \in KeyOK THEN "FileNotFoundError" ELSE KeyErr[k])

(* leaving the session: a writing session flushes *)
End(c) ==
  LET a == [act |-> "end", c |-> c] IN
  /\ cs[c].st # "idle"
  /\ UNCHANGED nput
  /\ IF cs[c].st = "reading"
       THEN /\ cs' = [cs EXCEPT ![c].st = "idle"] /\ UNCHANGED dir /\ Note(a, "ok")
       ELSE LET r == Flush(cs[c].queue, dir.f) IN
            /\ dir' = [dir EXCEPT !.f = r.f]
            /\ cs' = [cs EXCEPT ![c].st = "idle", ![c].queue = r.rest,
                                ![c].used = IF r.err = None THEN 0 ELSE @]
            /\ Note(a, IF r.err = None THEN "ok" ELSE r.err)

(* backend.truncate(): its own writing session; removes every listed file *)
Truncate(c) ==
  LET a == [act |-> "truncate", c |-> c] IN
  /\ cs[c].made /\ AllIdle
  /\ IF RO[c] THEN Fail(a, "UnsupportedOperation")
     ELSE LET r == Flush(cs[c].queue, [k \in Key |-> None]) IN     \* _truncate, then the exit flush of the session
          /\ dir' = [dir EXCEPT !.f = r.f]
          /\ cs' = [cs EXCEPT ![c].keys = Files, ![c].queue = r.rest, ![c].used = IF r.err = None THEN 0 ELSE @]
          /\ UNCHANGED nput /\ Note(a, IF r.err = None THEN "ok" ELSE r.err)

Next == \E c \in Coll :
          \/ Make(c) \/ Begin(c, "a") \/ Begin(c, "r") \/ End(c) \/ Truncate(c)
          \/ \E k \in Key : CGet(c, k) \/ \E v \in Val : CPut(c, k, v)

Spec == Init /\ [][Next]_vars

---------------------------------------------------------------------------
CObs(c) == [made |-> cs[c].made, st |-> cs[c].st,
            keys |-> IF cs[c].st = "idle" THEN {} ELSE cs[c].keys,
            gets |-> IF cs[c].st = "idle" THEN <<>>
                     ELSE [k \in {x \in cs[c].keys : Readable(c, x)} |-> Lookup(c, k)]]
Obs == [exists |-> dir.exists, files |-> {<<k, dir.f[k]>> : k \in Files}, c |-> [c \in Coll |-> CObs(c)]]

(* ----- properties (what a user of the directory backend relies on) --------- *)
TypeOK            == dir.exists \in BOOLEAN /\ \A k \in Key : dir.f[k] \in Val \cup {None}
OnlyStorableKeys  == Files \subseteq KeyOK
ListedIsReadable  == \A c \in Coll : cs[c].st = "writing" => \A k \in cs[c].keys : Readable(c, k)
SessionSeesAll    == \A c \in Coll : cs[c].st # "idle" => Files \subseteq cs[c].keys
NothingLeftQueued == \A c \in Coll : cs[c].st = "idle" => cs[c].queue = <<>>
FailedOpIsNoOp    == [][last'.out # "ok" => sv' = sv]_vars
(* last write wins: after a successful put the session reads back that value *)
ReadYourWrite     == [][(last'.act = "cput" /\ last'.out = "ok") =>
                          (/\ ReadableIn(cs'[last'.c].queue, dir'.f, last'.k)
                           /\ LookupIn(cs'[last'.c].queue, dir'.f, last'.k) = last'.v)]_vars
(* nothing but a put of k, a flush of k or a truncate changes what is stored under k *)
OthersUntouched   == [][\A k \in Key : (dir'.f[k] # dir.f[k]) =>
                          \/ last'.act = "truncate"
                          \/ \E c \in Coll : k \in QKeys(cs[c].queue) \/ (last'.act = "cput" /\ last'.k = k)]_vars
TruncateEmpties   == [][(last'.act = "truncate" /\ last'.out = "ok") =>
                          \A k \in Key : dir'.f[k] # None => \E c \in Coll : k \in QKeys(cs[c].queue)]_vars
=============================================================================
