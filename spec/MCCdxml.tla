------------------------------ MODULE MCCdxml ------------------------------
(* Model-checking wrapper of Cdxml: a pool of small drawings that exercises every row of the     *)
(* node / bond tables, a nested fragment (nickname), a grouped label, a hapto fragment, a text   *)
(* box that is not a label, and a label with nothing above it.                                    *)
EXTENDS Cdxml
N(el, iso, q, rad, nt, par, inner, chi) == [el |-> el, iso |-> iso, q |-> q, rad |-> rad, nt |-> nt, par |-> par, inner |-> inner, chi |-> chi]
C(chi) == N(-1, 0, 0, "", "", "", FALSE, chi)
B(a, b, ord, disp, own) == [a |-> a, b |-> b, ord |-> ord, disp |-> disp, own |-> own]
ECP == "ExternalConnectionPoint"
(* n1(varied) -b1(varied)- n2 -b2- n3(attachment point);  n1 -b3- n4 = nickname { e1(conn. point) -b4- i1(N+) =b5= i2(O radical) } *)
Frag1(c) == [x |-> 1000, y |-> 1000, grp |-> "", nb |-> 3, multi |-> Empty,
   nodes |-> ("n1" :> N(c[1], c[2], c[3], c[4], "", "", FALSE, 1)) @@ ("n2" :> C(-1)) @@ ("n3" :> N(-1, 0, 0, "", ECP, "", FALSE, 0))
             @@ ("n4" :> N(-1, 0, 0, "", "Nickname", "", TRUE, 0)) @@ ("e1" :> N(-1, 0, 0, "", ECP, "n4", FALSE, 0))
             @@ ("i1" :> N(7, 0, 1, "", "", "n4", FALSE, 0)) @@ ("i2" :> N(8, 0, 0, "Doublet", "", "n4", FALSE, 0)),
   bonds |-> ("b1" :> B("n1", "n2", c[5], c[6], "")) @@ ("b2" :> B("n2", "n3", "", "", "")) @@ ("b3" :> B("n1", "n4", "", "", ""))
             @@ ("b4" :> B("e1", "i1", "", "", "n4")) @@ ("b5" :> B("i1", "i2", "2", "", "n4"))]
Frag2 == [x |-> 5000, y |-> 1000, grp |-> "g1", nb |-> 1, multi |-> Empty,
   nodes |-> ("m1" :> N(8, 0, 0, "", "", "", FALSE, 0)) @@ ("m2" :> C(0)),
   bonds |-> ("c1" :> B("m1", "m2", "2", "", ""))]
(* cu -d2(Dash)- mm = multi-attachment {h1, h2};  h1 =d1= h2;  h2 -d3(wedge)- h3 *)
Frag3 == [x |-> 9000, y |-> 1000, grp |-> "", nb |-> 3, multi |-> ("mm" :> <<"h1", "h2">>),
   nodes |-> ("h1" :> C(0)) @@ ("h2" :> C(1)) @@ ("h3" :> C(0)) @@ ("cu" :> N(29, 0, 1, "", "", "", FALSE, 0)),
   bonds |-> ("d1" :> B("h1", "h2", "2", "", "")) @@ ("d2" :> B("mm", "cu", "", "Dash", "")) @@ ("d3" :> B("h2", "h3", "", "WedgeBegin", ""))]
Atom0 == [x |-> 1000, y |-> 1300, grp |-> "", nb |-> 0, multi |-> Empty,               \* a fragment without a bond: not a candidate
   nodes |-> ("z1" :> C(0)), bonds |-> Empty]
T(tx, ns, face, x, y, grp) == [text |-> tx, ns |-> ns, face |-> face, x |-> x, y |-> y, grp |-> grp]
MkFile(c) == [frags |-> ("f1" :> Frag1(c)) @@ ("f2" :> Frag2) @@ ("f3" :> Frag3) @@ ("f0" :> Atom0),
              labels |-> << T("junk", 1, "0", 1000, 1500, ""), T("A", 1, "1", 1100, 1600, ""), T("B", 1, "1", 4000, 1500, "g1"),
                            T("H", 1, "1", 9000, 1600, ""), T("Z", 1, "1", 5000, 10, ""), T("two", 2, "1", 5000, 1700, "") >>]
Els == {-1, 7}   Isos == {0, 2}   Qs == {-1, 0, 1}   Rads == {"", "Doublet", "Singlet"}
Ords == {"", "2", "3", "1.5"}
Disps == {"", "WedgeBegin", "WedgedHashBegin", "WedgeEnd", "WedgedHashEnd", "Bold", "Hash", "Dash"}
(* quick pool: every value of every attribute, every order token, every display token (not their full product) *)
AtomSlice == {<<-1, 0, 0, "">>, <<7, 2, 1, "Doublet">>, <<7, 0, -1, "Singlet">>, <<-1, 2, -1, "Doublet">>, <<7, 2, 0, "">>, <<-1, 0, 1, "Singlet">>}
FilesQ == [c \in {<<a[1], a[2], a[3], a[4], "2", "WedgeBegin">> : a \in AtomSlice}
                 \cup ({7} \X {2} \X {1} \X {"Doublet"} \X Ords \X {""}) \cup ({7} \X {2} \X {1} \X {"Doublet"} \X {"2"} \X Disps) |-> MkFile(c)]
(* thorough pool: all atom attribute combinations (one bond shape) + all bond order x display combinations on six atom shapes *)
FilesT == [c \in ((Els \X Isos \X Qs \X Rads) \X {"2"} \X {"WedgeBegin"}) \cup (AtomSlice \X Ords \X Disps) |->
             MkFile(<<c[1][1], c[1][2], c[1][3], c[1][4], c[2], c[3]>>)]
DevNone == {}
DevChargeSign == {"ChargeSignFlipped"}
DevIsotope == {"IsotopeIgnored"}
DevRadical == {"RadicalTableSwapped"}
DevAromatic == {"AromaticAsSingle"}
DevNestedBond == {"NestedBondToWrongAtom"}
DevNestedCharge == {"NestedChargeDropped"}
DevAP == {"APNotMarked"}
DevCache == {"StaleCacheHit"}
DevHashEnd == {"HashEndAsWedgeEnd"}
DevHashLigand == {"HashDisplayAsLigand"}
DevMemo == {"MemoisedMolecule"}
DevMemoContent == {"MemoisedMolecule"}
DevMemoCharge == {"MemoisedMolecule"}
=============================================================================
