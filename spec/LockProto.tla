----------------------------- MODULE LockProto -----------------------------
(* The lock discipline of Sessions.tla alone (no file, no queues), typed for Apalache:  *)
(* WriterExclusive and LockFreeWhenIdle are shown INDUCTIVE, i.e. they hold for any     *)
(* number of steps (fixed set of processes), not only up to TLC's bounds.               *)
EXTENDS Naturals, FiniteSets
CONSTANT
  \* @type: Set(Str);
  Proc
VARIABLES
  \* @type: Str;
  writer,
  \* @type: Set(Str);
  readers,
  \* @type: Str -> Str;
  pc,
  \* @type: Str -> Str;
  kind

Phases == {"idle", "waiting", "held", "body", "flushing", "closing", "releasing"}
Init == writer = "none" /\ readers = {} /\ pc = [p \in Proc |-> "idle"] /\ kind = [p \in Proc |-> "r"]

Request(p, kd) == pc[p] = "idle" /\ pc' = [pc EXCEPT ![p] = "waiting"] /\ kind' = [kind EXCEPT ![p] = kd] /\ UNCHANGED <<writer, readers>>
Acquire(p) == /\ pc[p] = "waiting"
              /\ IF kind[p] = "r" THEN writer = "none" /\ readers' = readers \cup {p} /\ writer' = writer
                                  ELSE writer = "none" /\ readers = {} /\ writer' = p /\ readers' = readers
              /\ pc' = [pc EXCEPT ![p] = "held"] /\ UNCHANGED kind
Advance(p) == /\ pc[p] \in {"held", "body", "flushing", "closing"}
              /\ pc' = [pc EXCEPT ![p] = CASE pc[p] = "held" -> "body"
                                            [] pc[p] = "body" -> IF kind[p] = "w" THEN "flushing" ELSE "closing"
                                            [] pc[p] = "flushing" -> "closing"
                                            [] OTHER -> "releasing"]
              /\ UNCHANGED <<writer, readers, kind>>
Release(p) == /\ pc[p] = "releasing"
              /\ IF kind[p] = "w" THEN writer' = "none" /\ readers' = readers ELSE readers' = readers \ {p} /\ writer' = writer
              /\ pc' = [pc EXCEPT ![p] = "idle"] /\ UNCHANGED kind
Next == \E p \in Proc : (\E kd \in {"r", "w"} : Request(p, kd)) \/ Acquire(p) \/ Advance(p) \/ Release(p)

InSession(p) == pc[p] \in {"held", "body", "flushing", "closing", "releasing"}
TypeOK == /\ writer \in Proc \cup {"none"} /\ readers \in SUBSET Proc
          /\ pc \in [Proc -> Phases] /\ kind \in [Proc -> {"r", "w"}]
WriterExclusive == /\ (writer # "none" => readers = {})
                   /\ \A p \in Proc : InSession(p) => IF kind[p] = "w" THEN writer = p /\ readers = {} ELSE p \in readers /\ writer = "none"
LockFreeWhenIdle == \A p \in Proc : ~InSession(p) => writer # p /\ p \notin readers
IndInv == TypeOK /\ WriterExclusive /\ LockFreeWhenIdle
=============================================================================
