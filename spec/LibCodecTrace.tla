--------------------------- MODULE LibCodecTrace ---------------------------
(* Trace validation for C01 (batched, VERDICT idiom of DESIGN 2.2).            *)
(* One trace = one real library file: optionally created as a legacy (v1)      *)
(* file, opened by a writer object, objects put under keys (and some read      *)
(* back inside the writing session), then opened by a second, read-only        *)
(* library object that lists the keys and reads every object back.             *)
(* Events carry the ABSTRACTION of the real objects (adapter c01_lib):         *)
(*   forget  (library objects dropped, file stays)   open carries ow = overwrite *)
(*   legacy {kind}            lput {k, x}  (record placed by the harness's own   *)
(*   open {h, kind, out, keys}             legacy encoder, or a genuine one)    *)
(*   put {k, x, out}          get {h, k, out, x}                                *)
(*   remove           (the file is removed; what follows happens at the SAME    *)
(*                     path in the same process; h = "f" = a fresh process)     *)
(*   scribble {h, k}  (the harness edited, in place, the object the last get    *)
(*                     of k through h returned; a later get must not show it)   *)
(* Every event must be a step of LibCodec with Deviations = {}, and what a get *)
(* observed must be MolModel!Same as what was put under that key -- the        *)
(* observation is compared with the PROPERTY, not with the reference codec, so *)
(* a codec that keeps more precision or lays the record out differently is     *)
(* accepted.                                                                   *)
EXTENDS LibCodec, Json, IOUtils, TLCExt
VARIABLES ti, l
tvars == <<vars, ti, l>>
Traces == ndJsonDeserialize(IOEnv.TRACE_FILE)
NT == Len(Traces)
Tr == Traces[ti].ev
Ev == Tr[l]
ToSet(s) == {s[i] : i \in 1..Len(s)}

TLegacy == /\ Ev.ev = "legacy" /\ MakeLegacy(Ev.kind)
TLPut   == /\ Ev.ev = "lput" /\ LegacyPut(Ev.k, Ev.x)                      \* a record a previous molli left in the file
TOpen   == /\ Ev.ev = "open" /\ OpenLib(Ev.h, Ev.kind, Ev.ow)
           /\ last'.out = Ev.out
           /\ Ev.out = "ok" => ToSet(Ev.keys) = DOMAIN file'.recs          \* the new object lists exactly the stored keys
TPut    == /\ Ev.ev = "put" /\ Put(Ev.k, Ev.x)                             \* not enabled outside Dom(v): see the check
           /\ last'.out = Ev.out                                           \* every object of the domain is storable
TGet    == /\ Ev.ev = "get" /\ Get(Ev.h, Ev.k)
           /\ last'.out = "ok"                                             \* the reference codec reads it back ...
           /\ Ev.out = "ok"                                                \* ... and so must the code
           /\ Holds(WellFormed(Ev.x))
           /\ Holds(Same(written[Ev.k], Ev.x))                             \* C01

TScribble == /\ Ev.ev = "scribble" /\ Scribble(Ev.h, Ev.k)                \* the harness edited the object it was handed
TForget == /\ Ev.ev = "forget" /\ Forget                                  \* the library objects are dropped, the file stays
TRemove == /\ Ev.ev = "remove" /\ Remove                                  \* the harness removed the file; the path is reused
Step == /\ ti <= NT /\ l <= Len(Tr)
        /\ (TLegacy \/ TLPut \/ TOpen \/ TPut \/ TGet \/ TScribble \/ TRemove \/ TForget)
        /\ l' = l + 1 /\ ti' = ti

Reset == /\ file' = [exists |-> FALSE, magic |-> "none", kind |-> "none", recs |-> NoRecs]
         /\ hs' = [h \in Handles |-> [made |-> FALSE, codec |-> 0]]
         /\ written' = NoRecs /\ seen' = 0
         /\ cache' = [h \in Handles |-> NoRecs]
         /\ last' = [act |-> "init", out |-> "ok"]
NextTrace == ti' = ti + 1 /\ l' = 1 /\ Reset
Finish == /\ ti <= NT /\ l = Len(Tr) + 1
          /\ PrintT(<<"VERDICT", Traces[ti].tid, "ACCEPT">>)
          /\ NextTrace
Stuck  == /\ ti <= NT /\ l <= Len(Tr) /\ ~ENABLED Step
          /\ PrintT(<<"VERDICT", Traces[ti].tid, "STUCK", l>>)
          /\ NextTrace
TraceInit == Init /\ ti = 1 /\ l = 1
TraceNext == Step \/ Finish \/ Stuck
TraceSpec == TraceInit /\ [][TraceNext]_tvars
Pool0 == {}
Keys0 == {}
H3 == {"w", "r", "f"}
DevNone == {}
=============================================================================
